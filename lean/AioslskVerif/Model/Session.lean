import AioslskVerif.Generated.TaskSites
/-!
# C16 — session life cycle (model)

Transcribes, for the FIXED code (fixes/C16-*.patch applied):

* the `SessionInitializedEvent` handlers in registration order (`burst`):
  network/network.py `_on_session_initialized` → `advertise_listening_ports`;
  distributed.py `_on_session_initialized` → `_notify_server_of_parent`;
  user/manager.py `_on_session_initialized` (CheckPrivileges, SetStatus, track own name, `track_friends`);
  room/manager.py `_on_session_initialized` (TogglePrivateRoomInvites; favourites iff `rooms.auto_join`);
  interest/manager.py `advertise_interests`; shares/manager.py `report_shares`;
* the session state machine of client.py (`start`, `login`, `execute`, `stop`, `_on_connection_state_changed`,
  `_on_server_reconnected`), network/network.py (`initialize`, `connect_listening_ports`, `disconnect`,
  `_cancel_all_tasks`, `_on_server_connection_state_changed`, `_server_connection_watchdog_job`),
  network/connection.py `DataConnection.disconnect`, server.py, and the CLOSED / CLOSING listeners of the managers;
* a TASK INVENTORY: one constructor of `Site` per `asyncio.create_task(` / `BackgroundTask(` / `Timer(` call site of
  the library, with the path by which `client.stop()` ends it (`Site.path`).  Whether a path exists in the code
  as it is now is read from `Generated.TaskSites` (`covered`), and `stop` in this model removes exactly the
  covered tasks.

Round 3: the fixes C16-session-destroyed-during-login, C16-tracking-cancel-lost-in-failed-write,
C16-disconnect-releases-stream-first and C16-closing-cancellation-arrives-before-closed (every CLOSED listener runs
whichever task notices the loss: `closeServer` is one atomic step) are part of the modelled code; losses noticed by
a write of the keep-alive / wishlist job, a slow SessionInitialized listener of the application and established
peer connections at `stop()` are exercised on the real code with the property monitor only (props/c16.py `_glue`).
The operation alphabet has a break (write
failure, close by another task, `stop()`, server-side EOF) at every suspension point of `login()` — before the
reply and at every awaited write of the burst — (`Op.loginBreak`), losses during which a listener of the
application stays suspended (`Op.lossHeld`, `Op.release`) and a reconnect by the application (`Op.connect`).

Round 5: the distributed position SURVIVES a loss of the server connection (the parent and the children are peer
connections): the state carries the parent (name, announced root and level) and the number of children, the
alphabet has the adoption of a parent named by the server (`Op.parentAdopt`), a parent that moves in the tree
(`Op.parentLevel`, `Op.parentRoot`) or goes away (`Op.parentLoss`), children that come and go (`Op.childJoin`,
`Op.childLoss`), and the share index scanned again by the application (`Op.rescan`); every login — the first one, a manual one after a requested disconnect, the watchdog's — announces
the position the client has AT THAT LOGIN (`envOf` reads the state), and the ghost field `told` records what the
current server connection was told last.

Time is counted in ticks of 0.5 s (the watchdog's poll interval, network.py:201-206); user / environment
operations happen just after a tick boundary, timers fire just before one.
-/
namespace AioslskVerif.Session
open AioslskVerif.Generated

/-! ## frames and the post-login burst -/

inductive Frame
  | setListenPort (port amount obfPort : Nat)
  | branchLevel (n : Nat)
  | branchRoot (u : String)
  | toggleParentSearch (b : Bool)
  | checkPrivileges
  | setStatus (s : Nat)
  | addUser (u : String)
  | toggleInvites (b : Bool)
  | joinRoom (r : String)
  | addInterest (i : String)
  | addHatedInterest (i : String)
  | sharedFoldersFiles (dirs files : Nat)
  deriving DecidableEq, Repr

inductive ErrorMode | all | any | clear
  deriving DecidableEq, Repr

/-- The part of `Settings` (settings.py) and of the scenario the life cycle depends on. -/
structure Config where
  username : String := "me"
  credsOk : Bool := true                 -- credentials.are_configured()
  friends : List String := []            -- users.friends (a set)
  liked : List String := []              -- interests.liked
  hated : List String := []              -- interests.hated
  favorites : List String := []          -- rooms.favorites
  autoJoin : Bool := true                -- rooms.auto_join
  invites : Bool := true                 -- rooms.private_room_invites
  reconnectAuto : Bool := false          -- network.server.reconnect.auto
  searchForParent : Bool := true         -- debug.search_for_parent
  logConnections : Bool := false         -- debug.log_connection_count
  requestTimeout : Bool := false         -- searches.send.request_timeout > 0
  wishlist : Nat := 0                    -- enabled wishlist entries
  scanOnStart : Bool := true             -- shares.scan_on_start
  race : Bool := false                   -- network.peer.connect_mode = race (else fallback)
  slowScan : Bool := false               -- scenario: the executor does not finish the scan
  clearPort : Nat := 0                   -- network.listening.port (0 = none)
  obfPort : Nat := 0                     -- network.listening.obfuscated_port
  clearBindFails : Bool := false         -- scenario: bind of the clear port fails
  obfBindFails : Bool := false
  errorMode : ErrorMode := .clear        -- network.listening.error_mode
  shareDirs : Nat := 0                   -- number of shares.directories entries
  dirs : Nat := 0                        -- shares.get_stats() at login
  files : Nat := 0
  deriving Repr

/-- What the burst reads besides the settings. -/
structure Env where
  clearPort : Nat            -- connected clear listening port or 0 (network.py:315-329)
  obfPort : Nat
  dirs : Nat
  files : Nat
  parent : Option (String × Nat)   -- distributed parent (branch root, branch level) at login time
  deriving Repr

/-- network.py:331-341 -/
def hNetwork (e : Env) : List Frame :=
  [.setListenPort e.clearPort (if e.obfPort = 0 then 0 else 1) e.obfPort]

/-- distributed.py `_get_advertised_branch_values` -/
def branchValues (c : Config) (e : Env) : String × Nat :=
  match e.parent with
  | none => (c.username, 0)
  | some (root, level) => if root = c.username then (c.username, 0) else (root, level + 1)

/-- the branch position told to the server: (level, root, searching for a parent) -/
def positionOf (c : Config) (e : Env) : Nat × String × Bool :=
  ((branchValues c e).2, (branchValues c e).1, e.parent.isNone && c.searchForParent)

/-- distributed.py `_notify_server_of_parent` -/
def hDistributed (c : Config) (e : Env) : List Frame :=
  [.branchLevel (branchValues c e).2, .branchRoot (branchValues c e).1,
   .toggleParentSearch (e.parent.isNone && c.searchForParent)]

/-- users for which a tracking task is created: own name first, then the friends (user/manager.py:479-482;
    a second request for an already tracked name sends nothing, user/manager.py:585) -/
def trackSet (c : Config) : List String := c.username :: c.friends.filter (fun f => f != c.username)

/-- user/manager.py:467-482 -/
def hUsers (c : Config) : List Frame :=
  [.checkPrivileges, .setStatus 2] ++ (trackSet c).map .addUser

/-- room/manager.py `_on_session_initialized` (fixed: favourites are joined iff `auto_join`) -/
def hRooms (c : Config) : List Frame :=
  .toggleInvites c.invites :: (if c.autoJoin then c.favorites.map .joinRoom else [])

/-- interest/manager.py `advertise_interests` -/
def hInterests (c : Config) : List Frame :=
  c.liked.map .addInterest ++ c.hated.map .addHatedInterest

/-- shares/manager.py `report_shares` -/
def hShares (e : Env) : List Frame := [.sharedFoldersFiles e.dirs e.files]

/-- Frames written to the server by the `SessionInitializedEvent` listeners, in listener order. -/
def burst (c : Config) (e : Env) : List Frame :=
  hNetwork e ++ hDistributed c e ++ hUsers c ++ hRooms c ++ hInterests c ++ hShares e

/-- The property's table "what the server must have been told" as a multiplicity per frame. -/
def mustTell (c : Config) (e : Env) : Frame → Nat
  | .setListenPort p a o =>
      if e.clearPort = p ∧ (if e.obfPort = 0 then 0 else 1) = a ∧ e.obfPort = o then 1 else 0
  | .branchLevel n => if (branchValues c e).2 = n then 1 else 0
  | .branchRoot u => if (branchValues c e).1 = u then 1 else 0
  | .toggleParentSearch b => if (e.parent.isNone && c.searchForParent) = b then 1 else 0
  | .checkPrivileges => 1
  | .setStatus s => if 2 = s then 1 else 0
  | .addUser u => if c.username = u ∨ u ∈ c.friends then 1 else 0
  | .toggleInvites b => if c.invites = b then 1 else 0
  | .joinRoom r => if c.autoJoin = true ∧ r ∈ c.favorites then 1 else 0
  | .addInterest i => if i ∈ c.liked then 1 else 0
  | .addHatedInterest i => if i ∈ c.hated then 1 else 0
  | .sharedFoldersFiles d f => if e.dirs = d ∧ e.files = f then 1 else 0

/-- settings hold sets -/
def Config.WF (c : Config) : Prop :=
  c.friends.Nodup ∧ c.liked.Nodup ∧ c.hated.Nodup ∧ c.favorites.Nodup

/-! ## task inventory -/

/-- One constructor per spawn site of the library (key in `Site.key`). -/
inductive Site
  | sharesScan        -- client.py start: create_task(self.shares.scan())
  | potentialParent   -- distributed.py _on_potential_parents
  | reader            -- connection.py start_reader_task
  | queuedMessage     -- connection.py queue_message
  | logConnections    -- network.py BackgroundTask log-connections-task
  | upnp              -- network.py BackgroundTask upnp-task
  | watchdog          -- network.py BackgroundTask server-connection-watchdog-task
  | directConnect     -- network.py _create_peer_connection_race
  | indirectConnect   -- network.py _create_peer_connection_race
  | connectToPeer     -- network.py _on_connect_to_peer
  | wishlist          -- search/manager.py BackgroundTask wishlist-task
  | searchReply       -- search/manager.py _query_shares_and_reply
  | wishlistTimer     -- search/manager.py _wishlist_job Timer
  | searchTimer       -- search/manager.py _attach_request_timer_and_emit Timer
  | ping              -- server.py BackgroundTask server-ping-task
  | bgRunner          -- tasks.py BackgroundTask.start (mechanism of every BackgroundTask site)
  | timerRunner       -- tasks.py Timer.start (mechanism of every Timer site)
  | transferProgress  -- transfer/manager.py BackgroundTask transfer-progress-task
  | transferMgmt      -- transfer/manager.py BackgroundTask transfer-management-task
  | queueRemotely     -- transfer/manager.py manage_transfers
  | initUpload        -- transfer/manager.py manage_transfers
  | initDownload      -- transfer/manager.py _on_peer_transfer_request
  | userMgmt          -- user/manager.py BackgroundTask user-management-task
  | trackRetry        -- user/manager.py _set_tracking_state
  | tracking          -- user/manager.py _get_tracked_user_object
  deriving DecidableEq, Repr

def Site.all : List Site :=
  [.sharesScan, .potentialParent, .reader, .queuedMessage, .logConnections, .upnp, .watchdog, .directConnect,
   .indirectConnect, .connectToPeer, .wishlist, .searchReply, .wishlistTimer, .searchTimer, .ping, .bgRunner,
   .timerRunner, .transferProgress, .transferMgmt, .queueRemotely, .initUpload, .initDownload, .userMgmt,
   .trackRetry, .tracking]

def Site.key : Site → String
  | .sharesScan => "client.py|SoulSeekClient.start|create_task|self.shares.scan"
  | .potentialParent => "distributed.py|DistributedNetwork._on_potential_parents|create_task|self._network.create_peer_connection"
  | .reader => "network/connection.py|DataConnection.start_reader_task|create_task|self._message_reader_loop"
  | .queuedMessage => "network/connection.py|DataConnection.queue_message|create_task|self.send_message"
  | .logConnections => "network/network.py|Network.__init__|BackgroundTask|self._log_connections_job"
  | .upnp => "network/network.py|Network.__init__|BackgroundTask|self._upnp_job"
  | .watchdog => "network/network.py|Network.__init__|BackgroundTask|self._server_connection_watchdog_job"
  | .directConnect => "network/network.py|Network._create_peer_connection_race|create_task|self._make_direct_connection"
  | .indirectConnect => "network/network.py|Network._create_peer_connection_race|create_task|self._make_indirect_connection"
  | .connectToPeer => "network/network.py|Network._on_connect_to_peer|create_task|self._handle_connect_to_peer"
  | .wishlist => "search/manager.py|SearchManager.__init__|BackgroundTask|self._wishlist_job"
  | .searchReply => "search/manager.py|SearchManager._query_shares_and_reply|create_task|self._network.send_peer_messages"
  | .wishlistTimer => "search/manager.py|SearchManager._wishlist_job|Timer|self._timeout_search_request"
  | .searchTimer => "search/manager.py|SearchManager._attach_request_timer_and_emit|Timer|self._timeout_search_request"
  | .ping => "server.py|ServerManager.__init__|BackgroundTask|self._ping_job"
  | .bgRunner => "tasks.py|BackgroundTask.start|create_task|self.runner"
  | .timerRunner => "tasks.py|Timer.start|create_task|self.runner"
  | .transferProgress => "transfer/manager.py|TransferManager.__init__|BackgroundTask|self._progress_reporting_job"
  | .transferMgmt => "transfer/manager.py|TransferManager.__init__|BackgroundTask|self._management_job"
  | .queueRemotely => "transfer/manager.py|TransferManager.manage_transfers|create_task|self._queue_remotely"
  | .initUpload => "transfer/manager.py|TransferManager.manage_transfers|create_task|self._initialize_upload"
  | .initDownload => "transfer/manager.py|TransferManager._on_peer_transfer_request|create_task|self._initialize_download"
  | .userMgmt => "user/manager.py|UserManager.__init__|BackgroundTask|self._management_job"
  | .trackRetry => "user/manager.py|UserTrackingManager._set_tracking_state|create_task|self._request_retry"
  | .tracking => "user/manager.py|UserTrackingManager._get_tracked_user_object|create_task|self._tracking_task"

/-- How `client.stop()` ends the tasks of a site. -/
inductive Path
  /-- a chain of (function, effect) links that must all be present in `Generated.TaskSites.effects`; when `svc` is
      given the chain starts at `<svc>.stop()` and `svc` must be listed in `SoulSeekClient.services` -/
  | chain (svc : Option String) (links : List (String × String))
  /-- the site is the generic body of `BackgroundTask.start` / `Timer.start`; its tasks are those of the
      `BackgroundTask(` / `Timer(` sites -/
  | mechanism
  /-- child of `_create_peer_connection_race`: it holds no handle of its own and is awaited inline by its creator
      (the coroutine `create_peer_connection` running in a task of one of the sites `creators`); it ends when the
      creator is cancelled: the `except asyncio.CancelledError` handler around the wait must cancel the children
      that are still pending, wait for them and re-raise (`links`), and every creator site must be covered -/
  | raceChild (creators : List String) (links : List (String × String))
  deriving Repr

private def stopLinks : List (String × String) :=
  [("client.py|SoulSeekClient.stop", "call:self.services[*].stop")]
private def netLinks : List (String × String) :=
  [("client.py|SoulSeekClient.stop", "call:self.network.disconnect")]
private def connLinks : List (String × String) :=
  netLinks ++ [("network/network.py|Network.disconnect", "call:connections[*].disconnect")]
private def cancelAllLinks : List (String × String) :=
  netLinks ++ [("network/network.py|Network.disconnect", "call:self._cancel_all_tasks")]

/-- what `_create_peer_connection_race` does when it is itself cancelled (network.py, `except
    asyncio.CancelledError` around `asyncio.wait`) -/
private def raceLinks : List (String × String) :=
  [("network/network.py|Network._create_peer_connection_race", "oncancel:cancel:{direct_task, indirect_task}[*]"),
   ("network/network.py|Network._create_peer_connection_race", "oncancel:gather:{direct_task, indirect_task}"),
   ("network/network.py|Network._create_peer_connection_race", "oncancel:reraise"),
   -- a cancelled direct attempt closes the connection nobody will own
   ("network/network.py|Network._make_direct_connection", "oncancel:call:PeerConnection().disconnect"),
   ("network/network.py|Network._make_direct_connection", "oncancel:reraise")]

/-- the library tasks in which `create_peer_connection` runs (distributed.py `_on_potential_parents`;
    `send_peer_messages` in search/manager.py `_query_shares_and_reply` and in the transfer tasks) -/
private def creatorKeys : List String :=
  ["potentialParent", "searchReply", "queueRemotely", "initUpload", "initDownload"]

def Site.path : Site → Path
  | .sharesScan => .chain none [("client.py|SoulSeekClient.stop", "cancel:self._scan_task")]
  | .potentialParent => .chain (some "distributed_network") (stopLinks ++
      [("distributed.py|DistributedNetwork.stop", "call:self._cancel_potential_parent_tasks"),
       ("distributed.py|DistributedNetwork._cancel_potential_parent_tasks", "cancel:self._potential_parent_tasks[*]")])
  | .reader => .chain none (connLinks ++
      -- the reader loop returns on the EOF its own close produces (connection.py:264-266, 295-313)
      [("network/connection.py|DataConnection.disconnect", "call:self._writer.close")])
  | .queuedMessage => .chain none (connLinks ++
      [("network/connection.py|DataConnection.disconnect", "call:self._cancel_queued_messages"),
       ("network/connection.py|DataConnection._cancel_queued_messages", "cancel:self._queued_messages[*]")])
  | .logConnections => .chain none (cancelAllLinks ++
      [("network/network.py|Network._cancel_all_tasks", "cancel:self._log_connections_task")])
  | .upnp => .chain none (cancelAllLinks ++
      [("network/network.py|Network._cancel_all_tasks", "cancel:self._upnp_task")])
  | .watchdog => .chain none (cancelAllLinks ++
      [("network/network.py|Network._cancel_all_tasks", "cancel:self._connection_watchdog_task")])
  | .directConnect => .raceChild creatorKeys raceLinks
  | .indirectConnect => .raceChild creatorKeys raceLinks
  | .connectToPeer => .chain none (cancelAllLinks ++
      [("network/network.py|Network._cancel_all_tasks", "cancel:self._create_peer_connection_tasks[*]")])
  | .wishlist => .chain (some "searches") (stopLinks ++
      [("search/manager.py|SearchManager.stop", "cancel:self._wishlist_task")])
  | .searchReply => .chain (some "searches") (stopLinks ++
      [("search/manager.py|SearchManager.stop", "cancel:self._search_reply_tasks[*]")])
  | .wishlistTimer => .chain (some "searches") (stopLinks ++
      [("search/manager.py|SearchManager.stop", "cancel:self.requests.values()[*].timer")])
  | .searchTimer => .chain (some "searches") (stopLinks ++
      [("search/manager.py|SearchManager.stop", "cancel:self.requests.values()[*].timer")])
  | .ping => .chain none (connLinks ++
      -- cancelled by the CLOSING listener; alive only while the server connection is connected
      [("network/connection.py|DataConnection.disconnect", "call:self.set_state"),
       ("server.py|ServerManager._on_state_changed", "cancel:self._ping_task")])
  | .bgRunner => .mechanism
  | .timerRunner => .mechanism
  | .transferProgress => .chain (some "transfers") (stopLinks ++
      [("transfer/manager.py|TransferManager.stop", "cancel:self._progress_reporting_task")])
  | .transferMgmt => .chain (some "transfers") (stopLinks ++
      [("transfer/manager.py|TransferManager.stop", "cancel:self._management_task")])
  | .queueRemotely => .chain (some "transfers") (stopLinks ++
      [("transfer/manager.py|TransferManager.stop", "call:self.transfers[*].cancel_tasks"),
       ("transfer/model.py|Transfer.cancel_tasks", "cancel:self._remotely_queue_task")])
  | .initUpload => .chain (some "transfers") (stopLinks ++
      [("transfer/manager.py|TransferManager.stop", "call:self.transfers[*].cancel_tasks"),
       ("transfer/model.py|Transfer.cancel_tasks", "cancel:self._transfer_task")])
  | .initDownload => .chain (some "transfers") (stopLinks ++
      [("transfer/manager.py|TransferManager.stop", "call:self.transfers[*].cancel_tasks"),
       ("transfer/model.py|Transfer.cancel_tasks", "cancel:self._transfer_task")])
  | .userMgmt => .chain (some "users") (stopLinks ++
      [("user/manager.py|UserManager.stop", "cancel:self._management_task")])
  | .trackRetry => .chain (some "users") (stopLinks ++
      [("user/manager.py|UserManager.stop", "call:self._tracking_manager.stop"),
       ("user/manager.py|UserTrackingManager.stop", "cancel:self._tracked_users.values()[*].retry_task"),
       -- `stop()` reaches a retry only through the handle `retry_task` of a user that is still registered: the
       -- retry is cancelled before its handle is replaced (`_set_tracking_state`, RETRY_PENDING) and before the
       -- user is dropped from `_tracked_users` (`_tracking_task`, no flags left) -- both through `_cancel_retry`
       ("user/manager.py|UserTrackingManager._set_tracking_state", "cancel:tracked_user.retry_task"),
       ("user/manager.py|UserTrackingManager._tracking_task", "cancel:tracked_user.retry_task")])
  | .tracking => .chain (some "users") (stopLinks ++
      [("user/manager.py|UserManager.stop", "call:self._tracking_manager.stop"),
       ("user/manager.py|UserTrackingManager.stop", "cancel:self._tracked_users.values()[*].task")])

/-- Does the path exist in the code as scanned now? -/
def Path.present : Path → Bool
  | .chain svc links =>
      (match svc with | none => true | some s => TaskSites.services.contains s) &&
      links.all (fun l => TaskSites.effects.contains l)
  | .mechanism => true
  | .raceChild _ links => links.all (fun l => TaskSites.effects.contains l)

/-- short names of the sites a `raceChild` path refers to -/
def Site.ofName : String → Option Site
  | "potentialParent" => some .potentialParent
  | "searchReply" => some .searchReply
  | "queueRemotely" => some .queueRemotely
  | "initUpload" => some .initUpload
  | "initDownload" => some .initDownload
  | _ => none

def covered (k : Site) : Bool :=
  k.path.present &&
  (match k.path with
   | .raceChild creators _ =>
       creators.all (fun n => match Site.ofName n with | some s => s.path.present | none => false)
   | _ => true)

/-! ## session state machine -/

inductive Conn | uninit | connecting | connected | closing | closed
  deriving DecidableEq, Repr

inductive Reason | unknown | connectFailed | requested | readError | writeError | timeout | eof
  deriving DecidableEq, Repr

inductive Reply | accepted | rejected | garbled | eof
  deriving DecidableEq, Repr

/-- the reconnect watchdog task: not running / polling every tick / in its reconnect delay -/
inductive Wd | off | idle | sleeping (n : Nat)
  deriving DecidableEq, Repr

/-- the distributed parent (a peer connection) and what it announced (distributed.py `DistributedPeer`) -/
structure Parent where
  name : String
  root : String
  level : Nat
  deriving DecidableEq, Repr

structure State where
  conn : Conn := .uninit
  session : Bool := false
  started : Bool := false
  stopped : Bool := false
  srvUp : Bool := true             -- environment: the server endpoint accepts connections
  srvReply : Reply := .accepted    -- environment: how the server answers a Login request
  listening : Nat := 0             -- open listening sockets
  -- live tasks
  wd : Wd := .off
  ping : Bool := false
  reader : Bool := false
  userMgmt : Bool := false
  transferMgmt : Bool := false
  transferProgress : Bool := false
  logConn : Bool := false
  scan : Bool := false
  wishlist : Bool := false
  tracked : List String := []      -- one tracking task per tracked user
  searchTimers : Nat := 0
  wishlistTimers : Nat := 0
  pp : List Nat := []              -- potential-parent connect tasks: ticks left
  sr : List Nat := []              -- search-reply tasks connecting to the asker: ticks left
  orphans : List Nat := []         -- race children whose creator was cancelled without ending them: ticks left
  held : List Bool := []           -- listeners of the application suspended inside a CLOSED / SessionDestroyed
                                   -- event; `true`: the reader task of the closed stream is the one that waits
  -- server-derived state
  users : Bool := false            -- some user object / privileged user is stored
  rooms : Bool := false
  params : Bool := false           -- one of the five server-sent distributed parameters is set
  -- the place in the distributed network: peer connections, they survive a loss of the server connection
  parent : Option Parent := none
  children : Nat := 0
  -- ghost: the branch position (level, root, searching) the CURRENT server connection was told last
  told : Option (Nat × String × Bool) := none
  -- the share index after a scan made by the application since start() (folders, files); `none`: as at start()
  stats : Option (Nat × Nat) := none
  deriving Repr

/-- reader tasks of a closed stream that are suspended inside a listener of the application -/
def State.heldReaders (st : State) : Nat := (st.held.filter id).length

inductive LoginResult | ok | authError | error
  deriving DecidableEq, Repr

inductive Obs
  | attempt                        -- a connect attempt to the server
  | connected
  | closed (r : Reason)            -- server connection reached CLOSED
  | loginSent
  | sessionInit
  | sessionDestroyed
  | frames (fs : List Frame)       -- burst frames that reached the server
  | loginResult (r : LoginResult)
  | refused                        -- execute(): InvalidSessionError
  | sent                           -- execute(): command sent
  | startFailed
  | invalid                        -- the operation is not applicable here (never generated)
  deriving DecidableEq, Repr

/-- What happens to a `login()` in progress (at one of its suspension points). -/
inductive Break
  | writeFail                      -- the write hits a reset connection: `_send` → `disconnect(WRITE_ERROR)`
  | close (r : Reason)             -- another task closes the connection: `disconnect_server()` / `disconnect(r)`
  | stop                           -- another task calls `client.stop()`
  | srvEof                         -- the server closes its end; the writes still succeed, the reader finds the EOF
  deriving DecidableEq, Repr

inductive Op
  | start
  | login
  | loginBreak (pos : Option Nat) (delivered : Nat) (b : Break)
                                   -- login() during which `b` happens: before the reply (`none`) or at the
                                   -- (j+1)-th awaited write of the burst (`some j`)
  | exec
  | populate                       -- the server sends room list, users, distributed parameters
  | search
  | wishlistInterval               -- the server sends WishlistInterval
  | potentialParents               -- the server sends PotentialParents with one unreachable entry
  | searchRequest                  -- the server relays a search of an unreachable user that matches a shared file
  | loss (r : Reason)
  | lossHeld (r : Reason)          -- a loss during which a listener of the application (CLOSED / SessionDestroyed)
                                   -- suspends: `DataConnection.disconnect` does not return before `release`
  | release                        -- the suspended listeners of the application return
  | connect                        -- the application calls `network.connect_server()` on the closed connection
  | parentAdopt (name root : String) (level : Nat)
                                   -- the server names a potential parent that accepts the connection; the peer
                                   -- announces its level and (unless 0) its branch root: it becomes the parent
  | parentLevel (level : Nat)      -- the parent announces a new branch level
  | parentRoot (root : String)     -- the parent announces a new branch root
  | parentLoss                     -- the connection to the parent closes
  | childJoin                      -- a peer connects to the clear listening port (PeerInit, type D): a child
  | childLoss                      -- the connection of a child closes
  | rescan (dirs files : Nat)      -- the application has added files and calls `shares.scan()`: the index now
                                   -- holds `dirs` folders / `files` files
  | tick
  | setSrvUp (b : Bool)
  | setSrvReply (r : Reply)
  | stop
  deriving DecidableEq, Repr

/-- ticks of the reconnect delay (`reconnect.timeout` = 10 s) -/
def reconnectTicks : Nat := 20
/-- ticks of the direct connect timeout (PEER_CONNECT_TIMEOUT = 10 s) -/
def directTicks : Nat := 20
/-- ticks of the indirect connect timeout (PEER_INDIRECT_CONNECT_TIMEOUT = 60 s) -/
def indirectTicks : Nat := 120
/-- life of a connect to an unreachable peer: fallback = direct timeout, then indirect timeout; race = both at once -/
def connectTicks (c : Config) : Nat := if c.race then indirectTicks else directTicks + indirectTicks

def envOf (c : Config) (st : State) : Env :=
  { clearPort := if c.clearPort ≠ 0 ∧ ¬ c.clearBindFails then c.clearPort else 0
    obfPort := if c.obfPort ≠ 0 ∧ ¬ c.obfBindFails then c.obfPort else 0
    -- shares.get_stats() NOW: the index can have been scanned again since the first login
    dirs := (st.stats.getD (c.dirs, c.files)).1, files := (st.stats.getD (c.dirs, c.files)).2
    -- the parent the client has NOW: `DistributedNetwork.parent` is not touched by a loss of the server connection
    parent := st.parent.map (fun p => (p.root, p.level)) }

/-- the branch position of the client in state `st` -/
def position (c : Config) (st : State) : Nat × String × Bool := positionOf c (envOf c st)

/-- established distributed peer connections (each with its reader task and its socket) -/
def peerConns (st : State) : Nat := (if st.parent.isSome then 1 else 0) + st.children

/-- `DistributedNetwork._max_children` before any GetUserStats answer (distributed.py `__init__`) -/
def maxChildren : Nat := 5

/-- network.py `connect_listening_ports`: number of connected listening ports, or `none` when the error mode
    makes `initialize` raise (all ports are then closed again) -/
def listenResult (c : Config) : Option Nat :=
  let clearOk := c.clearPort ≠ 0 ∧ ¬ c.clearBindFails
  let obfOk := c.obfPort ≠ 0 ∧ ¬ c.obfBindFails
  let results : List Bool :=          -- one entry per configured port: did it fail?
    (if c.clearPort ≠ 0 then [c.clearBindFails] else []) ++ (if c.obfPort ≠ 0 then [c.obfBindFails] else [])
  let fail := match c.errorMode with
    | .all => results.all id          -- vacuously true without configured ports (network.py:266-269)
    | .any => results.any id
    | .clear => ¬ clearOk
  if fail then none else some ((if clearOk then 1 else 0) + (if obfOk then 1 else 0))

/-- `DataConnection.disconnect(reason)` on the server connection with every listener it triggers
    (connection.py:247-281; network.py:1050-1073; server.py:61-62; search/manager.py:423-424;
    user/manager.py `_on_state_changed` ×2; room/manager.py:526-531; distributed.py `_reset_server_values`;
    client.py `_on_connection_state_changed`). -/
def closeServer (r : Reason) (st : State) : State × List Obs :=
  if st.conn = .closed ∨ st.conn = .closing then (st, [])
  else
    ({ st with
        conn := .closed
        wd := if r = .requested ∨ r = .eof then .off else st.wd
        ping := false, wishlist := false, reader := false
        tracked := [], users := false, rooms := false, params := false
        session := false
        -- the parent and the children stay; what the server was told went to a connection that is gone
        told := none },
     (if st.session then [.sessionDestroyed] else []) ++ [.closed r])

/-- client.py `login()` on a connected server connection without a session. -/
def doLogin (c : Config) (st : State) : State × List Obs :=
  match st.srvReply with
  | .accepted =>
      ({ st with session := true, reader := true, tracked := trackSet c, users := true
                 told := some (position c st) },
       [.loginSent, .sessionInit, .frames (burst c (envOf c st)), .loginResult .ok])
  | .rejected => (st, [.loginSent, .loginResult .authError])
  | .garbled => (st, [.loginSent, .loginResult .error])
  | .eof =>
      let r := closeServer .eof st
      (r.1, [.loginSent] ++ r.2 ++ [.loginResult .error])

def agePP (l : List Nat) : List Nat := (l.filter (fun n => n > 1)).map (fun n => n - 1)

/-- half a second passes for every pending connect attempt -/
def ageAll (st : State) : State :=
  { st with pp := agePP st.pp, sr := agePP st.sr, orphans := agePP st.orphans }

/-- one watchdog job run that finds the reconnect delay elapsed (network.py:396-403, client.py:376-379) -/
def reconnect (c : Config) (st : State) : State × List Obs :=
  if st.srvUp then
    let st1 := { st with conn := .connected, ping := true, wd := .idle }
    if c.reconnectAuto then
      let r := doLogin c st1
      (r.1, [.attempt, .connected] ++ r.2)
    else (st1, [.attempt, .connected])
  else
    -- CONNECTING → disconnect(CONNECT_FAILED): the CLOSED listeners run again
    let r := closeServer .connectFailed { st with conn := .connecting, wd := .idle }
    (r.1, [.attempt] ++ r.2)

def tickWd (c : Config) (st : State) : State × List Obs :=
  match st.wd with
  | .off => (st, [])
  | .idle =>
      if st.conn = .closed ∧ c.credsOk then ({ st with wd := .sleeping reconnectTicks }, []) else (st, [])
  | .sleeping n => if n ≤ 1 then reconnect c st else ({ st with wd := .sleeping (n - 1) }, [])

def doStart (c : Config) (st : State) : State × List Obs :=
  let st0 := { st with started := true, userMgmt := true, transferMgmt := true, transferProgress := true
                       -- without a shared directory `scan()` never reaches the executor (shares/manager.py:630-640)
                       scan := c.scanOnStart && c.slowScan && decide (c.shareDirs ≠ 0) }
  match listenResult c with
  | none => (st0, [.startFailed])
  | some n =>
      let st1 := { st0 with listening := n }
      if st.srvUp then
        ({ st1 with conn := .connected, ping := true
                    wd := if c.reconnectAuto then .idle else .off
                    logConn := c.logConnections },
         [.attempt, .connected])
      else
        let r := closeServer .connectFailed { st1 with conn := .connecting }
        (r.1, [.attempt] ++ r.2 ++ [.startFailed])

/-- client.py `stop()`: a task ends iff the code has a path for its site (`covered`). -/
def doStop (c : Config) (st : State) : State × List Obs :=
  let keepB (k : Site) (b : Bool) : Bool := b && !covered k
  let keepN (k : Site) (n : Nat) : Nat := if covered k then 0 else n
  let stA := { st with wd := if covered .watchdog then .off else st.wd
                       logConn := keepB .logConnections st.logConn }
  let r := closeServer .requested stA
  let st1 := r.1
  ({ st1 with stopped := true
              listening := 0
              scan := keepB .sharesScan st1.scan
              userMgmt := keepB .userMgmt st1.userMgmt
              tracked := if covered .tracking then [] else st1.tracked
              -- user objects are stored weakly; with the connection closed only tracking entries hold them
              users := if covered .tracking then false else st1.users
              transferMgmt := keepB .transferMgmt st1.transferMgmt
              transferProgress := keepB .transferProgress st1.transferProgress
              wishlist := keepB .wishlist st1.wishlist
              searchTimers := keepN .searchTimer st1.searchTimers
              wishlistTimers := keepN .wishlistTimer st1.wishlistTimers
              pp := if covered .potentialParent then [] else st1.pp
              sr := if covered .searchReply then [] else st1.sr
              -- every peer connection is disconnected (network.py `disconnect`): the distributed peers are gone;
              -- `_unset_parent` finds the server connection closing, nothing is sent
              parent := if covered .reader then none else st1.parent
              children := if covered .reader then 0 else st1.children
              -- the children of a cancelled creator end with it iff the creator's cancel handler ends them
              orphans := if covered .directConnect && covered .indirectConnect then []
                         else st1.orphans ++ (if c.race then
                           (if covered .potentialParent then st1.pp else []) ++
                           (if covered .searchReply then st1.sr else []) else []) },
   r.2)

/-- the event that interrupts a `login()` in progress -/
def applyBreak (c : Config) (b : Break) (st : State) : State × List Obs :=
  match b with
  | .writeFail => closeServer .writeError st
  | .close r => closeServer r st
  | .stop => doStop c st
  | .srvEof => closeServer .eof st

/-- client.py `login()` on a connected server connection without a session, interrupted by `b`.

    * `pos = none`: the Login request has been written (or, for `writeFail`, its write fails) and no reply has
      arrived: `login()` raises.
    * `pos = some j`, `j < |burst|`: the reply was accepted, the session exists, the listeners of
      `SessionInitializedEvent` are running and the (j+1)-th awaited write of the burst is suspended (for
      `writeFail`: fails).  The connection closes, the session is destroyed at once (client.py
      `_on_connection_state_changed`), the CLOSED listeners reset users / rooms / tracking.  The remaining writes
      of the burst are dropped by the closed connection (connection.py `send_message`), the user manager's
      listener does not track anybody for a destroyed session, a tracking task whose own write failed ends with the
      reset (user/manager.py, fixes C16-session-destroyed-during-login / C16-tracking-cancel-lost-in-failed-write),
      `login()` does not start a reader for a destroyed session and returns normally.  How many of the frames
      written before the break reach the server is up to the network (`delivered`).
    * `srvEof` inside the burst: the writes still succeed, `login()` completes, the reader it starts finds the EOF.
    * `j ≥ |burst|`: there is no such position: `login()` completes and the event follows it. -/
def doLoginBreak (c : Config) (pos : Option Nat) (delivered : Nat) (b : Break) (st : State) : State × List Obs :=
  match pos with
  | none =>
      let r := applyBreak c b st
      (r.1, (if b = .writeFail then [] else [.loginSent]) ++ r.2 ++ [.loginResult .error])
  | some j =>
      let bs := burst c (envOf c st)
      let full := doLogin c { st with srvReply := .accepted }
      let done : State := { full.1 with srvReply := st.srvReply }
      if j ≥ bs.length then
        match b with
        | .writeFail => (done, full.2)
        | _ => ((applyBreak c b done).1, full.2 ++ (applyBreak c b done).2)
      else
        match b with
        | .srvEof => ((closeServer .eof done).1, full.2 ++ (closeServer .eof done).2)
        | _ =>
            let r := applyBreak c b { st with session := true, users := true }
            (r.1, [.loginSent, .sessionInit, .frames (bs.take (min (j + 1) delivered))] ++ r.2 ++ [.loginResult .ok])

/-- network.py `connect_server()` called by the application on a closed connection (the reconnect watchdog, if it
    runs, is polling and not in its reconnect delay).  CONNECTED starts the ping job and, with `reconnect.auto`,
    the watchdog (network.py `_on_server_connection_state_changed`); a refused connect ends CLOSED(CONNECT_FAILED)
    and raises. -/
def doConnect (c : Config) (st : State) : State × List Obs :=
  if st.srvUp then
    ({ st with conn := .connected, ping := true, wd := if c.reconnectAuto then .idle else st.wd },
     [.attempt, .connected])
  else
    let r := closeServer .connectFailed { st with conn := .connecting }
    (r.1, [.attempt] ++ r.2 ++ [.startFailed])

/-- distributed.py `_notify_server_of_parent` as called outside a login (`_set_parent`, `_unset_parent`, the parent
    announcing a new level / root): with a session the three frames are sent; without one `_unset_parent` returns
    before and the other callers fail on `self._session.user` (logged by the reader loop) — nothing is sent, the
    next login announces the position. -/
def tellPosition (c : Config) (st : State) : State × List Obs :=
  if st.session then ({ st with told := some (position c st) }, [.frames (hDistributed c (envOf c st))])
  else (st, [])

/-- the clear listening port accepts connections -/
def clearOpen (c : Config) (st : State) : Bool :=
  decide (st.listening ≠ 0) && decide (c.clearPort ≠ 0) && !c.clearBindFails

def Wd.isSleeping : Wd → Bool
  | .sleeping _ => true
  | _ => false

def step (c : Config) (st : State) : Op → State × List Obs
  | .start => if st.started ∨ st.conn ≠ .uninit then (st, [.invalid]) else doStart c st
  | .login =>
      if st.conn = .connected ∧ st.session = false ∧ st.reader = false ∧ st.stopped = false then doLogin c st
      else (st, [.invalid])
  | .loginBreak pos d b =>
      if st.conn = .connected ∧ st.session = false ∧ st.reader = false ∧ st.stopped = false then
        doLoginBreak c pos d b st
      else (st, [.invalid])
  | .exec => if st.session then (st, [.sent]) else (st, [.refused])
  | .populate =>
      if st.reader then ({ st with users := true, rooms := true, params := true }, []) else (st, [.invalid])
  | .search =>
      -- on a never opened server connection the send raises (connection.py:451-453)
      if st.started ∧ st.stopped = false ∧ st.conn ≠ .uninit then
        ({ st with searchTimers := st.searchTimers + (if c.requestTimeout then 1 else 0) }, [])
      else (st, [.invalid])
  | .wishlistInterval =>
      if st.reader then ({ st with wishlist := true, wishlistTimers := st.wishlistTimers + c.wishlist }, [])
      else (st, [.invalid])
  | .potentialParents =>
      if st.reader then
        ({ st with pp := if c.searchForParent then connectTicks c :: st.pp else st.pp }, [])
      else (st, [.invalid])
  | .searchRequest =>
      -- search/manager.py `_query_shares_and_reply`: a reply task only when the shares hold a match
      if st.reader then
        ({ st with sr := if c.files ≠ 0 then connectTicks c :: st.sr else st.sr }, [])
      else (st, [.invalid])
  | .loss r =>
      if st.conn = .connected ∧ r ≠ .connectFailed ∧ ((r = .eof ∨ r = .readError) → st.reader = true) then
        closeServer r st
      else (st, [.invalid])
  | .lossHeld r =>
      -- the disconnect runs in the reader task when the reader notices the loss (EOF, read error): that task stays
      -- suspended in the listener; every other reason is noticed by the task of the caller
      if st.conn = .connected ∧ r ≠ .connectFailed ∧ ((r = .eof ∨ r = .readError) → st.reader = true) then
        let x := closeServer r st
        ({ x.1 with held := decide (r = .eof ∨ r = .readError) :: x.1.held }, x.2)
      else (st, [.invalid])
  | .release =>
      -- the listeners return: `disconnect` has nothing left to do (the stream was released before CLOSED was
      -- reported), a reader loop of a released stream ends (connection.py, fix C16-disconnect-releases-stream-first)
      if st.held ≠ [] then ({ st with held := [] }, []) else (st, [.invalid])
  | .connect =>
      if st.started ∧ st.stopped = false ∧ st.conn = .closed ∧ st.wd.isSleeping = false then doConnect c st
      else (st, [.invalid])
  | .parentAdopt name root level =>
      -- distributed.py `_on_potential_parents` (only with `debug.search_for_parent`), `_check_if_new_parent`,
      -- `_set_parent`: the pending potential-parent connects — to OTHER users; the request that produced this
      -- connection has finished or is left to finish (1890ba6) — are cancelled, the server and the children are told
      if st.reader ∧ c.searchForParent ∧ st.parent = none ∧ st.stopped = false then
        tellPosition c { st with
          parent := some { name := name, root := if level = 0 then name else root, level := level }
          pp := []
          orphans := if covered .directConnect && covered .indirectConnect then st.orphans
                     else st.orphans ++ (if c.race then st.pp else []) }
      else (st, [.invalid])
  | .parentLevel level =>
      -- distributed.py `_on_distributed_branch_level`: level 0 means the peer is the root of its branch
      match st.parent with
      | some p =>
          tellPosition c { st with
            parent := some { p with level := level, root := if level = 0 then p.name else p.root } }
      | none => (st, [.invalid])
  | .parentRoot root =>
      -- distributed.py `_on_distributed_branch_root`: nothing happens when the root is the one already known
      match st.parent with
      | some p => if p.root = root then (st, []) else tellPosition c { st with parent := some { p with root := root } }
      | none => (st, [.invalid])
  | .parentLoss =>
      -- distributed.py `_on_state_changed` (peer connection CLOSED) → `_unset_parent`
      match st.parent with
      | some _ => tellPosition c { st with parent := none }
      | none => (st, [.invalid])
  | .childJoin =>
      -- distributed.py `_check_if_new_child` / `_add_child`: the server is not told anything
      if clearOpen c st ∧ st.children < maxChildren ∧ st.stopped = false then
        ({ st with children := st.children + 1 }, [])
      else (st, [.invalid])
  | .childLoss =>
      if st.children ≠ 0 then ({ st with children := st.children - 1 }, []) else (st, [.invalid])
  | .rescan d f =>
      -- shares/manager.py `scan` → `report_shares`: the new counts are reported iff there is a session
      if st.started ∧ st.stopped = false ∧ c.slowScan = false ∧ c.shareDirs ≠ 0 then
        ({ st with stats := some (d, f) }, if st.session then [.frames [.sharedFoldersFiles d f]] else [])
      else (st, [.invalid])
  | .tick => tickWd c (ageAll st)
  | .setSrvUp b => ({ st with srvUp := b }, [])
  | .setSrvReply r => ({ st with srvReply := r }, [])
  | .stop => if st.started ∧ st.stopped = false then doStop c st else (st, [.invalid])

def run (c : Config) : State → List Op → State × List Obs
  | st, [] => (st, [])
  | st, op :: ops =>
      let (st1, o1) := step c st op
      let (st2, o2) := run c st1 ops
      (st2, o1 ++ o2)

def init : State := {}

/-- race children of the pending connects: the indirect attempt lives as long as the connect, the direct attempt
    until its timeout -/
def raceChildren (c : Config) (l : List Nat) : List Site :=
  if c.race then
    l.map (fun _ => Site.indirectConnect) ++
    (l.filter (fun n => n > indirectTicks - directTicks)).map (fun _ => Site.directConnect)
  else []

/-- live library tasks, as sites with multiplicity -/
def alive (c : Config) (st : State) : List Site :=
  (if st.wd = .off then [] else [.watchdog]) ++
  (if st.ping then [.ping] else []) ++ (if st.reader then [.reader] else []) ++
  (if st.userMgmt then [.userMgmt] else []) ++ (if st.transferMgmt then [.transferMgmt] else []) ++
  (if st.transferProgress then [.transferProgress] else []) ++ (if st.logConn then [.logConnections] else []) ++
  (if st.scan then [.sharesScan] else []) ++ (if st.wishlist then [.wishlist] else []) ++
  st.tracked.map (fun _ => .tracking) ++ List.replicate st.searchTimers .searchTimer ++
  List.replicate st.wishlistTimers .wishlistTimer ++ st.pp.map (fun _ => .potentialParent) ++
  st.sr.map (fun _ => .searchReply) ++ raceChildren c (st.pp ++ st.sr ++ st.orphans) ++
  -- the reader of every distributed peer connection
  List.replicate (peerConns st) .reader ++
  -- not the library's to end: they are suspended in code of the application
  List.replicate st.heldReaders .reader

/-- open sockets of the library: the server connection, the listening ports and the distributed peer connections -/
def openSockets (st : State) : Nat := (if st.conn = .connected then 1 else 0) + st.listening + peerConns st

/-- server-derived state is empty -/
def cleared (st : State) : Prop :=
  st.tracked = [] ∧ st.users = false ∧ st.rooms = false ∧ st.params = false ∧ st.session = false

instance (st : State) : Decidable (cleared st) := by unfold cleared; exact inferInstance

instance (c : Config) : Decidable c.WF := by unfold Config.WF; exact inferInstance

/-- operations of the environment (time, server availability) — everything that can happen without the user -/
def Op.isEnv : Op → Bool
  | .tick | .setSrvUp _ | .setSrvReply _ => true
  | _ => false

end AioslskVerif.Session
