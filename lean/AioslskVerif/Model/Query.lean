/-!
Model of query parsing and matching over the shares
(`aioslsk/search/model.py:43-81`, `aioslsk/shares/utils.py:27-39`,
`aioslsk/shares/manager.py` `query` and `_add_item_to_term_map`), **after** the fix
`fixes/C07-wildcard-union.patch`.

Characters are abstract: everything is parametric in a `Cls Ch` holding what Python says about a
character (`[^\W_]`, `str.lower`, `str.isspace`) so that no Unicode table is re-implemented here. The
correspondence harness sends, per case, the class of every character it uses.

Pipeline kept in four separate stages so that C08 can reuse it:
`parse → prefilter (term map) → regex match (+ an extra per-item filter) → cap`;
`query` returns the matched items before any visible/locked split.
-/
namespace AioslskVerif.Query

/-- What Python says about characters. -/
structure Cls (Ch : Type) where
  /-- `re` class `[^\W_]` (letters and digits, not the underscore) -/
  isWord : Ch → Bool
  /-- `str.lower` (one character to one character on the property's alphabet) -/
  fold : Ch → Ch
  /-- `str.isspace`, the separator of `str.split()` -/
  isSpace : Ch → Bool
  /-- `'*'` -/
  star : Ch
  /-- `'-'` -/
  dash : Ch

/-- The assumptions on the alphabet (checked by the harness for every character it sends):
lower-casing is idempotent and does not change the class of a character; `*` and `-` are not
word characters. -/
structure Cls.Lawful {Ch : Type} (K : Cls Ch) : Prop where
  fold_idem : ∀ c, K.fold (K.fold c) = K.fold c
  word_fold : ∀ c, K.isWord (K.fold c) = K.isWord c
  star_nonword : K.isWord K.star = false
  dash_nonword : K.isWord K.dash = false

section
variable {Ch : Type} [DecidableEq Ch] (K : Cls Ch)

/-! ## Splitting into maximal runs (`re.split(r"[\W_]", s)` without the empty strings; `str.split()`) -/

/-- Maximal runs of characters satisfying `keep`; `cur` is the run being read. -/
def runsAux (keep : Ch → Bool) (cur : List Ch) : List Ch → List (List Ch)
  | [] => if cur.isEmpty then [] else [cur]
  | c :: s =>
    if keep c then runsAux keep (cur ++ [c]) s
    else if cur.isEmpty then runsAux keep [] s else cur :: runsAux keep [] s

/-- `[x for x in re.split(r"[\W_]", s) if x]` (manager.py:60, 685-688, 885-888). -/
def words (s : List Ch) : List (List Ch) := runsAux K.isWord [] s

/-- `s.split()` -/
def splitWs (s : List Ch) : List (List Ch) := runsAux (fun c => !K.isSpace c) [] s

/-! ## The query (search/model.py:36-62) -/

structure Query (Ch : Type) where
  incl : List (List Ch) := []
  excl : List (List Ch) := []
  wild : List (List Ch) := []
deriving Repr, DecidableEq

/-- `set.add` -/
def setAdd {α : Type} [DecidableEq α] (l : List α) (x : α) : List α := if x ∈ l then l else l ++ [x]

/-- One iteration of the loop of `SearchQuery.parse` (model.py:50-60). -/
def parseTerm (q : Query Ch) (term : List Ch) : Query Ch :=
  let l := term.map K.fold
  if !(l.any K.isWord) then q                       -- `if not re.search(r'[^\W_]', l_term): continue`
  else match term with
    | [] => q
    | c :: _ =>
      if c = K.star then { q with wild := setAdd q.wild l.tail }
      else if c = K.dash then { q with excl := setAdd q.excl l.tail }
      else { q with incl := setAdd q.incl l }

/-- `SearchQuery.parse` -/
def parse (s : List Ch) : Query Ch := (splitWs K s).foldl (parseTerm K) {}

/-- `has_inclusion_terms` -/
def Query.hasInclusion (q : Query Ch) : Bool := !q.incl.isEmpty || !q.wild.isEmpty

/-! ## The regular expressions of `create_term_pattern` (utils.py:27-39), as a matcher

`(?:(?<=\W|_)|^)` + [`[^\W_]*`] + `re.escape(term)` + `(?=[\W_]|$)`, `re.IGNORECASE`, used with
`pattern.search`. -/

/-- the escaped literal, case-insensitively, at the head of `p`: what is left of `p` -/
def litAt : List Ch → List Ch → Option (List Ch)
  | [], p => some p
  | _ :: _, [] => none
  | c :: t, d :: p => if K.fold c = K.fold d then litAt t p else none

/-- the look-ahead `(?=[\W_]|$)` -/
def endOK : List Ch → Bool
  | [] => true
  | c :: _ => !K.isWord c

/-- literal then look-ahead -/
def inclAt (t p : List Ch) : Bool :=
  match litAt K t p with
  | some r => endOK K r
  | none => false

/-- `[^\W_]*` then literal then look-ahead: backtracking over the number of word characters -/
def wildAt (t : List Ch) : List Ch → Bool
  | [] => inclAt K t []
  | c :: p => inclAt K t (c :: p) || (K.isWord c && wildAt t p)

/-- `pattern.search`: try every start position; `pw` = "the previous character is a word
character" (then the look-behind `(?:(?<=\W|_)|^)` fails). -/
def searchFrom (here : List Ch → Bool) : Bool → List Ch → Bool
  | pw, [] => !pw && here []
  | pw, c :: p => (!pw && here (c :: p)) || searchFrom here (K.isWord c) p

def reIncl (t p : List Ch) : Bool := searchFrom K (inclAt K t) false p
def reWild (t p : List Ch) : Bool := searchFrom K (wildAt K t) false p

/-- `all(matcher(path) for matcher in search_query.matchers_iter())` (model.py:64-77) -/
def matchesRegex (q : Query Ch) (p : List Ch) : Bool :=
  q.incl.all (fun t => reIncl K t p) && q.wild.all (fun t => reWild K t p) &&
    q.excl.all (fun t => !reIncl K t p)

/-! ## The property's predicate, stated declaratively -/

/-- `a` is empty or ends in a non-word character -/
def EndsSep (a : List Ch) : Prop := a = [] ∨ ∃ a' c, a = a' ++ [c] ∧ K.isWord c = false
/-- `b` is empty or starts with a non-word character -/
def StartsSep (b : List Ch) : Prop := b = [] ∨ ∃ c b', b = c :: b' ∧ K.isWord c = false
/-- equal up to letter case -/
def CIeq (m t : List Ch) : Prop := m.map K.fold = t.map K.fold

/-- the path contains the term as a whole word (sequence of words), case-insensitively -/
def Incl (t p : List Ch) : Prop :=
  ∃ a m b, p = a ++ m ++ b ∧ EndsSep K a ∧ CIeq K m t ∧ StartsSep K b

/-- the path contains a word ending in the term (followed by the rest of the term) -/
def Wild (t p : List Ch) : Prop :=
  ∃ a w m b, p = a ++ w ++ m ++ b ∧ EndsSep K a ∧ (∀ c ∈ w, K.isWord c = true) ∧ CIeq K m t ∧ StartsSep K b

def MatchesSpec (q : Query Ch) (p : List Ch) : Prop :=
  (∀ t ∈ q.incl, Incl K t p) ∧ (∀ t ∈ q.wild, Wild K t p) ∧ (∀ t ∈ q.excl, ¬ Incl K t p)

/-! ## Term map and prefilter (manager.py:682-719 after the fix, 883-898)

The term map is `word → set of items`; its content is determined by the list `tm` of items that
were added to it, so it is represented by that list and the two look-ups below. -/

variable {I : Type} [DecidableEq I] (qp : I → List Ch)

/-- the keys under which `_add_item_to_term_map` files an item: the words of the lower-cased path -/
def pathWords (p : List Ch) : List (List Ch) := words K (p.map K.fold)

def dedup {α : Type} [DecidableEq α] : List α → List α
  | [] => []
  | x :: l => if x ∈ l then dedup l else x :: dedup l

/-- `self._term_map.keys()` -/
def keys (tm : List I) : List (List Ch) := dedup (tm.flatMap (fun it => pathWords K (qp it)))

/-- `self._term_map[w]` -/
def lookup (tm : List I) (w : List Ch) : List I :=
  tm.filter (fun it => decide (w ∈ pathWords K (qp it)))

/-- `⋃ {self._term_map[w] | w ∈ ws}` (the fixed wildcard branch) -/
def unionLookup (tm : List I) (ws : List (List Ch)) : List I :=
  tm.filter (fun it => ws.any (fun w => decide (w ∈ pathWords K (qp it))))

/-- sub-term 0 of `re.split` of a wildcard term when it is not empty: matched as a word *suffix* -/
def wildFirst (t : List Ch) : Option (List Ch) :=
  match t with
  | [] => none
  | c :: _ => if K.isWord c then some (t.takeWhile K.isWord) else none

/-- the other sub-terms of a wildcard term: matched as whole words -/
def wildRest (t : List Ch) : List (List Ch) :=
  match wildFirst K t with
  | some _ => words K (t.dropWhile K.isWord)
  | none => words K t

/-- sub-terms looked up as whole words -/
def exactTerms (q : Query Ch) : List (List Ch) :=
  q.incl.flatMap (words K) ++ q.wild.flatMap (wildRest K)

/-- sub-terms looked up as suffixes -/
def suffixTerms (q : Query Ch) : List (List Ch) := q.wild.filterMap (wildFirst K)

/-- `[map_term for map_term in self._term_map.keys() if map_term.endswith(subterm)]` -/
def matchingKeys (tm : List I) (s : List Ch) : List (List Ch) :=
  (keys K qp tm).filter (fun w => s.isSuffixOf w)

/-- First round using the term map. Every early `return [], []` of the code gives `[]` here.
(A query none of whose terms has a word character cannot come out of `parse`; on such a
hand-made `SearchQuery` the code raises, the model's `[]` is outside its domain.) -/
def prefilter (tm : List I) (q : Query Ch) : List I :=
  let ex := exactTerms K q
  let sf := suffixTerms K q
  if ex.any (fun w => !(keys K qp tm).contains w) || sf.any (fun s => (matchingKeys K qp tm s).isEmpty) then []
  else
    match ex.map (lookup K qp tm) ++ sf.map (fun s => unionLookup K qp tm (matchingKeys K qp tm s)) with
    | [] => []
    | s :: ss => s.filter (fun it => ss.all (fun x => x.contains it))

/-- The loop at manager.py:723-743: regex, then the extra per-item filter (excluded phrases, C08),
then the cap test. -/
def keepLoop (re extra : I → Bool) (cap : Nat) : List I → List I → List I
  | [], acc => acc
  | it :: rest, acc =>
    if re it then
      let acc' := if extra it then acc ++ [it] else acc
      if acc'.length ≥ cap then acc' else keepLoop re extra cap rest acc'
    else keepLoop re extra cap rest acc

/-- `SharesManager.query` up to (not including) the visible/locked split. `cap` is
`settings.searches.receive.max_results`; `extra` is the excluded-phrase stage. -/
def query (cap : Nat) (extra : I → Bool) (tm : List I) (q : Query Ch) : List I :=
  if !q.hasInclusion then []
  else keepLoop (fun it => matchesRegex K q (qp it)) extra cap (prefilter K qp tm q) []

end
end AioslskVerif.Query
