/-!
# Model of the connection life cycle and the peer-connection registry (C10, and C11's connect-back)

Transcribes, for the code **with** `fixes/C10-accept-connected-first.patch`,
`fixes/C10-connect-cancel-or-closed.patch` and `fixes/C11-attempt-cleanup.patch` applied:

* `Connection.set_state` (network/connection.py:105-108) — every state change is reported;
* `ListeningConnection.accept` (173-189: CONNECTED is reported, then `on_peer_accepted` runs);
* `DataConnection.connect` (219-262) / `disconnect` (264-298: early return when CLOSING/CLOSED, CLOSING,
  close the writer, wait, `finally` CLOSED);
* `_read` / `_send` error arms (342-384, 467-486), `send_message` (488-521) and `queue_message` (452-459: a
  task that runs `send_message`, listed in `_queued_messages` until it is done; `disconnect` cancels the
  listed tasks right after it reported CLOSING, 277 / 581-583);
* `_message_reader_loop` (312-340);
* the registry sites of network/network.py: append on creation (`_make_direct_connection`,
  `_handle_connect_to_peer`, `on_peer_accepted`), removal on CLOSED (`_on_peer_connection_state_changed`);
* `_make_direct_connection`, `_handle_connect_to_peer` (connect, send the init message, finalise; on a
  `NetworkError` the connect-back path reports `CannotConnect` to the server) and `on_peer_accepted`.

Granularity: asyncio is cooperative, so the code between two *real* suspension points runs atomically.
The real suspension points of the anchored code are: `open_connection`, `drain`, `wait_closed`, the
stream reads, and the `async_timeout` timers around them.  One `COp` is one completion of such a
suspension (or one API call) and `stepK` runs the woken code up to the next quiescent point.  The control
state `K` of a connection is finite; what is appended to the event list is a function of `K` and the op.
-/
namespace AioslskVerif.Conn

inductive CState | uninit | connecting | connected | closing | closed
  deriving DecidableEq, Repr

def CState.rank : CState → Nat
  | .uninit => 0 | .connecting => 1 | .connected => 2 | .closing => 3 | .closed => 4

inductive Reason | unknown | connectFailed | requested | readError | writeError | timeout | eof
  deriving DecidableEq, Repr

/-- which code path created the connection object -/
inductive Origin
  | direct      -- `_make_direct_connection` (we connect, send PeerInit)
  | back        -- `_handle_connect_to_peer` (we connect back, send PeerPierceFirewall)
  | incoming    -- `ListeningConnection.accept` + `on_peer_accepted`
  | server      -- the `ServerConnection`
  deriving DecidableEq, Repr

/-- where the task that owns the connection set-up (connect attempt / accept handler) is parked -/
inductive Att
  | opening       -- in `asyncio.open_connection`
  | sendingInit   -- in `drain()` of the init message (PeerInit / PeerPierceFirewall)
  | awaitInit     -- accept handler reading the init message
  | closing       -- in `wait_closed()` of a `disconnect` the attempt itself started
  | idle          -- finished (returned, raised or was cancelled)
  deriving DecidableEq, Repr

/-- the task parked in `wait_closed()` between CLOSING and CLOSED, by what it does afterwards -/
inductive Closer
  | none
  | other         -- reader loop, accept handler, or a caller of `disconnect()`: nothing observable follows
  | attempt       -- the connect attempt: raises (a `NetworkError`) afterwards
  | attemptC      -- the cancelled direct attempt (`except CancelledError: disconnect; raise`)
  | sender        -- a caller of `send_message`: gets `ConnectionWriteError` afterwards
  deriving DecidableEq, Repr

inductive AttRes | ok | fail | cancelled
  deriving DecidableEq, Repr

/-- how a `queue_message` task ended: `send_message` returned / raised ConnectionWriteError / the task was
cancelled by `_cancel_queued_messages` -/
inductive QRes | ret | err | cancelled
  deriving DecidableEq, Repr

inductive Ev
  | st (s : CState) (r : Reason)   -- ConnectionStateChangedEvent
  | delivered                      -- MessageReceivedEvent carrying this connection
  | init (requested : Bool)        -- PeerInitializedEvent
  | wrote                          -- bytes of a `send_message` reached the socket
  | cc                             -- `CannotConnect` for this connection's ticket written to the server
  | attRes (r : AttRes)            -- how the attempt task ended
  | sendRes (returned : Bool)      -- a `send_message` call returned (true) / raised ConnectionWriteError
  | queueRes (r : QRes)            -- a `queue_message` task ended
  deriving DecidableEq, Repr

structure K where
  origin : Origin
  typF : Bool           -- connection type 'F' (no reader loop after initialisation)
  slow : Bool           -- configuration: `wait_closed()` of this socket suspends
  st : CState           -- `Connection.state`
  att : Att
  reader : Bool         -- `_message_reader_loop` running (parked in a read)
  sock : Bool           -- `_writer` present and the socket not closed
  closer : Closer
  sendParked : Bool     -- a `send_message` parked in `drain()`
  qParked : Bool        -- a `queue_message` task parked in `drain()` (pending output, listed in `_queued_messages`)
  registered : Bool     -- member of `Network.peer_connections`
  deriving DecidableEq, Repr

inductive SendMode | ok | block | fail
  deriving DecidableEq, Repr

inductive First | initP | initF | pierceP | pierceF | pierceUnknown | undecodable
  deriving DecidableEq, Repr

inductive COp
  | connectOk (m : SendMode)     -- open_connection returns; `m`: what the write/drain of the init message does
  | connectFail                  -- open_connection raises (refused)
  | connectTimeout               -- the connect timer fires
  | cancelAttempt                -- CancelledError delivered to the attempt task where it is parked
  | firstFrame (f : First)       -- accepted connection: the first frame arrives
  | frame (good : Bool)          -- established: a frame arrives (decodable or not)
  | partialEof                   -- a partial frame, then EOF
  | eof | reset | readTimeout
  | disconnect (r : Reason)      -- somebody calls `connection.disconnect(r)`
  | closeDone                    -- `wait_closed()` returns (or its 5 s timer fires)
  | send (m : SendMode)          -- somebody calls `send_message`
  | drainOk                      -- parked `drain()` calls return
  | sendTimeout (ofAttempt : Bool)
  | queue (m : SendMode)         -- somebody calls `queue_message`; the task runs up to its first suspension
  | queueTimeout                 -- the 10 s send timer of the parked `queue_message` task fires
  | restart                      -- `connect()` is called again (server connection only)
  deriving DecidableEq, Repr

/-- the attempt task ends; a failed connect-back reports CannotConnect (network.py `_handle_connect_to_peer`) -/
def attemptOver (k : K) (r : AttRes) : K × List Ev :=
  ({ k with att := .idle },
   [.attRes r] ++ (if k.origin = .back ∧ r = .fail then [.cc] else []))

/-- `_finalize_peer_connection` + PeerInitializedEvent, attempt returns -/
def finalizeOut (k : K) : K × List Ev :=
  ({ k with att := .idle, reader := !k.typF }, [.init (k.origin = .direct), .attRes .ok])

/-- our side of the socket went away: every task parked on it wakes up and finds the connection
closing (their own `disconnect` returns early) -/
def wake (k : K) : K × List Ev :=
  let k := { k with reader := false, att := if k.att = .awaitInit then .idle else k.att }
  let (k, e1) := if k.att = .sendingInit then attemptOver k .fail else (k, [])
  let (k, e2) := if k.sendParked then ({ k with sendParked := false }, [Ev.sendRes false]) else (k, [])
  -- `_cancel_queued_messages` (connection.py:277): the parked queue task is cancelled
  let (k, e3) := if k.qParked then ({ k with qParked := false }, [Ev.queueRes .cancelled]) else (k, [])
  (k, e1 ++ e2 ++ e3)

/-- what the task that ran `disconnect` does once CLOSED has been reported -/
def cont (k : K) : Closer → K × List Ev
  | .none | .other => (k, [])
  | .attempt => attemptOver k .fail
  | .attemptC => attemptOver k .cancelled
  | .sender => (k, [.sendRes false])

/-- `disconnect(r)` on a CONNECTED connection, run by task `who` (connection.py:264-298) -/
def beginClose (k : K) (r : Reason) (who : Closer) : K × List Ev :=
  let (k, ew) := wake { k with st := .closing, sock := false }
  if k.slow then
    ({ k with closer := who, att := if who = .attempt ∨ who = .attemptC then .closing else k.att },
     [.st .closing r] ++ ew)
  else
    let (k, ec) := cont { k with st := .closed, registered := false } who
    (k, [.st .closing r, .st .closed r] ++ ew ++ ec)

/-- `disconnect(r)` run by the `queue_message` task itself (`_send` error arms, connection.py:478-484): after
CLOSING `_cancel_queued_messages` cancels the very task that is running `disconnect`.  When `wait_closed()`
does not suspend the task never sees the cancellation: CLOSED, then `ConnectionWriteError`.  When it does
suspend, the pending cancellation is delivered there at once and the `finally` arm reports CLOSED without
waiting for the transport (the task ends cancelled).  (`k.qParked` here is ANOTHER queued send that is parked: it
is cancelled like every listed task; the callers clear the flag when the parked task itself is the one closing.) -/
def beginCloseQ (k : K) (r : Reason) : K × List Ev :=
  let (k, ew) := wake { k with st := .closing, sock := false }
  ({ k with st := .closed, registered := false },
   [.st .closing r] ++ ew ++ [.st .closed r, .queueRes (if k.slow then .cancelled else .err)])

/-- `disconnect(r)` on a CONNECTING connection: there is no writer, nothing to wait for -/
def closeConnecting (k : K) (r : Reason) : K × List Ev :=
  if k.st = .connecting then
    ({ k with st := .closed, registered := false }, [.st .closing r, .st .closed r])
  else (k, [])

def andThen (a : K × List Ev) (f : K → K × List Ev) : K × List Ev :=
  let (k, e) := f a.1
  (k, a.2 ++ e)

def stepK (k : K) : COp → Option (K × List Ev)
  | .connectOk m =>
    if k.att ≠ .opening then none
    else if k.st ≠ .connecting then
      -- `disconnect` ran while the socket was being opened: drop the new socket, raise (connection.py:251-258)
      some (attemptOver k .fail)
    else
      let k := { k with st := .connected, sock := true }
      let e := [Ev.st .connected .unknown]
      match k.origin with
      | .incoming => none
      | .server => some ({ k with att := .idle, reader := true }, e ++ [.attRes .ok])
      | _ =>
        match m with
        | .ok => some (andThen (k, e ++ [.wrote]) finalizeOut)
        | .block => some ({ k with att := .sendingInit }, e ++ [.wrote])
        | .fail => some (andThen ({ k with att := .idle }, e) (beginClose · .writeError .attempt))
  | .connectFail | .connectTimeout =>
    if k.att ≠ .opening then none
    else some (andThen (closeConnecting k .connectFailed) (attemptOver · .fail))
  | .cancelAttempt =>
    if k.origin = .incoming then none
    else match k.att with
      | .opening => some (andThen (closeConnecting k .connectFailed) (attemptOver · .cancelled))
      | .sendingInit =>
        if k.origin = .direct then
          some (beginClose { k with att := .idle } .requested .attemptC)
        else some (attemptOver k .cancelled)
      | .closing =>
        some (attemptOver { k with st := .closed, registered := false, closer := .none } .cancelled
          |> fun (k', e) => (k', [Ev.st .closed .unknown] ++ e))
      | _ => none
  | .firstFrame f =>
    if k.att ≠ .awaitInit then none
    else match f with
      | .initP => some ({ k with typF := false, att := .idle, reader := true }, [.init false])
      | .initF => some ({ k with typF := true, att := .idle, reader := false }, [.init false])
      | .pierceP => some ({ k with typF := false, att := .idle, reader := true }, [.init true])
      | .pierceF => some ({ k with typF := true, att := .idle, reader := false }, [.init true])
      | .pierceUnknown => some (beginClose { k with att := .idle } .requested .other)
      | .undecodable => some (beginClose { k with att := .idle } .readError .other)
  | .frame good =>
    if k.reader ∧ k.sock then some (k, if good then [.delivered] else []) else none
  | .partialEof =>
    if (k.reader ∨ k.att = .awaitInit) ∧ k.sock then some (beginClose k .readError .other) else none
  | .eof =>
    if (k.reader ∨ k.att = .awaitInit) ∧ k.sock then some (beginClose k .eof .other) else none
  | .readTimeout =>
    if (k.reader ∨ k.att = .awaitInit) ∧ k.sock then some (beginClose k .timeout .other) else none
  | .reset =>
    if ¬ k.sock then none
    else if k.reader ∨ k.att = .awaitInit then some (beginClose k .readError .other)
    else if k.att = .sendingInit then some (beginClose { k with att := .idle } .writeError .attempt)
    else if k.sendParked ∧ k.qParked then none     -- which drain waiter wakes first is not part of the control state
    else if k.sendParked then some (beginClose { k with sendParked := false } .writeError .sender)
    else if k.qParked then some (beginCloseQ { k with qParked := false } .writeError)
    else none
  | .disconnect r =>
    match k.st with
    | .connecting => some (closeConnecting k r)
    | .connected => some (beginClose k r .other)
    | .closing | .closed => some (k, [])
    | .uninit => none
  | .closeDone =>
    if k.closer = .none then none
    else
      let (k', e) := cont { k with st := .closed, registered := false, closer := .none } k.closer
      some (k', [Ev.st .closed .unknown] ++ e)
  | .send m =>
    match k.st with
    | .closing | .closed => some (k, [.sendRes true])          -- "not sending message, connection is closing"
    | .connecting => some (k, [.sendRes false])                -- no writer: ConnectionWriteError, no disconnect
    | .uninit => none
    | .connected =>
      match m with
      | .ok => some (k, [.wrote, .sendRes true])
      | .block => if k.sendParked then none else some ({ k with sendParked := true }, [.wrote])
      | .fail => some (beginClose k .writeError .sender)
  | .drainOk =>
    if ¬ (k.sendParked ∨ k.qParked ∨ k.att = .sendingInit) then none
    else
      let a := if k.att = .sendingInit then finalizeOut k else (k, [])
      let a := andThen a fun k => if k.sendParked then ({ k with sendParked := false }, [.sendRes true]) else (k, [])
      some (andThen a fun k => if k.qParked then ({ k with qParked := false }, [.queueRes .ret]) else (k, []))
  | .sendTimeout ofAttempt =>
    if ofAttempt then
      if k.att = .sendingInit then some (beginClose { k with att := .idle } .timeout .attempt) else none
    else
      if k.sendParked then some (beginClose { k with sendParked := false } .timeout .sender) else none
  | .queue m =>
    match k.st with
    | .closing | .closed => some (k, [.queueRes .ret])         -- "not sending message, connection is closing"
    | .connecting => some (k, [.queueRes .err])                -- no writer: ConnectionWriteError, no disconnect
    | .uninit => none
    | .connected =>
      match m with
      | .ok => some (k, [.wrote, .queueRes .ret])
      | .block => if k.qParked then none else some ({ k with qParked := true }, [.wrote])
      | .fail => some (beginCloseQ k .writeError)
  | .queueTimeout =>
    if k.qParked then some (beginCloseQ { k with qParked := false } .timeout) else none
  | .restart =>
    if k.origin = .server ∧ k.st = .closed ∧ k.att = .idle ∧ k.closer = .none then
      some ({ k with st := .connecting, att := .opening }, [.st .connecting .unknown])
    else none

/-- a new connection object and what happens up to its first suspension -/
def newK (o : Origin) (typF slow : Bool) : K × List Ev :=
  match o with
  | .incoming =>
    -- accept: CONNECTED is reported, `on_peer_accepted` registers it and waits for the init message
    ({ origin := o, typF := typF, slow := slow, st := .connected, att := .awaitInit, reader := false, sock := true,
       closer := .none, sendParked := false, qParked := false, registered := true }, [.st .connected .unknown])
  | _ =>
    -- created, registered (peers), `connect()` reports CONNECTING and parks in open_connection
    ({ origin := o, typF := typF, slow := slow, st := .connecting, att := .opening, reader := false, sock := false,
       closer := .none, sendParked := false, qParked := false, registered := o ≠ .server }, [.st .connecting .unknown])

structure Conn where
  k : K
  evs : List Ev
  deriving Repr

structure Net where
  conns : List Conn := []
  deriving Repr

inductive Op
  | new (o : Origin) (typF slow : Bool)
  | at (i : Nat) (op : COp)
  deriving Repr

def Net.step (n : Net) : Op → Net
  | .new o t s => let (k, e) := newK o t s; { conns := n.conns ++ [{ k := k, evs := e }] }
  | .at i op =>
    match n.conns[i]? with
    | none => n
    | some c =>
      match stepK c.k op with
      | none => n           -- the op is not enabled in this state: nothing happens
      | some (k', out) => { conns := n.conns.set i { k := k', evs := c.evs ++ out } }

def run (ops : List Op) : Net := ops.foldl Net.step {}

/-- reported states, in order -/
def states : List Ev → List CState
  | [] => []
  | .st s _ :: es => s :: states es
  | _ :: es => states es

/-- the registry of the model: indices of registered connections -/
def Net.registry (n : Net) : List Nat :=
  (List.range n.conns.length).filter fun i => match n.conns[i]? with | some c => c.k.registered | none => false

/-- the connection's transport is not yet fully closed, or a still-running attempt is opening it -/
def K.live (k : K) : Bool := k.sock || k.closer != .none || k.att == .opening

end AioslskVerif.Conn
