/-!
# Model of the connection life cycle and the peer-connection registry (C10, and C11's connect-back)

Transcribes, for the code **with** `fixes/C10-accept-connected-first.patch`,
`fixes/C10-connect-cancel-or-closed.patch`, `fixes/C11-attempt-cleanup.patch`,
`fixes/C16-disconnect-releases-stream-first.patch`, `fixes/C16-closing-cancellation-arrives-before-closed.patch`,
`fixes/C10-accepted-registered-when-reported.patch` and `fixes/C10-connecting-notification-cancel.patch` applied:

* `Connection.set_state` (network/connection.py) — every state change is reported: `Network.on_state_changed` runs the
  network's own bookkeeping (registry) and then **awaits every listener** of `ConnectionStateChangedEvent`;
* `ListeningConnection.accept` (CONNECTED is reported — which registers the connection —, then `on_peer_accepted` runs);
* `DataConnection.connect` / `disconnect` (early return when CLOSING/CLOSED, CLOSING, cancel the queued sends, close
  the writer — or yield once when the transport is already gone —, wait, release the streams, `finally` CLOSED);
* `_read` / `_send` error arms, `send_message`, `queue_message` (a task that runs `send_message`, listed in
  `_queued_messages` until it is done; `disconnect` cancels the listed tasks right after it reported CLOSING),
  the raw data paths of file connections `send_data` (no `_is_closing` guard) / `receive_data`;
* `_message_reader_loop`;
* the registry sites of network/network.py: append on creation (`_make_direct_connection`,
  `_handle_connect_to_peer`), append when an accepted connection is reported CONNECTED, removal when CLOSED is
  reported (`_on_peer_connection_state_changed`);
* `_make_direct_connection`, `_handle_connect_to_peer` (connect, send the init message, finalise; on a
  `NetworkError` the connect-back path reports `CannotConnect` to the server) and `on_peer_accepted`.

Granularity: asyncio is cooperative, so the code between two suspension points runs atomically.  The suspension
points of the anchored code are: `open_connection`, `drain`, `wait_closed`, the stream reads, the `async_timeout`
timers around them — and **every state notification**, because a listener may suspend.  One `FOp` is one completion
of such a suspension (or one API call); `stepF` runs the woken code up to the next suspension point.  A state
notification is therefore a stopping point of its own: the task that made it stands in `att = noteConnecting /
noteConnected` (the connect attempt / the accept handler) or in `cph = noteClosing / noteClosed` (the task that runs
`disconnect` past its guard) until `noteA` / `noteC` says its listeners are done; `parkA` / `parkC` says that a
listener has suspended (the loop goes on with whatever else is ready).  Everything else may be delivered in between.
`stepK` / `Op.at` is the special case "no listener suspends": the op, then every outstanding notification passes.
The control state `K` of a connection is finite; what is appended to the event list is a function of `K` and the op.
-/
namespace AioslskVerif.Conn

inductive CState | uninit | connecting | connected | closing | closed
  deriving DecidableEq, Repr

def CState.rank : CState → Nat
  | .uninit => 0 | .connecting => 1 | .connected => 2 | .closing => 3 | .closed => 4

inductive Reason | unknown | connectFailed | requested | readError | writeError | timeout | eof
  deriving DecidableEq, Repr

/-- which code path created the connection object -/
inductive Origin
  | direct      -- `_make_direct_connection` (we connect, send PeerInit)
  | back        -- `_handle_connect_to_peer` (we connect back, send PeerPierceFirewall)
  | incoming    -- `ListeningConnection.accept` + `on_peer_accepted`
  | server      -- the `ServerConnection`
  deriving DecidableEq, Repr

/-- where the task that owns the connection set-up (connect attempt / accept handler) stands -/
inductive Att
  | noteConnecting -- in `connect()`: the listeners of its CONNECTING notification are running
  | opening        -- in `asyncio.open_connection`
  | noteConnected  -- in `connect()` / `accept()`: the listeners of its CONNECTED notification are running
  | sendingInit    -- in `drain()` of the init message (PeerInit / PeerPierceFirewall)
  | awaitInit      -- accept handler reading the init message
  | closing        -- runs a `disconnect` it started itself (see `closer`, `cph`)
  | idle           -- finished (returned, raised or was cancelled)
  | idleQuiet      -- returned normally, but its init message was never written: the connection was closing by
                   -- the time the CONNECTED listeners were done (`send_message` returns silently then)
  deriving DecidableEq, Repr

/-- the attempt / accept handler is over -/
def Att.over (a : Att) : Bool := a == .idle || a == .idleQuiet

/-- the task that runs `disconnect` past its guard, by what it does once CLOSED has been reported -/
inductive Closer
  | none
  | other         -- reader loop / raw read, accept handler, or a caller of `disconnect()`: nothing observable follows
  | attempt       -- the connect attempt: raises (a `NetworkError`) afterwards
  | attemptC      -- the cancelled attempt (re-raises `CancelledError`)
  | sender        -- a caller of `send_message` / `send_data`: gets `ConnectionWriteError` afterwards
  | queue         -- a `queue_message` task: `_cancel_queued_messages` cancels it (itself) once CLOSING has been
                  -- reported; the cancellation is pending until the task really suspends
  | queueC        -- … the cancellation has been delivered: the task ends cancelled
  deriving DecidableEq, Repr

/-- where that task stands -/
inductive CPhase
  | noteClosing   -- the listeners of its CLOSING notification are running; the writer has not been touched yet
  | noteClosingNW -- the same for a connection without a writer (it was still CONNECTING)
  | waiting       -- in `wait_closed()`
  | noteClosed    -- the listeners of its CLOSED notification are running (also the value when nobody is closing)
  deriving DecidableEq, Repr

inductive AttRes | ok | fail | cancelled
  deriving DecidableEq, Repr

/-- how a `queue_message` task ended: `send_message` returned / raised ConnectionWriteError / the task was
cancelled by `_cancel_queued_messages` -/
inductive QRes | ret | err | cancelled
  deriving DecidableEq, Repr

inductive Ev
  | st (s : CState) (r : Reason)   -- ConnectionStateChangedEvent
  | delivered                      -- MessageReceivedEvent carrying this connection
  | init (requested : Bool)        -- PeerInitializedEvent
  | wrote                          -- bytes of a `send_message` reached the socket
  | wroteRaw                       -- bytes of a `send_data` (file connection) reached the socket
  | recvData                       -- a `receive_data` call returned bytes of the connection
  | cc                             -- `CannotConnect` for this connection's ticket written to the server
  | attRes (r : AttRes)            -- how the attempt task ended
  | sendRes (returned : Bool)      -- a `send_message` / `send_data` call returned (true) / raised ConnectionWriteError
  | queueRes (r : QRes)            -- a `queue_message` task ended
  deriving DecidableEq, Repr

structure K where
  origin : Origin
  typF : Bool           -- connection type 'F' (no reader loop after initialisation; the raw data calls are used)
  slow : Bool           -- configuration: `wait_closed()` of this socket suspends
  st : CState           -- `Connection.state`
  att : Att
  reader : Bool         -- `_message_reader_loop` (type F: a `receive_data` call) parked in a stream read
  sock : Bool           -- `_writer` present and our side of the socket not closed / not lost
  closer : Closer
  cph : CPhase          -- meaningful while `closer ≠ none`
  cr : Reason           -- the reason that `disconnect` was called with (reported again with CLOSED)
  sendParked : Bool     -- a `send_message` / `send_data` parked in `drain()`
  qParked : Bool        -- a `queue_message` task parked in `drain()` (pending output, listed in `_queued_messages`);
                        -- with `sock = false`: woken by the loss of the transport, has not run yet
  registered : Bool     -- member of `Network.peer_connections`
  deriving DecidableEq, Repr

inductive SendMode | ok | block | fail
  deriving DecidableEq, Repr

inductive First | initP | initF | pierceP | pierceF | pierceUnknown | undecodable
  deriving DecidableEq, Repr

inductive COp
  | connectOk (m : SendMode)     -- open_connection returns (`m`, for `stepK` only: what the write/drain of the init
                                 -- message does once the CONNECTED listeners are done)
  | connectFail                  -- open_connection raises (refused)
  | connectTimeout               -- the connect timer fires
  | cancelAttempt                -- CancelledError delivered to the attempt task where it is parked
  | firstFrame (f : First)       -- accepted connection: the first frame arrives
  | frame (good : Bool)          -- established: a frame arrives (decodable or not)
  | partialEof                   -- a partial frame, then EOF
  | eof | reset | readTimeout
  | disconnect (r : Reason)      -- somebody calls `connection.disconnect(r)`
  | closeDone                    -- `wait_closed()` returns (or its 5 s timer fires)
  | send (m : SendMode)          -- somebody calls `send_message`
  | drainOk                      -- parked `drain()` calls return
  | sendTimeout (ofAttempt : Bool)
  | queue (m : SendMode)         -- somebody calls `queue_message`; the task runs up to its first suspension
  | queueTimeout                 -- the 10 s send timer of the parked `queue_message` task fires
  | restart                      -- `connect()` is called again (server connection only)
  | sendData (m : SendMode)      -- file connection: somebody calls `send_data`
  | recvData                     -- file connection: somebody calls `receive_data`
  | data                         -- file connection: raw bytes arrive
  deriving DecidableEq, Repr

/-- one step of the fine-grained model -/
inductive FOp
  | op (o : COp)
  | noteA (m : SendMode)   -- the listeners of the attempt's outstanding notification are done (`m`: what the write of
                           -- the init message does, when that is what follows)
  | noteC                  -- the listeners of the closing task's outstanding notification are done
  | parkA                  -- a listener of the attempt's outstanding notification suspends
  | parkC                  -- a listener of the closing task's outstanding notification suspends
  deriving DecidableEq, Repr

/-- the attempt task ends; a failed connect-back reports CannotConnect (network.py `_handle_connect_to_peer`) -/
def attemptOver (k : K) (r : AttRes) : K × List Ev :=
  ({ k with att := .idle },
   [.attRes r] ++ (if k.origin = .back ∧ r = .fail then [.cc] else []))

/-- `_finalize_peer_connection` (the reader loop of a P connection starts; it ends at once when the connection is
closing) + PeerInitializedEvent, attempt returns -/
def finalizeOut (k : K) : K × List Ev :=
  ({ k with att := .idle, reader := !k.typF && k.st == .connected }, [.init (k.origin = .direct), .attRes .ok])

/-- the same when `send_message` skipped the init message because the connection was closing -/
def finalizeQuiet (k : K) : K × List Ev :=
  ({ k with att := .idleQuiet, reader := false }, [.init (k.origin = .direct), .attRes .ok])

/-- the transport went away under the tasks parked on it (peer reset, failed write): all of them wake, find the
connection closing and give up — except a parked queued send, which has not run yet when `disconnect` cancels it -/
def wakeGone (k : K) : K × List Ev :=
  let k := { k with reader := false, att := if k.att = .awaitInit then .idle else k.att }
  let (k, e1) := if k.att = .sendingInit then attemptOver k .fail else (k, [])
  let (k, e2) := if k.sendParked then ({ k with sendParked := false }, [Ev.sendRes false]) else (k, [])
  (k, e1 ++ e2)

/-- `_cancel_queued_messages` and `writer.close()` (or the single yield when the transport is gone already): a
parked queued send is cancelled, every other task parked on the socket wakes up and finds the connection closing
(their own `disconnect` returns early) -/
def wake (k : K) : K × List Ev :=
  let (k, e) := wakeGone k
  let (k, e3) := if k.qParked then ({ k with qParked := false }, [Ev.queueRes .cancelled]) else (k, [])
  (k, e ++ e3)

/-- the transport goes away while the CLOSING notification of somebody's `disconnect` is outstanding: every parked
task runs now; the queued sends have not been cancelled yet, a parked one gets `ConnectionWriteError` -/
def wakeAll (k : K) : K × List Ev :=
  let (k, e) := wakeGone k
  let (k, e3) := if k.qParked then ({ k with qParked := false }, [Ev.queueRes .err]) else (k, [])
  (k, e ++ e3)

/-- what the task that called `disconnect` does once that call has returned -/
def cont (k : K) : Closer → K × List Ev
  | .none | .other => (k, [])
  | .attempt => attemptOver k .fail
  | .attemptC => attemptOver k .cancelled
  | .sender => (k, [.sendRes false])
  | .queue => (k, [.queueRes .err])
  | .queueC => (k, [.queueRes .cancelled])

def andThen (a : K × List Ev) (f : K → K × List Ev) : K × List Ev :=
  let (k, e) := f a.1
  (k, a.2 ++ e)

/-- task `who` calls `disconnect(r)`: the guard, else CLOSING is reported — and its listeners run -/
def startClose (k : K) (r : Reason) (who : Closer) : K × List Ev :=
  match k.st with
  | .closing | .closed => cont k who
  | .uninit => (k, [])
  | .connecting =>
    ({ k with st := .closing, closer := who, cph := .noteClosingNW, cr := r,
              att := if who = .attempt ∨ who = .attemptC then .closing else k.att }, [.st .closing r])
  | .connected =>
    ({ k with st := .closing, closer := who, cph := .noteClosing, cr := r,
              att := if who = .attempt ∨ who = .attemptC then .closing else k.att }, [.st .closing r])

/-- the same when the transport has just gone away (a write of `who` failed / the peer reset the connection and
`who` is the first task to notice) -/
def closeGone (k : K) (r : Reason) (who : Closer) : K × List Ev :=
  let (k1, ew) := wakeGone { k with sock := false }
  let (k2, ec) := startClose k1 r who
  (k2, ec ++ ew)

/-- the streams are released, CLOSED is reported (the registry entry goes before the listeners run) -/
def reportClosed (k : K) : K × List Ev :=
  ({ k with st := .closed, registered := false, cph := .noteClosed, sock := false }, [.st .closed k.cr])

/-- the closing task goes on after a notification -/
def noteC (k : K) : Option (K × List Ev) :=
  if k.closer = .none then none
  else match k.cph with
    | .noteClosingNW => some (reportClosed k)
    | .noteClosing =>
      let gone := !k.sock
      let (k1, ew) := wake { k with sock := false }
      if k1.closer = .queue then
        -- the queued task cancelled itself: delivered where it suspends next — the yield (transport gone) or
        -- `wait_closed()` (when that suspends); the `finally` arm reports CLOSED at once
        if gone ∨ k1.slow then some (andThen ({ k1 with closer := .queueC }, ew) reportClosed)
        else some (andThen (k1, ew) reportClosed)
      else if k1.slow then some ({ k1 with cph := .waiting }, ew)
      else some (andThen (k1, ew) reportClosed)
    | .waiting => none
    | .noteClosed => some (cont { k with closer := .none, cr := .unknown } k.closer)

/-- a listener of the closing task's outstanding notification suspends -/
def parkC (k : K) : Option (K × List Ev) :=
  if k.closer = .none then none
  else match k.cph with
    | .waiting => none
    | .noteClosing =>
      -- whoever was woken by the loss of the transport runs now
      if !k.sock && k.qParked then some ({ k with qParked := false }, [.queueRes .err]) else some (k, [])
    | .noteClosingNW => some (k, [])
    | .noteClosed =>
      -- a pending self-cancellation arrives inside the listener
      if k.closer = .queue then some ({ k with closer := .none, cr := .unknown }, [.queueRes .cancelled])
      else some (k, [])

/-- the attempt / accept handler goes on after a notification -/
def noteA (k : K) (m : SendMode) : Option (K × List Ev) :=
  match k.att with
  | .noteConnecting => some ({ k with att := .opening }, [])
  | .noteConnected =>
    match k.origin with
    | .incoming => some ({ k with att := if k.sock then .awaitInit else .idle }, [])   -- `on_peer_accepted` reads
    | .server => some ({ k with att := .idle, reader := k.st == .connected }, [.attRes .ok])
    | _ =>
      if k.st = .connected then
        match m with
        | .ok => some (andThen (k, [.wrote]) finalizeOut)
        | .block => some ({ k with att := .sendingInit }, [.wrote])
        | .fail => some (closeGone { k with att := .idle } .writeError .attempt)
      else some (finalizeQuiet k)
  | _ => none

def parkA (k : K) : Option (K × List Ev) :=
  if k.att = .noteConnecting ∨ k.att = .noteConnected then some (k, []) else none

/-- whoever reads (reader loop, raw read, accept handler) has been woken and is no longer parked -/
def unpark (k : K) : K :=
  { k with reader := false, att := if k.att = .awaitInit then .idle else k.att }

def stepOp (k : K) : COp → Option (K × List Ev)
  | .connectOk _ =>
    if k.att ≠ .opening then none
    else if k.st ≠ .connecting then
      -- `disconnect` ran while the socket was being opened: drop the new socket, raise
      some (attemptOver k .fail)
    else if k.origin = .incoming then none
    else some ({ k with st := .connected, sock := true, att := .noteConnected }, [.st .connected .unknown])
  | .connectFail | .connectTimeout =>
    if k.att ≠ .opening then none else some (startClose k .connectFailed .attempt)
  | .cancelAttempt =>
    if k.origin = .incoming then none
    else match k.att with
      | .noteConnecting | .opening => some (startClose k .connectFailed .attemptC)
      | .noteConnected | .sendingInit =>
        if k.origin = .direct then some (startClose { k with att := .idle } .requested .attemptC)
        else some (attemptOver k .cancelled)
      | .closing =>
        match k.cph with
        | .noteClosing | .noteClosingNW => noteC { k with closer := .attemptC }  -- lands in the listener; `finally` goes on
        | .waiting => some (reportClosed { k with closer := .attemptC })
        | .noteClosed => some (cont { k with closer := .none, cr := .unknown } .attemptC)
      | _ => none
  | .firstFrame f =>
    if k.att ≠ .awaitInit then none
    else match f with
      | .initP => some ({ k with typF := false, att := .idle, reader := k.st == .connected }, [.init false])
      | .initF => some ({ k with typF := true, att := .idle, reader := false }, [.init false])
      | .pierceP => some ({ k with typF := false, att := .idle, reader := k.st == .connected }, [.init true])
      | .pierceF => some ({ k with typF := true, att := .idle, reader := false }, [.init true])
      | .pierceUnknown => some (startClose { k with att := .idle } .requested .other)
      | .undecodable => some (startClose { k with att := .idle } .readError .other)
  | .frame good =>
    if k.reader ∧ k.sock ∧ ¬ k.typF then
      if k.st = .connected then some (k, if good then [.delivered] else [])
      else some ({ k with reader := false }, [])     -- closing: the message is skipped, the loop ends
    else none
  | .data =>
    if k.reader ∧ k.sock ∧ k.typF then some ({ k with reader := false }, [.recvData]) else none
  | .partialEof =>
    if (k.reader ∨ k.att = .awaitInit) ∧ k.sock ∧ ¬ k.typF then some (startClose (unpark k) .readError .other) else none
  | .eof =>
    if (k.reader ∨ k.att = .awaitInit) ∧ k.sock then some (startClose (unpark k) .eof .other) else none
  | .readTimeout =>
    if (k.reader ∨ k.att = .awaitInit) ∧ k.sock then some (startClose (unpark k) .timeout .other) else none
  | .reset =>
    if ¬ k.sock then none
    else if k.st ≠ .connected then
      if k.reader ∨ k.att = .awaitInit ∨ k.att = .sendingInit ∨ k.sendParked ∨ k.qParked then
        some (wakeAll { k with sock := false })
      else none
    else if k.reader ∨ k.att = .awaitInit then some (closeGone (unpark k) .readError .other)
    else if k.att = .sendingInit then some (closeGone { k with att := .idle } .writeError .attempt)
    else if k.sendParked ∧ k.qParked then none     -- which drain waiter wakes first is not part of the control state
    else if k.sendParked then some (closeGone { k with sendParked := false } .writeError .sender)
    else if k.qParked then some (closeGone { k with qParked := false } .writeError .queue)
    else none
  | .disconnect r =>
    match k.st with
    | .connecting | .connected => some (startClose k r .other)
    | .closing | .closed => some (k, [])
    | .uninit => none
  | .closeDone =>
    if k.closer ≠ .none ∧ k.cph = .waiting then some (reportClosed k) else none
  | .send m =>
    match k.st with
    | .closing | .closed => some (k, [.sendRes true])          -- "not sending message, connection is closing"
    | .connecting => some (k, [.sendRes false])                -- no writer: ConnectionWriteError, no disconnect
    | .uninit => none
    | .connected =>
      match m with
      | .ok => some (k, [.wrote, .sendRes true])
      | .block => if k.sendParked then none else some ({ k with sendParked := true }, [.wrote])
      | .fail => some (closeGone k .writeError .sender)
  | .sendData m =>
    if ¬ k.typF ∨ k.st = .uninit then none
    else if ¬ k.sock then some (k, [.sendRes false])           -- no writer / writer closed: ConnectionWriteError
    else match m with
      | .ok => some (k, [.wroteRaw, .sendRes true])            -- (no `_is_closing` guard on this path)
      | .block => if k.sendParked then none else some ({ k with sendParked := true }, [.wroteRaw])
      | .fail =>
        if k.st = .connected then some (closeGone k .writeError .sender)
        else some (andThen (wakeAll { k with sock := false }) fun k => (k, [.sendRes false]))
  | .recvData =>
    if ¬ k.typF ∨ ¬ k.att.over ∨ k.st = .uninit ∨ k.reader then none
    else some ({ k with reader := k.sock }, [])
  | .drainOk =>
    if ¬ k.sock ∨ ¬ (k.sendParked ∨ k.qParked ∨ k.att = .sendingInit) then none
    else
      let a := if k.att = .sendingInit then finalizeOut k else (k, [])
      let a := andThen a fun k => if k.sendParked then ({ k with sendParked := false }, [.sendRes true]) else (k, [])
      some (andThen a fun k => if k.qParked then ({ k with qParked := false }, [.queueRes .ret]) else (k, []))
  | .sendTimeout ofAttempt =>
    if ofAttempt then
      if k.att = .sendingInit then some (startClose { k with att := .idle } .timeout .attempt) else none
    else
      if k.sendParked then some (startClose { k with sendParked := false } .timeout .sender) else none
  | .queue m =>
    match k.st with
    | .closing | .closed => some (k, [.queueRes .ret])         -- "not sending message, connection is closing"
    | .connecting => some (k, [.queueRes .err])                -- no writer: ConnectionWriteError, no disconnect
    | .uninit => none
    | .connected =>
      match m with
      | .ok => some (k, [.wrote, .queueRes .ret])
      | .block => if k.qParked then none else some ({ k with qParked := true }, [.wrote])
      | .fail => some (closeGone k .writeError .queue)
  | .queueTimeout =>
    if k.qParked ∧ k.sock then some (startClose { k with qParked := false } .timeout .queue) else none
  | .restart =>
    if k.origin = .server ∧ k.st = .closed ∧ k.att = .idle ∧ k.closer = .none then
      some ({ k with st := .connecting, att := .noteConnecting }, [.st .connecting .unknown])
    else none

def stepF (k : K) : FOp → Option (K × List Ev)
  | .op o => stepOp k o
  | .noteA m => noteA k m
  | .noteC => noteC k
  | .parkA => parkA k
  | .parkC => parkC k

/-- no listener suspends: every outstanding notification passes, one after the other -/
def settle (m : SendMode) : Nat → K × List Ev → K × List Ev
  | 0, r => r
  | n + 1, (k, e) =>
    match noteA k m with
    | some (k', e') => settle m n (k', e ++ e')
    | none =>
      match noteC k with
      | some (k', e') => settle m n (k', e ++ e')
      | none => (k, e)

def modeOf : COp → SendMode
  | .connectOk m => m
  | _ => .ok

/-- one op when no listener suspends (runs up to the next quiescent point) -/
def stepK (k : K) (op : COp) : Option (K × List Ev) :=
  (stepOp k op).map (settle (modeOf op) 8)

/-- a new connection object and what happens up to its first notification -/
def newK (o : Origin) (typF slow : Bool) : K × List Ev :=
  match o with
  | .incoming =>
    -- accept: CONNECTED is reported (which registers the connection); `on_peer_accepted` follows
    ({ origin := o, typF := typF, slow := slow, st := .connected, att := .noteConnected, reader := false, sock := true,
       closer := .none, cph := .noteClosed, cr := .unknown, sendParked := false, qParked := false, registered := true },
     [.st .connected .unknown])
  | _ =>
    -- created, registered (peers), `connect()` reports CONNECTING; `open_connection` follows
    ({ origin := o, typF := typF, slow := slow, st := .connecting, att := .noteConnecting, reader := false, sock := false,
       closer := .none, cph := .noteClosed, cr := .unknown, sendParked := false, qParked := false,
       registered := o ≠ .server }, [.st .connecting .unknown])

structure Conn where
  k : K
  evs : List Ev
  deriving Repr

structure Net where
  conns : List Conn := []
  deriving Repr

inductive Op
  | new (o : Origin) (typF slow : Bool)     -- no listener suspends
  | at (i : Nat) (op : COp)                 -- no listener suspends
  | newF (o : Origin) (typF slow : Bool)    -- fine-grained: stops at the first notification
  | atF (i : Nat) (op : FOp)                -- fine-grained
  deriving Repr

def Net.step (n : Net) : Op → Net
  | .new o t s => let (k, e) := settle .ok 8 (newK o t s); { conns := n.conns ++ [{ k := k, evs := e }] }
  | .newF o t s => let (k, e) := newK o t s; { conns := n.conns ++ [{ k := k, evs := e }] }
  | .at i op =>
    match n.conns[i]? with
    | none => n
    | some c =>
      match stepK c.k op with
      | none => n           -- the op is not enabled in this state: nothing happens
      | some (k', out) => { conns := n.conns.set i { k := k', evs := c.evs ++ out } }
  | .atF i op =>
    match n.conns[i]? with
    | none => n
    | some c =>
      match stepF c.k op with
      | none => n
      | some (k', out) => { conns := n.conns.set i { k := k', evs := c.evs ++ out } }

def run (ops : List Op) : Net := ops.foldl Net.step {}

/-- reported states, in order -/
def states : List Ev → List CState
  | [] => []
  | .st s _ :: es => s :: states es
  | _ :: es => states es

/-- the registry of the model: indices of registered connections -/
def Net.registry (n : Net) : List Nat :=
  (List.range n.conns.length).filter fun i => match n.conns[i]? with | some c => c.k.registered | none => false

/-- the connection's transport is not yet fully closed (a `disconnect` is still at work), or a still-running attempt
is opening it -/
def K.live (k : K) : Bool :=
  k.sock || k.st == .closing || k.att == .opening || k.att == .noteConnecting

end AioslskVerif.Conn
