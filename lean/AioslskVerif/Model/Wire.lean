/-!
# Wire codec model (C01, C02)

Transcription of `aioslsk/protocol/primitives.py` (primitives 86-245, `ProtocolDataclass` 248-375,
`MessageDataclass` 377-445, the hand-optimised `Attribute/FileData/DirectoryData` codecs 448-571 —
they compute the same function as the generic engine) and of the four family dispatchers of
`protocol/messages.py:48-116`.

Schemas are *data* (`MsgSchema`), regenerated from the source by `translate/schemas.py`.
Decoders are prefix parsers `Bytes → Except DErr (Val × Bytes)` mirroring Python's `(pos, data)` style.
-/
namespace AioslskVerif.Wire

abbrev Bytes := List UInt8

inductive Prim | u8 | u16 | u32 | u64 | i32 | bool | str | bytes | ip | ticket
deriving DecidableEq, Repr

/-- Wire types. Nested records carry no guards / optionals (the translator rejects a source tree in
which they do). -/
inductive Ty
  | prim (p : Prim)
  | arr (e : Ty)
  | record (fs : List Ty)
deriving Repr

/-- Values. `absent` is Python's `None`. -/
inductive Val
  | nat (n : Nat)
  | int (i : Int)
  | bool (b : Bool)
  | str (cs : List Char)
  | bytes (bs : Bytes)
  | ip (a b c d : UInt8)
  | arr (vs : List Val)
  | record (vs : List Val)
  | absent
deriving Repr

inductive Cond | always | ifTrue (i : Nat) | ifFalse (i : Nat)
deriving DecidableEq, Repr

inductive Dflt
  | missing            -- dataclass field without default: constructor raises TypeError when not parsed
  | none               -- default None
  | nat (n : Nat)      -- default integer
  | bool (b : Bool)    -- default boolean
deriving DecidableEq, Repr

/-- A top-level field of a message. -/
structure Field where
  ty : Ty
  cond : Cond
  optional : Bool
  dflt : Dflt
deriving Repr

inductive Family | server | peerinit | peer | distributed
deriving DecidableEq, Repr
inductive Dir | request | response
deriving DecidableEq, Repr

structure MsgSchema where
  family : Family
  dir : Dir
  idWidth : Nat          -- 1 (`uint8`) or 4 (`uint32`)
  id : Nat
  compress : Bool        -- default of `serialize(compress=…)`
  decompress : Bool      -- default of `deserialize(decompress=…)`
  fields : List Field
deriving Repr

/-- decoder error classes (Python exception kinds) -/
inductive DErr
  | struct     -- struct.error: not enough bytes
  | strlen     -- Exception("expected string with length …")
  | unicode    -- UnicodeDecodeError (neither utf-8 nor cp1252)
  | idMismatch -- ValueError("message id mismatch")
  | zlib       -- zlib.error
  | unknown    -- UnknownMessageError
  | ctor       -- TypeError / KeyError while building the dataclass
deriving DecidableEq, Repr

/-! ## Little-endian integers (division by literals so that `omega` can reason about them) -/

def byte (n : Nat) : UInt8 := UInt8.ofNat (n % 256)
@[simp] theorem byte_toNat (n : Nat) : (byte n).toNat = n % 256 := by simp [byte]

def le16 (n : Nat) : Bytes := [byte n, byte (n / 256)]
def le32 (n : Nat) : Bytes := [byte n, byte (n / 256), byte (n / 65536), byte (n / 16777216)]
def le64 (n : Nat) : Bytes :=
  [byte n, byte (n / 256), byte (n / 65536), byte (n / 16777216), byte (n / 4294967296),
   byte (n / 1099511627776), byte (n / 281474976710656), byte (n / 72057594037927936)]

def rd8 : Bytes → Except DErr (Nat × Bytes)
  | a :: r => .ok (a.toNat, r)
  | _ => .error .struct
def rd16 : Bytes → Except DErr (Nat × Bytes)
  | a :: b :: r => .ok (a.toNat + 256 * b.toNat, r)
  | _ => .error .struct
def rd32 : Bytes → Except DErr (Nat × Bytes)
  | a :: b :: c :: d :: r => .ok (a.toNat + 256 * b.toNat + 65536 * c.toNat + 16777216 * d.toNat, r)
  | _ => .error .struct
def rd64 : Bytes → Except DErr (Nat × Bytes)
  | a :: b :: c :: d :: e :: f :: g :: h :: r =>
    .ok (a.toNat + 256 * b.toNat + 65536 * c.toNat + 16777216 * d.toNat + 4294967296 * e.toNat
         + 1099511627776 * f.toNat + 281474976710656 * g.toNat + 72057594037927936 * h.toNat, r)
  | _ => .error .struct

/-- two's complement, 32 bit -/
def encI32 (i : Int) : Nat := if i < 0 then (i + 4294967296).toNat else i.toNat
def decI32 (n : Nat) : Int := if n < 2147483648 then (n : Int) else (n : Int) - 4294967296

/-! ## Strings: UTF-8 from core, cp1252 fallback -/

def utf8Enc (cs : List Char) : Bytes := (String.ofList cs).toUTF8.data.toList
def utf8Dec (bs : Bytes) : Option (List Char) := (ByteArray.utf8Decode? ⟨bs.toArray⟩).map (·.toList)

/-- Python's cp1252 decoder for the bytes 0x80–0x9F (0x81 0x8D 0x8F 0x90 0x9D are undefined). -/
def cp1252Hi : List (Option Nat) :=
  [some 0x20AC, none, some 0x201A, some 0x0192, some 0x201E, some 0x2026, some 0x2020, some 0x2021,
   some 0x02C6, some 0x2030, some 0x0160, some 0x2039, some 0x0152, none, some 0x017D, none,
   none, some 0x2018, some 0x2019, some 0x201C, some 0x201D, some 0x2022, some 0x2013, some 0x2014,
   some 0x02DC, some 0x2122, some 0x0161, some 0x203A, some 0x0153, none, some 0x017E, some 0x0178]

def cp1252Char (b : UInt8) : Option Char :=
  if b.toNat < 0x80 ∨ 0xA0 ≤ b.toNat then some (Char.ofNat b.toNat)
  else match cp1252Hi[b.toNat - 0x80]? with
    | some (some n) => some (Char.ofNat n)
    | _ => none

def cp1252Dec : Bytes → Option (List Char)
  | [] => some []
  | b :: r => do let c ← cp1252Char b; let cs ← cp1252Dec r; pure (c :: cs)

/-- `decode_string`: utf-8, else cp1252, else UnicodeDecodeError -/
def decodeString (bs : Bytes) : Except DErr (List Char) :=
  match utf8Dec bs with
  | some cs => .ok cs
  | none => match cp1252Dec bs with
    | some cs => .ok cs
    | none => .error .unicode

/-! ## Encoders (`none` = the Python encoder raises) -/

mutual
def enc : Ty → Val → Option Bytes
  | .prim .u8, .nat n => if n < 256 then some [byte n] else none
  | .prim .u16, .nat n => if n < 65536 then some (le16 n) else none
  | .prim .u32, .nat n => if n < 4294967296 then some (le32 n) else none
  | .prim .ticket, .nat n => if n < 4294967296 then some (le32 n) else none
  | .prim .u64, .nat n => if n < 18446744073709551616 then some (le64 n) else none
  | .prim .i32, .int i => if -2147483648 ≤ i ∧ i < 2147483648 then some (le32 (encI32 i)) else none
  | .prim .bool, .bool b => some [if b then 1 else 0]
  | .prim .str, .str cs =>
    let b := utf8Enc cs
    if b.length < 4294967296 then some (le32 b.length ++ b) else none
  | .prim .bytes, .bytes bs => if bs.length < 4294967296 then some (le32 bs.length ++ bs) else none
  | .prim .ip, .ip a b c d => some [d, c, b, a]
  | .arr e, .arr vs => if vs.length < 4294967296 then (encList e vs).map (le32 vs.length ++ ·) else none
  | .record fs, .record vs => encRec fs vs
  | _, _ => none
def encList : Ty → List Val → Option Bytes
  | _, [] => some []
  | e, v :: vs => do let a ← enc e v; let b ← encList e vs; pure (a ++ b)
def encRec : List Ty → List Val → Option Bytes
  | [], [] => some []
  | f :: fs, v :: vs => do let a ← enc f v; let b ← encRec fs vs; pure (a ++ b)
  | _, _ => none
end

/-! ## Decoders -/

mutual
def dec : Ty → Bytes → Except DErr (Val × Bytes)
  | .prim .u8, bs => do let (n, r) ← rd8 bs; pure (.nat n, r)
  | .prim .u16, bs => do let (n, r) ← rd16 bs; pure (.nat n, r)
  | .prim .u32, bs => do let (n, r) ← rd32 bs; pure (.nat n, r)
  | .prim .u64, bs => do let (n, r) ← rd64 bs; pure (.nat n, r)
  | .prim .ticket, bs =>        -- `_PeerInitTicket`: uint32 iff exactly 4 bytes remain, else uint64
    if bs.length = 4 then do let (n, r) ← rd32 bs; pure (.nat n, r)
    else do let (n, r) ← rd64 bs; pure (.nat n, r)
  | .prim .i32, bs => do let (n, r) ← rd32 bs; pure (.int (decI32 n), r)
  | .prim .bool, bs => do let (n, r) ← rd8 bs; pure (.bool (n != 0), r)
  | .prim .str, bs => do
      let (n, r) ← rd32 bs
      if r.length < n then throw .strlen
      let cs ← decodeString (r.take n)
      pure (.str cs, r.drop n)
  | .prim .bytes, bs => do      -- no length check in `bytearr.deserialize`: a short blob is truncated
      let (n, r) ← rd32 bs
      pure (.bytes (r.take n), r.drop n)
  | .prim .ip, bs =>
      match bs with
      | d :: c :: b :: a :: r => pure (.ip a b c d, r)
      | _ => throw .struct
  | .arr e, bs => do
      let (n, r) ← rd32 bs
      let (vs, r') ← decList e n r
      pure (.arr vs, r')
  | .record fs, bs => do
      let (vs, r) ← decRec fs bs
      pure (.record vs, r)
def decList : Ty → Nat → Bytes → Except DErr (List Val × Bytes)
  | _, 0, bs => pure ([], bs)
  | e, n + 1, bs => do
      let (v, r) ← dec e bs
      let (vs, r') ← decList e n r
      pure (v :: vs, r')
def decRec : List Ty → Bytes → Except DErr (List Val × Bytes)
  | [], bs => pure ([], bs)
  | f :: fs, bs => do
      let (v, r) ← dec f bs
      let (vs, r') ← decRec fs r
      pure (v :: vs, r')
end

/-! ## Static predicates on types (used by well-formedness and by the theorems) -/

mutual
/-- the type does not contain the `_PeerInitTicket` hack (whose parse depends on what follows) -/
def Ty.noTicket : Ty → Bool
  | .prim .ticket => false
  | .prim _ => true
  | .arr e => e.noTicket
  | .record fs => Ty.noTicketL fs
def Ty.noTicketL : List Ty → Bool
  | [] => true
  | f :: fs => f.noTicket && Ty.noTicketL fs
end

mutual
/-- every encoding of a value of this type is non-empty (and every successful parse consumes at least
one byte) -/
def Ty.pos : Ty → Bool
  | .prim _ => true
  | .arr _ => true
  | .record fs => Ty.posL fs
def Ty.posL : List Ty → Bool
  | [] => false
  | f :: fs => f.pos || Ty.posL fs
end

mutual
/-- every array inside the type has an element type of positive size (a lying count then cannot
make the decoder iterate more often than there are bytes) -/
def Ty.arrOk : Ty → Bool
  | .prim _ => true
  | .arr e => e.pos && e.arrOk
  | .record fs => Ty.arrOkL fs
def Ty.arrOkL : List Ty → Bool
  | [] => true
  | f :: fs => f.arrOk && Ty.arrOkL fs
end

/-! ## Top-level fields: guards, trailing optionals, defaults -/

def Val.truthy : Val → Bool
  | .bool b => b
  | .nat n => n != 0
  | .int i => i != 0
  | .str cs => !cs.isEmpty
  | .bytes bs => !bs.isEmpty
  | .arr vs => !vs.isEmpty
  | .absent => false
  | _ => true

def Val.isAbsent : Val → Bool
  | .absent => true
  | _ => false

/-- guard of a field, evaluated on the values of the message object (serialisation side) -/
def guardEnc (c : Cond) (all : List Val) : Bool :=
  match c with
  | .always => true
  | .ifTrue i => (all.getD i .absent).truthy
  | .ifFalse i => !(all.getD i .absent).truthy

/-- `ProtocolDataclass.serialize_into` over the top-level fields. -/
def encTop (all : List Val) : List Field → List Val → Option Bytes
  | [], [] => some []
  | f :: fs, v :: vs =>
    if v.isAbsent || !guardEnc f.cond all then encTop all fs vs
    else do let a ← enc f.ty v; let b ← encTop all fs vs; pure (a ++ b)
  | _, _ => none

def Dflt.toVal : Dflt → Val
  | .missing => .absent
  | .none => .absent
  | .nat n => .nat n
  | .bool b => .bool b

/-- guard on the decoding side: looks at what was parsed so far (`none` = field not parsed →
`KeyError` in `field_map[...]`). -/
def guardDec (c : Cond) (parsed : List (Option Val)) : Except DErr Bool :=
  match c with
  | .always => pure true
  | .ifTrue i => match parsed.getD i none with
    | some v => pure v.truthy
    | none => throw .ctor
  | .ifFalse i => match parsed.getD i none with
    | some v => pure (!v.truthy)
    | none => throw .ctor

/-- `ProtocolDataclass.deserialize` over the top-level fields; `parsed` holds, in field order, what
was parsed so far. -/
def decTop : List Field → List (Option Val) → Bytes → Except DErr (List (Option Val) × Bytes)
  | [], parsed, bs => pure (parsed, bs)
  | f :: fs, parsed, bs => do
      let g ← guardDec f.cond parsed
      if g && (!f.optional || !bs.isEmpty) then
        let (v, r) ← dec f.ty bs
        decTop fs (parsed ++ [some v]) r
      else
        decTop fs (parsed ++ [none]) bs

/-- `cls(**field_map)`: unparsed fields take their default; a missing default is a `TypeError`. -/
def construct : List Field → List (Option Val) → Except DErr (List Val)
  | [], [] => pure []
  | f :: fs, p :: ps => do
      let v ← match p with
        | some v => pure v
        | none => match f.dflt with
          | .missing => throw .ctor
          | d => pure d.toVal
      let vs ← construct fs ps
      pure (v :: vs)
  | _, _ => throw .ctor

/-! ## Frames and dispatch -/

/-- zlib as a parameter (not modelled); the only law used is `inflate (deflate x) = some x`. -/
structure Zlib where
  deflate : Bytes → Bytes
  inflate : Bytes → Option Bytes

def idBytes (s : MsgSchema) : Bytes := if s.idWidth = 1 then [byte s.id] else le32 s.id

/-- `MessageDataclass.serialize()` with the class's default `compress`. -/
def encodeFrame (z : Zlib) (s : MsgSchema) (vs : List Val) : Option Bytes := do
  let body ← encTop vs s.fields vs
  let payload := if s.compress then z.deflate body else body
  let n := (idBytes s).length + payload.length
  if n < 4294967296 then pure (le32 n ++ idBytes s ++ payload) else none

def rdId (w : Nat) (bs : Bytes) : Except DErr (Nat × Bytes) := if w = 1 then rd8 bs else rd32 bs

/-- `MessageDataclass.deserialize(0, message)` with the class's default `decompress`. The length
prefix is read and ignored (primitives.py:428). -/
def decodeFrame (z : Zlib) (s : MsgSchema) (msg : Bytes) : Except DErr (List Val) := do
  let (_, r) ← rd32 msg
  let (mid, r) ← rdId s.idWidth r
  if mid != s.id then throw .idMismatch
  let payload ← if s.decompress then
      match z.inflate r with
      | some p => pure p
      | none => throw .zlib
    else pure r
  let (parsed, _) ← decTop s.fields [] payload
  construct s.fields parsed

/-- id width of a family's dispatcher (`uint32.deserialize(4, …)` / `uint8.deserialize(4, …)`) -/
def Family.idWidth : Family → Nat
  | .server => 4
  | .peer => 4
  | .peerinit => 1
  | .distributed => 1

/-- `ServerMessage.deserialize_request/response`, `PeerMessage.deserialize_request`, …: first class
of the family (definition order) with the id read at offset 4. Returns the index in the table. -/
def dispatch (z : Zlib) (table : List MsgSchema) (fam : Family) (dir : Dir) (msg : Bytes) :
    Except DErr (Nat × List Val) := do
  let (mid, _) ← rdId fam.idWidth (msg.drop 4)
  if msg.length < 4 then throw .struct
  match table.findIdx? (fun s => s.family == fam && s.dir == dir && s.id == mid) with
  | none => throw .unknown
  | some i =>
    match table[i]? with
    | none => throw .unknown
    | some s => do
      let vs ← decodeFrame z s msg
      pure (i, vs)

end AioslskVerif.Wire
