import AioslskVerif.Generated.CacheConstants
/-!
Model of transfer persistence (property C17):

* `Transfer.__getstate__` / `__setstate__`            transfer/model.py:129-165   → `persist` / `restore`
* `TransferState.init_from_state`                     transfer/state.py:87-93     → `stateOfValue`
* `TransferShelveCache.write` / `read`                transfer/cache.py:42-84     → `write` / `readAll`
  (with the proposed fix `fixes/C17-cache-key-ambiguous.patch`: the hashed string is
  `str(len(username)) + ':' + username + remote_path + str(direction.value)` and stale entries
  are removed *by key*)
* `TransferManager.read_cache` / `add`                transfer/manager.py:147-167, 319-344 → `repair` / `Mgr.add` / `Mgr.load`
* `TransferManager._get_queued_transfers`             transfer/manager.py:598-651 → `eligible` (without the ranking)

The hash (`hashlib.sha256(...).hexdigest()`) is a *parameter* `H : ByteArray → K` of `write`; theorems
assume `Function.Injective H` explicitly. What is hashed (`keyBytes`) is modelled exactly, and its
injectivity is proved. `pickle`, `shelve`, `dbm` are not modelled: a database is a finite list of
(key, pickled dict) pairs whose order is unspecified (all observations are compared as multisets).
-/
namespace AioslskVerif.Cache
open AioslskVerif.Generated.Cache

abbrev Str := List Char

/-- `TransferDirection` -/
inductive Dir | upload | download
deriving DecidableEq, Repr

def Dir.name : Dir → String
  | .upload => "UPLOAD"
  | .download => "DOWNLOAD"

/-- `direction.value` (generated table) -/
def Dir.value (d : Dir) : Nat := (directionEnum.lookup d.name).getD 0

/-- `str(direction.value)` -/
def Dir.digits (d : Dir) : Str := Nat.toDigits 10 d.value

/-- the states that have a `TransferState` subclass -/
inductive St
  | virgin | queued | initializing | incomplete | downloading | uploading | complete | failed | aborted | paused
deriving DecidableEq, Repr

def St.name : St → String
  | .virgin => "VIRGIN" | .queued => "QUEUED" | .initializing => "INITIALIZING" | .incomplete => "INCOMPLETE"
  | .downloading => "DOWNLOADING" | .uploading => "UPLOADING" | .complete => "COMPLETE" | .failed => "FAILED"
  | .aborted => "ABORTED" | .paused => "PAUSED"

def St.all : List St :=
  [.virgin, .queued, .initializing, .incomplete, .downloading, .uploading, .complete, .failed, .aborted, .paused]

def St.ofName? (n : String) : Option St := St.all.find? (fun s => s.name == n)

/-- `state.VALUE.value` : what `__getstate__` stores (the enum member, pickled by value) -/
def St.value (s : St) : Int := (stateEnum.lookup s.name).getD (-1)

/-- `TransferState.init_from_state(State(v), transfer)` : the first subclass whose `VALUE` is the
member with value `v`; `none` = "no state class for state" (state.py:87-93). -/
def stateOfValue (v : Int) : Option St :=
  match stateClasses.find? (fun c => stateEnum.lookup c.2 == some v) with
  | some c => St.ofName? c.2
  | none => none

def isTransferring (s : St) : Bool := transferring.contains s.name
def isProcessing (s : St) : Bool := processing.contains s.name
def isFinalized (s : St) : Bool := finalized.contains s.name

/-- The pickled dict of one transfer. `abortReason = none` : the key is absent (legacy record);
`hasOffset` : the dict carries the retired `_offset` key (legacy record, or a transfer on which
`reset_progress_vars` ran). -/
structure Rec where
  user : Str
  path : Str
  dir : Dir
  state : Int
  localPath : Option Str
  filesize : Option Nat
  bytes : Nat
  failReason : Option Str
  abortReason : Option (Option Str)
  remotelyQueued : Bool
  placeInQueue : Option Nat
  queueAttempts : Nat
  lastQueueAttempt : Nat
  uploadRequestAttempts : Nat
  lastUploadRequestAttempt : Nat
  startTime : Option Nat
  completeTime : Option Nat
  hasOffset : Bool
deriving DecidableEq, Repr

/-- names of the persisted attributes of a current record, in `Transfer.__init__` order -/
def persistedFields : List String :=
  ["state", "direction", "username", "remote_path", "local_path", "remotely_queued", "place_in_queue",
   "fail_reason", "abort_reason", "filesize", "bytes_transfered", "queue_attempts", "last_queue_attempt",
   "upload_request_attempts", "last_upload_request_attempt", "start_time", "complete_time"]

/-- A live `Transfer` object. Runtime-only parts: `listeners` (`state_listeners`, ids of listener
objects), `tasks` (number of task handles held in `_remotely_queue_task` / `_transfer_task`),
`hasOffset` (`_offset` attribute present). -/
structure Transfer where
  user : Str
  path : Str
  dir : Dir
  state : St
  localPath : Option Str
  filesize : Option Nat
  bytes : Nat
  failReason : Option Str
  abortReason : Option Str
  remotelyQueued : Bool
  placeInQueue : Option Nat
  queueAttempts : Nat
  lastQueueAttempt : Nat
  uploadRequestAttempts : Nat
  lastUploadRequestAttempt : Nat
  startTime : Option Nat
  completeTime : Option Nat
  hasOffset : Bool
  listeners : List Nat
  tasks : Nat
deriving DecidableEq, Repr

/-- `Transfer.__eq__` compares exactly this (model.py:370-376) -/
def ident (t : Transfer) : Str × Str × Dir := (t.user, t.path, t.dir)

/-- `Transfer.__getstate__` (model.py:154-165) -/
def persist (t : Transfer) : Rec :=
  { user := t.user, path := t.path, dir := t.dir, state := t.state.value, localPath := t.localPath,
    filesize := t.filesize, bytes := t.bytes, failReason := t.failReason, abortReason := some t.abortReason,
    remotelyQueued := t.remotelyQueued, placeInQueue := t.placeInQueue, queueAttempts := t.queueAttempts,
    lastQueueAttempt := t.lastQueueAttempt, uploadRequestAttempts := t.uploadRequestAttempts,
    lastUploadRequestAttempt := t.lastUploadRequestAttempt, startTime := t.startTime,
    completeTime := t.completeTime, hasOffset := t.hasOffset }

/-- the abort reason after `__setstate__` (model.py:137-142) -/
def fixAbort (s : St) (ar : Option Str) : Option Str :=
  if ar = none ∧ s = .aborted then some abortRequested.toList else ar

/-- `Transfer.__setstate__` (model.py:129-152); `none` = the exception of `init_from_state`. -/
def restore (r : Rec) : Option Transfer :=
  match stateOfValue r.state with
  | none => none
  | some s =>
    some { user := r.user, path := r.path, dir := r.dir, state := s, localPath := r.localPath,
           filesize := r.filesize, bytes := r.bytes, failReason := r.failReason,
           abortReason := fixAbort s (r.abortReason.getD none),
           remotelyQueued := r.remotelyQueued, placeInQueue := r.placeInQueue, queueAttempts := r.queueAttempts,
           lastQueueAttempt := r.lastQueueAttempt, uploadRequestAttempts := r.uploadRequestAttempts,
           lastUploadRequestAttempt := r.lastUploadRequestAttempt, startTime := r.startTime,
           completeTime := r.completeTime, hasOffset := false, listeners := [], tasks := 0 }

/-- what a transfer looks like after one pickle round trip -/
def canon (t : Transfer) : Transfer :=
  { t with abortReason := fixAbort t.state t.abortReason, hasOffset := false, listeners := [], tasks := 0 }

/-! ### the cache key (cache.py, fixed) -/

/-- `str(len(username)) + ':' + username + remote_path + str(direction.value)` -/
def keyChars (u p : Str) (d : Dir) : Str :=
  Nat.toDigits 10 u.length ++ ':' :: (u ++ p ++ d.digits)

/-- `(...).encode('utf-8')` : the bytes that are hashed -/
def keyBytes (u p : Str) (d : Dir) : ByteArray := (String.ofList (keyChars u p d)).toUTF8

def keyOf (t : Transfer) : ByteArray := keyBytes t.user t.path t.dir

/-- the key format of the unpatched code: `username + remote_path + str(direction.value)`; only used to
build databases written before the fix (migration cases) and for `C17_old_key_collides`. -/
def oldKeyBytes (u p : Str) (d : Dir) : ByteArray := (String.ofList (u ++ p ++ d.digits)).toUTF8

/-! ### the shelve database -/

/-- key ↦ pickled dict; the order of the list carries no meaning -/
abbrev Db (K : Type) := List (K × Rec)

section
variable {K : Type} [DecidableEq K]

/-- `database[key] = transfer` -/
def Db.put (db : Db K) (k : K) (r : Rec) : Db K := (k, r) :: db.filter (fun e => e.1 ≠ k)

/-- `TransferShelveCache.write` (fixed): store every transfer under its key, then drop every entry
whose key was not written in this pass. -/
def write (H : ByteArray → K) (db : Db K) (ts : List Transfer) : Db K :=
  let db1 := ts.foldl (fun db t => db.put (H (keyOf t)) (persist t)) db
  let written := ts.map (fun t => H (keyOf t))
  db1.filter (fun e => e.1 ∈ written)

/-- unpickle every value; one failing value fails the whole `read()` -/
def restoreAll : List Rec → Option (List Transfer)
  | [] => some []
  | r :: rs =>
    match restore r, restoreAll rs with
    | some t, some ts => some (t :: ts)
    | _, _ => none

/-- `TransferShelveCache.read` -/
def readAll (db : Db K) : Option (List Transfer) := restoreAll (db.map (·.2))

end

/-! ### `TransferManager.read_cache` -/

/-- `Transfer.is_transfered` : `filesize == bytes_transfered` (`None` is never equal to an int) -/
def isTransfered (t : Transfer) : Bool := t.filesize == some t.bytes

/-- `Transfer.transition` : set the state and tell every listener `(listener, old, new)` -/
def transition (t : Transfer) (s : St) : Transfer × List (Nat × St × St) :=
  ({ t with state := s }, t.listeners.map fun l => (l, t.state, s))

/-- the state part of the repair, as a function of the persisted state and `is_transfered()` -/
def repairState (s : St) (transfered : Bool) : St :=
  if s = .initializing then .queued
  else if isTransferring s then (if transfered then .complete else .incomplete)
  else s

/-- body of the loop of `read_cache` before `add` (manager.py:153-165): the repaired transfer and
the listener notifications it caused. -/
def repair (t : Transfer) : Transfer × List (Nat × St × St) :=
  let t := { t with remotelyQueued := false }
  if t.state = .initializing then
    -- `InitializingState.queue()` : remotely_queued = False; transition(QueuedState)
    transition { t with remotelyQueued := false } .queued
  else if isTransferring t.state then
    ({ t with state := if isTransfered t then .complete else .incomplete,
              startTime := none, completeTime := none }, [])
  else (t, [])

/-- the part of `TransferManager` this property is about -/
structure Mgr where
  id : Nat
  transfers : List Transfer
  addedEvents : Nat
  cycleRequested : Bool
deriving Repr

def Mgr.empty (id : Nat) : Mgr := { id := id, transfers := [], addedEvents := 0, cycleRequested := false }

/-- `add` registers the manager as state listener of the transfer -/
def attach (id : Nat) (t : Transfer) : Transfer := { t with listeners := t.listeners ++ [id] }

/-- `TransferManager.add` (manager.py:319-344) -/
def Mgr.add (m : Mgr) (t : Transfer) : Mgr :=
  if m.transfers.any (fun q => ident q = ident t) then m
  else { m with transfers := m.transfers ++ [attach m.id t], addedEvents := m.addedEvents + 1,
                cycleRequested := true }

def Mgr.addAll (m : Mgr) (ts : List Transfer) : Mgr := ts.foldl (fun m t => m.add (repair t).1) m

/-- `load_data()` = `read_cache()` -/
def Mgr.load {K : Type} (m : Mgr) (db : Db K) : Option Mgr := (readAll db).map m.addAll

/-- a transfer as `download()` / `_on_peer_transfer_queue` create and `add` it -/
def fresh (id : Nat) (u p : Str) (d : Dir) : Transfer :=
  attach id { user := u, path := p, dir := d, state := .virgin, localPath := none, filesize := none, bytes := 0,
              failReason := none, abortReason := none, remotelyQueued := false, placeInQueue := none,
              queueAttempts := 0, lastQueueAttempt := 0, uploadRequestAttempts := 0,
              lastUploadRequestAttempt := 0, startTime := none, completeTime := none, hasOffset := false,
              listeners := [], tasks := 0 }

/-! ### `_get_queued_transfers` (without `_prioritize_uploads`, which only reorders) -/

/-- users with an upload that `is_processing()` -/
def uploadingUsers (ts : List Transfer) : List Str :=
  (ts.filter fun t => t.dir = .upload ∧ isProcessing t.state).map (·.user)

/-- download branch of the loop body: is this download appended to `queued_downloads`? -/
def downloadWanted (t : Transfer) : Bool :=
  !t.remotelyQueued &&
    (t.state = .queued || t.state = .incomplete || (t.state = .failed && t.failReason = none))

/-- accumulator: (users_with_queued_upload, queued_downloads, queued_uploads) -/
abbrev SchedAcc := List Str × List Transfer × List Transfer

def schedStep (offline : Str → Bool) (upUsers : List Str) (acc : SchedAcc) (t : Transfer) : SchedAcc :=
  if offline t.user then acc
  else match t.dir with
    | .upload =>
      if t.user ∈ upUsers then acc
      else if t.user ∈ acc.1 then acc
      else if t.state = .queued then (t.user :: acc.1, acc.2.1, acc.2.2 ++ [t])
      else acc
    | .download =>
      if downloadWanted t then (acc.1, acc.2.1 ++ [t], acc.2.2) else acc

/-- (eligible downloads, eligible uploads) -/
def eligible (offline : Str → Bool) (ts : List Transfer) : List Transfer × List Transfer :=
  (ts.foldl (schedStep offline (uploadingUsers ts)) ([], [], [])).2

end AioslskVerif.Cache
