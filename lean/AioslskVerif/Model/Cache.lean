import AioslskVerif.Generated.CacheConstants
/-!
Model of transfer persistence (property C17):

* `Transfer.__getstate__` / `__setstate__`            transfer/model.py:129-165   → `persist` / `restore`
* `TransferState.init_from_state`                     transfer/state.py:87-93     → `stateOfValue`
* `TransferShelveCache.write` / `read`                transfer/cache.py:42-84     → `write` / `readAll`
  (with the proposed fix `fixes/C17-cache-key-ambiguous.patch`: the hashed string is
  `str(len(username)) + ':' + username + remote_path + str(direction.value)` and stale entries
  are removed *by key*)
* `TransferManager.read_cache` / `add`                transfer/manager.py:147-167, 319-344 → `repair` / `Mgr.add` / `Mgr.load`
* `TransferManager._get_queued_transfers`             transfer/manager.py:598-651 → `eligible` (without the ranking)
* `TransferManager.add` / `remove` split at their suspension points (the delivery of
  `TransferAddedEvent`, the state listeners of the abort transition, the delivery of
  `TransferRemovedEvent`), `write_cache()` possible at every one of them, process end at any
  point                                               transfer/manager.py:323-383 → `Op` / `step` / `run`
* `abort()` of the state classes                      transfer/state.py:186-392   → `abortEffect` (generated table)
* `TransferManager.read_cache` split at ITS suspension points (the delivery of `TransferAddedEvent`
  for every entry it registers), other operations in between; the order in which `shelve` hands out
  the entries is the environment's                    transfer/manager.py:151-171 → `readOrder` / `loadRun` / `Op.loadCall` / `Op.loadStep`
* records left by another release of the writer (`Op.prev`: the pinned `__getstate__` format, whatever
  the reader is; `Op.dupKey`: one transfer under both key formats)

The hash (`hashlib.sha256(...).hexdigest()`) is a *parameter* `H : ByteArray → K` of `write`; theorems
assume `Function.Injective H` explicitly. What is hashed (`keyBytes`) is modelled exactly, and its
injectivity is proved. `pickle`, `shelve`, `dbm` are not modelled: a database is a finite list of
(key, pickled dict) pairs whose order is unspecified (all observations are compared as multisets).
-/
namespace AioslskVerif.Cache
open AioslskVerif.Generated.Cache

abbrev Str := List Char

/-- `TransferDirection` -/
inductive Dir | upload | download
deriving DecidableEq, Repr

def Dir.name : Dir → String
  | .upload => "UPLOAD"
  | .download => "DOWNLOAD"

/-- `direction.value` (generated table) -/
def Dir.value (d : Dir) : Nat := (directionEnum.lookup d.name).getD 0

/-- `str(direction.value)` -/
def Dir.digits (d : Dir) : Str := Nat.toDigits 10 d.value

/-- the states that have a `TransferState` subclass -/
inductive St
  | virgin | queued | initializing | incomplete | downloading | uploading | complete | failed | aborted | paused
deriving DecidableEq, Repr

def St.name : St → String
  | .virgin => "VIRGIN" | .queued => "QUEUED" | .initializing => "INITIALIZING" | .incomplete => "INCOMPLETE"
  | .downloading => "DOWNLOADING" | .uploading => "UPLOADING" | .complete => "COMPLETE" | .failed => "FAILED"
  | .aborted => "ABORTED" | .paused => "PAUSED"

def St.all : List St :=
  [.virgin, .queued, .initializing, .incomplete, .downloading, .uploading, .complete, .failed, .aborted, .paused]

def St.ofName? (n : String) : Option St := St.all.find? (fun s => s.name == n)

/-- `state.VALUE.value` : what `__getstate__` stores (the enum member, pickled by value) -/
def St.value (s : St) : Int := (stateEnum.lookup s.name).getD (-1)

/-- `TransferState.init_from_state(State(v), transfer)` : the first subclass whose `VALUE` is the
member with value `v`; `none` = "no state class for state" (state.py:87-93). -/
def stateOfValue (v : Int) : Option St :=
  match stateClasses.find? (fun c => stateEnum.lookup c.2 == some v) with
  | some c => St.ofName? c.2
  | none => none

def isTransferring (s : St) : Bool := transferring.contains s.name
def isProcessing (s : St) : Bool := processing.contains s.name
def isFinalized (s : St) : Bool := finalized.contains s.name

/-- The pickled dict of one transfer. `abortReason = none` : the key is absent (legacy record);
`hasOffset` : the dict carries the retired `_offset` key (legacy record, or a transfer on which
`reset_progress_vars` ran). -/
structure Rec where
  user : Str
  path : Str
  dir : Dir
  state : Int
  localPath : Option Str
  filesize : Option Nat
  bytes : Nat
  failReason : Option Str
  abortReason : Option (Option Str)
  remotelyQueued : Bool
  placeInQueue : Option Nat
  queueAttempts : Nat
  lastQueueAttempt : Nat
  uploadRequestAttempts : Nat
  lastUploadRequestAttempt : Nat
  startTime : Option Nat
  completeTime : Option Nat
  hasOffset : Bool
deriving DecidableEq, Repr

/-- names of the persisted attributes of a current record, in `Transfer.__init__` order -/
def persistedFields : List String :=
  ["state", "direction", "username", "remote_path", "local_path", "remotely_queued", "place_in_queue",
   "fail_reason", "abort_reason", "filesize", "bytes_transfered", "queue_attempts", "last_queue_attempt",
   "upload_request_attempts", "last_upload_request_attempt", "start_time", "complete_time"]

/-- A live `Transfer` object. Runtime-only parts: `listeners` (`state_listeners`, ids of listener
objects), `tasks` (number of task handles held in `_remotely_queue_task` / `_transfer_task`),
`hasOffset` (`_offset` attribute present). -/
structure Transfer where
  user : Str
  path : Str
  dir : Dir
  state : St
  localPath : Option Str
  filesize : Option Nat
  bytes : Nat
  failReason : Option Str
  abortReason : Option Str
  remotelyQueued : Bool
  placeInQueue : Option Nat
  queueAttempts : Nat
  lastQueueAttempt : Nat
  uploadRequestAttempts : Nat
  lastUploadRequestAttempt : Nat
  startTime : Option Nat
  completeTime : Option Nat
  hasOffset : Bool
  listeners : List Nat
  tasks : Nat
deriving DecidableEq, Repr

/-- `Transfer.__eq__` compares exactly this (model.py:370-376) -/
def ident (t : Transfer) : Str × Str × Dir := (t.user, t.path, t.dir)

/-- `Transfer.__getstate__` (model.py:154-165) -/
def persist (t : Transfer) : Rec :=
  { user := t.user, path := t.path, dir := t.dir, state := t.state.value, localPath := t.localPath,
    filesize := t.filesize, bytes := t.bytes, failReason := t.failReason, abortReason := some t.abortReason,
    remotelyQueued := t.remotelyQueued, placeInQueue := t.placeInQueue, queueAttempts := t.queueAttempts,
    lastQueueAttempt := t.lastQueueAttempt, uploadRequestAttempts := t.uploadRequestAttempts,
    lastUploadRequestAttempt := t.lastUploadRequestAttempt, startTime := t.startTime,
    completeTime := t.completeTime, hasOffset := t.hasOffset }

/-- the abort reason after `__setstate__` (model.py:137-142) -/
def fixAbort (s : St) (ar : Option Str) : Option Str :=
  if ar = none ∧ s = .aborted then some abortRequested.toList else ar

/-- `Transfer.__setstate__` (model.py:129-152); `none` = the exception of `init_from_state`. -/
def restore (r : Rec) : Option Transfer :=
  match stateOfValue r.state with
  | none => none
  | some s =>
    some { user := r.user, path := r.path, dir := r.dir, state := s, localPath := r.localPath,
           filesize := r.filesize, bytes := r.bytes, failReason := r.failReason,
           abortReason := fixAbort s (r.abortReason.getD none),
           remotelyQueued := r.remotelyQueued, placeInQueue := r.placeInQueue, queueAttempts := r.queueAttempts,
           lastQueueAttempt := r.lastQueueAttempt, uploadRequestAttempts := r.uploadRequestAttempts,
           lastUploadRequestAttempt := r.lastUploadRequestAttempt, startTime := r.startTime,
           completeTime := r.completeTime, hasOffset := false, listeners := [], tasks := 0 }

/-- what a transfer looks like after one pickle round trip -/
def canon (t : Transfer) : Transfer :=
  { t with abortReason := fixAbort t.state t.abortReason, hasOffset := false, listeners := [], tasks := 0 }

/-! ### the cache key (cache.py, fixed) -/

/-- `str(len(username)) + ':' + username + remote_path + str(direction.value)` -/
def keyChars (u p : Str) (d : Dir) : Str :=
  Nat.toDigits 10 u.length ++ ':' :: (u ++ p ++ d.digits)

/-- `(...).encode('utf-8')` : the bytes that are hashed -/
def keyBytes (u p : Str) (d : Dir) : ByteArray := (String.ofList (keyChars u p d)).toUTF8

def keyOf (t : Transfer) : ByteArray := keyBytes t.user t.path t.dir

/-- the key format of the unpatched code: `username + remote_path + str(direction.value)`; only used to
build databases written before the fix (migration cases) and for `C17_old_key_collides`. -/
def oldKeyBytes (u p : Str) (d : Dir) : ByteArray := (String.ofList (u ++ p ++ d.digits)).toUTF8

/-! ### the shelve database -/

/-- key ↦ pickled dict; the order of the list carries no meaning -/
abbrev Db (K : Type) := List (K × Rec)

section
variable {K : Type} [DecidableEq K]

/-- `database[key] = transfer` -/
def Db.put (db : Db K) (k : K) (r : Rec) : Db K := (k, r) :: db.filter (fun e => e.1 ≠ k)

/-- `TransferShelveCache.write` (fixed): store every transfer under its key, then drop every entry
whose key was not written in this pass. -/
def write (H : ByteArray → K) (db : Db K) (ts : List Transfer) : Db K :=
  let db1 := ts.foldl (fun db t => db.put (H (keyOf t)) (persist t)) db
  let written := ts.map (fun t => H (keyOf t))
  db1.filter (fun e => e.1 ∈ written)

/-- unpickle every value; one failing value fails the whole `read()` -/
def restoreAll : List Rec → Option (List Transfer)
  | [] => some []
  | r :: rs =>
    match restore r, restoreAll rs with
    | some t, some ts => some (t :: ts)
    | _, _ => none

/-- `TransferShelveCache.read` -/
def readAll (db : Db K) : Option (List Transfer) := restoreAll (db.map (·.2))

end

/-! ### `TransferManager.read_cache` -/

/-- `Transfer.is_transfered` : `filesize == bytes_transfered` (`None` is never equal to an int) -/
def isTransfered (t : Transfer) : Bool := t.filesize == some t.bytes

/-- `Transfer.transition` : set the state and tell every listener `(listener, old, new)` -/
def transition (t : Transfer) (s : St) : Transfer × List (Nat × St × St) :=
  ({ t with state := s }, t.listeners.map fun l => (l, t.state, s))

/-- the state part of the repair, as a function of the persisted state and `is_transfered()` -/
def repairState (s : St) (transfered : Bool) : St :=
  if s = .initializing then .queued
  else if isTransferring s then (if transfered then .complete else .incomplete)
  else s

/-- body of the loop of `read_cache` before `add` (manager.py:153-165): the repaired transfer and
the listener notifications it caused. -/
def repair (t : Transfer) : Transfer × List (Nat × St × St) :=
  let t := { t with remotelyQueued := false }
  if t.state = .initializing then
    -- `InitializingState.queue()` : remotely_queued = False; transition(QueuedState)
    transition { t with remotelyQueued := false } .queued
  else if isTransferring t.state then
    ({ t with state := if isTransfered t then .complete else .incomplete,
              startTime := none, completeTime := none }, [])
  else (t, [])

/-- the part of `TransferManager` this property is about -/
structure Mgr where
  id : Nat
  transfers : List Transfer
  addedEvents : Nat
  cycleRequested : Bool
deriving Repr

def Mgr.empty (id : Nat) : Mgr := { id := id, transfers := [], addedEvents := 0, cycleRequested := false }

/-- `add` registers the manager as state listener of the transfer -/
def attach (id : Nat) (t : Transfer) : Transfer := { t with listeners := t.listeners ++ [id] }

/-- `TransferManager.add` (manager.py:319-344) -/
def Mgr.add (m : Mgr) (t : Transfer) : Mgr :=
  if m.transfers.any (fun q => ident q = ident t) then m
  else { m with transfers := m.transfers ++ [attach m.id t], addedEvents := m.addedEvents + 1,
                cycleRequested := true }

def Mgr.addAll (m : Mgr) (ts : List Transfer) : Mgr := ts.foldl (fun m t => m.add (repair t).1) m

/-- `load_data()` = `read_cache()` -/
def Mgr.load {K : Type} (m : Mgr) (db : Db K) : Option Mgr := (readAll db).map m.addAll

/-- a transfer as `download()` / `_on_peer_transfer_queue` create and `add` it -/
def fresh (id : Nat) (u p : Str) (d : Dir) : Transfer :=
  attach id { user := u, path := p, dir := d, state := .virgin, localPath := none, filesize := none, bytes := 0,
              failReason := none, abortReason := none, remotelyQueued := false, placeInQueue := none,
              queueAttempts := 0, lastQueueAttempt := 0, uploadRequestAttempts := 0,
              lastUploadRequestAttempt := 0, startTime := none, completeTime := none, hasOffset := false,
              listeners := [], tasks := 0 }

/-! ### `TransferManager.remove` : the abort it starts with (state.py) -/

/-- `_remove_local_file` (state.py:33-46): downloads only, and only a truthy `local_path` (`None` and
`''` are left alone); afterwards `local_path = None`. -/
def removeLocalFile (t : Transfer) : Transfer :=
  if t.dir = .download then
    match t.localPath with
    | some (_ :: _) => { t with localPath := none }
    | _ => t
  else t

/-- `Transfer.set_complete_time` (model.py:200-204): only when a start time is set -/
def setCompleteTime (now : Nat) (t : Transfer) : Transfer :=
  if t.startTime.isSome then { t with completeTime := some now } else t

/-- `transfer.state.abort(reason=AbortReason.REQUESTED)` (manager.py:269): `none` = the state does not
define `abort` (returns False → `InvalidStateTransition`, swallowed by `remove`). Row of the
generated table: (stops the transfer, removes the local file). -/
def abortEffect (now : Nat) (t : Transfer) : Option Transfer :=
  match abortTable.lookup t.state.name with
  | none => none
  | some (stops, removes) =>
    let t := if stops then setCompleteTime now t else t
    let t := if removes then removeLocalFile t else t
    some { t with abortReason := some abortRequested.toList, state := .aborted }

/-! ### histories: operations of the manager split at their suspension points, cache writes anywhere

`add()` (manager.py:323-348) appends the transfer and then awaits the listeners of `TransferAddedEvent`;
`remove()` (manager.py:350-383) awaits `abort()` — whose transition awaits the transfer's state
listeners while the transfer is still listed — then detaches the transfer and awaits the listeners of
`TransferRemovedEvent`. A listener may suspend (or write the cache itself), so `write_cache()` —
synchronous, manager.py:173-175 — can run at each of these points, and the process can end at each
of them. `Pending` records an operation suspended in a listener; the *ghost* lists `there` / `gone`
record what the user has been told: `there` = addition reported (`TransferAddedEvent` delivered) and
no removal asked for since; `gone` = removal reported (`TransferRemovedEvent` delivered) and no
addition asked for since. They are bookkeeping of the statement, not of the code. -/

abbrev Ident := Str × Str × Dir

inductive Phase
  | adding       -- `add()` suspended in the delivery of `TransferAddedEvent`
  | aborting     -- `remove()` suspended in a state listener of the abort transition (transfer still listed)
  | announcing   -- `remove()` suspended in the delivery of `TransferRemovedEvent` (transfer detached)
deriving DecidableEq, Repr

structure Pending where
  id : Ident
  phase : Phase
  /-- an `add()` for the same identity was called while this removal was in progress: its report says
  nothing about the identity any more -/
  tainted : Bool
deriving DecidableEq, Repr

structure Sys (K : Type) where
  mgr : Mgr
  db : Db K
  removedEvents : Nat
  pending : List Pending
  there : List Ident
  gone : List Ident
  /-- `read_cache()` in progress (manager.py:151-171), suspended in a `TransferAddedEvent` listener: the
  entries `cache.read()` returned that its loop has not reached yet, in the order it will reach them -/
  loading : Option (List Transfer) := none

def mgrId : Nat := 1

def Sys.init {K : Type} : Sys K :=
  { mgr := Mgr.empty mgrId, db := [], removedEvents := 0, pending := [], there := [], gone := [], loading := none }

inductive Op
  | new                                       -- empty data directory, new manager
  | add (t : Transfer)                        -- `await add(t)`, no listener suspends
  | addCall (t : Transfer)                    -- `add(t)` up to the suspended `TransferAddedEvent` listener
  | addRet (id : Ident)                       -- that listener resumes, `add()` returns
  | edit (t : Transfer)                       -- attributes of the listed transfer with this identity overwritten
  | rm (id : Ident) (now : Nat)               -- `await remove(t)`, no listener suspends
  | rmCall (id : Ident) (now : Nat)           -- `remove(t)` up to its first suspended listener
  | rmStep (id : Ident)                       -- that listener resumes, up to the next one / the return
  | store                                     -- `write_cache()` / `store_data()` (also what `stop()` ends with)
  | legacy (id : Ident) (lacksAbort carriesOffset oldKey unset : Bool)   -- environment: stored entry rewritten
  | restart                                   -- the process ends here; new manager, `load_data()`
  | sched (offline : List Str)                -- `_get_queued_transfers()` (observation only)
  | prev (t : Transfer) (oldKey : Bool)       -- environment: an entry as the pinned writer (`persist`) leaves it for `t`,
                                              -- under the current or the pre-fix key (cache of the previous release)
  | dupKey (id : Ident)                       -- environment: the stored entry of `id` is ALSO present under the pre-fix key
  | loadCall (order : List Ident)             -- the process ends here; new manager, `load_data()` as its own task up to
                                              -- the first suspended `TransferAddedEvent` listener; `order`: the order
                                              -- in which `shelve` hands out the entries (the environment's choice)
  | loadStep                                  -- that listener resumes: `read_cache()` up to the next one / its end
deriving Repr

/-- what the call reports (the driver prints it together with sizes read from the new state) -/
inductive Out
  | ok | notFound | busy | noPending | dup | pendingAdd | aborting | announcing | done | loaded | loadError | loading
deriving DecidableEq, Repr

def setAt {α} : List α → Nat → α → List α
  | [], _, _ => []
  | _ :: r, 0, a => a :: r
  | x :: r, n + 1, a => x :: setAt r n a

section
variable {K : Type} [DecidableEq K]

def Sys.listed (s : Sys K) (id : Ident) : Bool := s.mgr.transfers.any (fun q => ident q = id)

/-- a removal of this identity is in progress -/
def Sys.removing (s : Sys K) (id : Ident) : Bool :=
  s.pending.any (fun p => p.id = id ∧ p.phase ≠ .adding)

/-- `add()` (manager.py:323-348). An existing equal transfer is returned at once (no event, no
suspension). Otherwise: listener attached, appended, cycle requested, `TransferAddedEvent` delivered;
`gated` = a listener of that event suspends. -/
def doAdd (s : Sys K) (t : Transfer) (gated : Bool) : Sys K × Out :=
  let id := ident t
  let pend := s.pending.map fun p => if p.id = id ∧ p.phase ≠ .adding then { p with tainted := true } else p
  let gone := s.gone.filter (· ≠ id)
  if s.listed id then ({ s with pending := pend, gone := gone }, .dup)
  else
    ({ s with mgr := s.mgr.add t, gone := gone, there := id :: s.there.filter (· ≠ id),
              pending := if gated then pend ++ [{ id := id, phase := .adding, tainted := false }] else pend },
     if gated then .pendingAdd else .ok)

def doAddRet (s : Sys K) (id : Ident) : Sys K × Out :=
  if s.pending.any (fun p => p.id = id ∧ p.phase = .adding) then
    ({ s with pending := s.pending.eraseP (fun p => p.id = id ∧ p.phase = .adding) }, .ok)
  else (s, .noPending)

/-- the `finally:` block of `remove()` up to the delivery of `TransferRemovedEvent` (manager.py:369-375):
`self._transfers.remove(transfer)` (first equal element), cancelled tasks awaited, event delivered. -/
def detach (s : Sys K) (id : Ident) (tainted : Bool) : Sys K :=
  { s with mgr := { s.mgr with transfers := s.mgr.transfers.eraseP (fun q => ident q = id) },
           removedEvents := s.removedEvents + 1,
           there := s.there.filter (· ≠ id),
           gone := if tainted then s.gone.filter (· ≠ id) else id :: s.gone.filter (· ≠ id) }

/-- `remove()` (manager.py:350-383) up to its first suspension. `gated = false`: no listener suspends,
the call runs to its end. -/
def doRmCall (s : Sys K) (id : Ident) (now : Nat) (gated : Bool) : Sys K × Out :=
  match s.mgr.transfers.find? (fun q => ident q = id) with
  | none => (s, .notFound)                       -- TransferNotFoundError
  | some q =>
    if s.removing id then (s, .busy)             -- harness rule: removals of one identity do not overlap
    else
      let s := { s with there := s.there.filter (· ≠ id) }
      match abortEffect now q with
      | some q' =>
        -- the transition to ABORTED is announced to the state listeners (the manager's own requests a cycle)
        let s := { s with mgr := { s.mgr with
                     transfers := s.mgr.transfers.map (fun x => if ident x = id then q' else x),
                     cycleRequested := true } }
        if gated then ({ s with pending := s.pending ++ [{ id := id, phase := .aborting, tainted := false }] }, .aborting)
        else
          let s := detach s id false
          ({ s with mgr := { s.mgr with cycleRequested := true } }, .done)
      | none =>
        let s := detach s id false
        if gated then ({ s with pending := s.pending ++ [{ id := id, phase := .announcing, tainted := false }] }, .announcing)
        else ({ s with mgr := { s.mgr with cycleRequested := true } }, .done)

/-- the suspended listener of a removal in progress resumes. After the delivery of `TransferRemovedEvent`
`remove()` may still withdraw the user's tracking reason (manager.py:376-381, a request to the server:
it suspends, the list does not change) before it requests a cycle and returns. -/
def doRmStep (s : Sys K) (id : Ident) : Sys K × Out :=
  match s.pending.find? (fun p => p.id = id ∧ p.phase ≠ .adding) with
  | none => (s, .noPending)
  | some p =>
    if p.phase = .aborting then
      let s := detach s id p.tainted
      ({ s with pending := s.pending.map fun x => if x.id = id ∧ x.phase = .aborting then { x with phase := .announcing } else x },
       .announcing)
    else
      ({ s with pending := s.pending.eraseP (fun x => x.id = id ∧ x.phase ≠ .adding),
                mgr := { s.mgr with cycleRequested := true } }, .done)

/-- harness action: every attribute but the identity and the listeners is overwritten -/
def doMut (s : Sys K) (t : Transfer) : Sys K × Out :=
  match s.mgr.transfers.findIdx? (fun q => ident q = ident t) with
  | some i =>
    match s.mgr.transfers[i]? with
    | some q =>
      let t' : Transfer := { t with user := q.user, path := q.path, dir := q.dir, listeners := q.listeners }
      ({ s with mgr := { s.mgr with transfers := setAt s.mgr.transfers i t' } }, .ok)
    | none => (s, .notFound)
  | none => (s, .notFound)

/-- environment action on the stored entry of one identity: what an older release would have left -/
def doLegacy (H : ByteArray → K) (s : Sys K) (id : Ident) (a o k st : Bool) : Sys K × Out :=
  match s.db.find? (fun e => e.2.user = id.1 ∧ e.2.path = id.2.1 ∧ e.2.dir = id.2.2) with
  | some e =>
    let r := { e.2 with abortReason := if a then none else e.2.abortReason,
                        hasOffset := e.2.hasOffset || o,
                        state := if st then -1 else e.2.state }
    let db : Db K :=
      if k then Db.put (s.db.filter (fun x => x.1 ≠ e.1)) (H (oldKeyBytes id.1 id.2.1 id.2.2)) r else Db.put s.db e.1 r
    ({ s with db := db }, .ok)
  | none => (s, .notFound)

/-- the process ends (whatever was suspended dies with it); a new manager loads the cache -/
def doRestart (s : Sys K) : Sys K × Out :=
  match (Mgr.empty mgrId).load s.db with
  | some m =>
    ({ s with mgr := m, removedEvents := 0, pending := [], there := m.transfers.map ident, gone := [],
              loading := none }, .loaded)
  | none =>
    ({ s with mgr := Mgr.empty mgrId, removedEvents := 0, pending := [], there := [], gone := [],
              loading := none }, .loadError)

/-! #### `read_cache()` split at its suspension points

`read_cache` (manager.py:151-171) reads the whole cache (`cache.read()`, synchronous), then for every entry:
repairs it and `await self.add(entry)`. `add()` checks for an equal listed transfer and appends in ONE
step (no `await` in between, manager.py:338-345) and then awaits the listeners of `TransferAddedEvent`: a
listener that suspends lets other tasks run — `add()` / `download()` / `remove()` / `write_cache()` — before
the loop looks at its next entry. An entry whose identity is listed when the loop reaches it is dropped
silently (`add()` returns the listed transfer: no event, no suspension). -/

/-- the first entry with identity `id`, and the others -/
def pull (id : Ident) : List Transfer → Option (Transfer × List Transfer)
  | [] => none
  | t :: l => if ident t = id then some (t, l) else (pull id l).map fun r => (r.1, t :: r.2)

/-- the entries in the order `shelve` hands them out: `order` names the identity of the 1st, 2nd, … entry (an
identity stored under two keys is named twice); entries not named come last -/
def readOrder : List Ident → List Transfer → List Transfer
  | [], l => l
  | id :: rest, l =>
    match pull id l with
    | some (t, r) => t :: readOrder rest r
    | none => readOrder rest l

/-- the loop of `read_cache` from its current position up to its next suspension (a listener of the
`TransferAddedEvent` of the entry it has just registered) or its end -/
def loadRun (s : Sys K) : List Transfer → Sys K × Out
  | [] => ({ s with loading := none }, .loaded)
  | x :: rest =>
    if s.listed (ident x) then loadRun s rest
    else ({ (doAdd s (repair x).1 false).1 with loading := some rest }, .loading)

/-- the process ends; a new manager starts `load_data()` as its own task -/
def doLoadCall (s : Sys K) (order : List Ident) : Sys K × Out :=
  let s0 : Sys K := { s with mgr := Mgr.empty mgrId, removedEvents := 0, pending := [], there := [], gone := [],
                             loading := none }
  match readAll s.db with
  | none => (s0, .loadError)
  | some l => loadRun s0 (readOrder order l)

def doLoadStep (s : Sys K) : Sys K × Out :=
  match s.loading with
  | none => (s, .noPending)
  | some rest => loadRun s rest

/-- environment: the cache holds an entry for `t` exactly as the pinned writer (`persist` =
`Transfer.__getstate__` of the pinned release) leaves it — every persisted attribute present, the
remote-queue mark as it was — under the current key or the key of the release before the key fix -/
def doPrev (H : ByteArray → K) (s : Sys K) (t : Transfer) (oldKey : Bool) : Sys K × Out :=
  let k := if oldKey then H (oldKeyBytes t.user t.path t.dir) else H (keyOf t)
  ({ s with db := Db.put s.db k (persist t) }, .ok)

/-- environment: the stored entry of one identity is also present under the pre-fix key (a cache that was
written by both releases and never cleaned: one transfer, two keys) -/
def doDupKey (H : ByteArray → K) (s : Sys K) (id : Ident) : Sys K × Out :=
  match s.db.find? (fun e => e.2.user = id.1 ∧ e.2.path = id.2.1 ∧ e.2.dir = id.2.2) with
  | some e => ({ s with db := Db.put s.db (H (oldKeyBytes id.1 id.2.1 id.2.2)) e.2 }, .ok)
  | none => (s, .notFound)

def step (H : ByteArray → K) (s : Sys K) : Op → Sys K × Out
  | .new => (Sys.init, .ok)
  | .add t => doAdd s t false
  | .addCall t => doAdd s t true
  | .addRet id => doAddRet s id
  | .edit t => doMut s t
  | .rm id now => doRmCall s id now false
  | .rmCall id now => doRmCall s id now true
  | .rmStep id => doRmStep s id
  | .store => ({ s with db := write H s.db s.mgr.transfers }, .ok)
  | .legacy id a o k st => doLegacy H s id a o k st
  | .restart => doRestart s
  | .sched _ => (s, .ok)
  | .prev t k => doPrev H s t k
  | .dupKey id => doDupKey H s id
  | .loadCall order => doLoadCall s order
  | .loadStep => doLoadStep s

def run (H : ByteArray → K) (s : Sys K) (ops : List Op) : Sys K := ops.foldl (fun s o => (step H s o).1) s

/-- operations that neither write the cache, nor touch the stored entries, nor end the process -/
def Op.quiet : Op → Bool
  | .new | .store | .legacy .. | .restart | .prev .. | .dupKey .. | .loadCall .. => false
  | _ => true

/-- operations during which the process lives on and the manager's list does not shrink: everything but
`remove()` and the end of the process -/
def Op.keeps : Op → Bool
  | .new | .restart | .loadCall .. | .rm .. | .rmCall .. | .rmStep .. => false
  | _ => true

end

/-! ### `_get_queued_transfers` (without `_prioritize_uploads`, which only reorders) -/

/-- users with an upload that `is_processing()` -/
def uploadingUsers (ts : List Transfer) : List Str :=
  (ts.filter fun t => t.dir = .upload ∧ isProcessing t.state).map (·.user)

/-- download branch of the loop body: is this download appended to `queued_downloads`? -/
def downloadWanted (t : Transfer) : Bool :=
  !t.remotelyQueued &&
    (t.state = .queued || t.state = .incomplete || (t.state = .failed && t.failReason = none))

/-- accumulator: (users_with_queued_upload, queued_downloads, queued_uploads) -/
abbrev SchedAcc := List Str × List Transfer × List Transfer

def schedStep (offline : Str → Bool) (upUsers : List Str) (acc : SchedAcc) (t : Transfer) : SchedAcc :=
  if offline t.user then acc
  else match t.dir with
    | .upload =>
      if t.user ∈ upUsers then acc
      else if t.user ∈ acc.1 then acc
      else if t.state = .queued then (t.user :: acc.1, acc.2.1, acc.2.2 ++ [t])
      else acc
    | .download =>
      if downloadWanted t then (acc.1, acc.2.1 ++ [t], acc.2.2) else acc

/-- (eligible downloads, eligible uploads) -/
def eligible (offline : Str → Bool) (ts : List Transfer) : List Transfer × List Transfer :=
  (ts.foldl (schedStep offline (uploadingUsers ts)) ([], [], [])).2

end AioslskVerif.Cache
