import AioslskVerif.Generated.RateConstants
import AioslskVerif.Generated.XferWire
/-!
Model of the file-transfer data plane (C04), transcribed from the FIXED code
(fixes/C04-zero-remaining.patch, fixes/C04-offset-send-failure.patch, fixes/C04-upload-eof-wait-read-error.patch,
fixes/C04-upload-failed-undelivered.patch):

* `PeerConnection.receive_file` / `send_file` / `receive_until_eof` (network/connection.py:414-433, 699-755)
* `TransferManager._initialize_download` from "calculate and send the offset" on, `_download_file`,
  `_initialize_upload` from "receive the offset" on, `_upload_file` (transfer/manager.py:831-856, 951-1073,
  1075-1149), `_calculate_offset` (690-703), `_on_peer_transfer_request` download branch (1405-1440)
* `Transfer.is_transfered`, `_transfer_progress_callback` (transfer/model.py:320-321, 366-368)
* chunk sizes granted by the rate limiters (network/rate_limiter.py; regenerated constants).

Files and byte streams are `List UInt8`; nothing bounds their length. The environment (peer, network)
acts through the `Op`s: which bytes become readable, EOF, reset / time-out.
-/
namespace AioslskVerif.FileXfer
open AioslskVerif.Generated.Rate

abbrev Bytes := List UInt8

/-- tokens granted per `take_tokens()` call: 128 with a limit, 8192 without (rate_limiter.py). -/
def chunkOf (limited : Bool) : Nat := if limited then minBucket else unlimitedGrant

/-! ## The two raw values of the file-connection hand-shake

The uploader opens the file connection and writes the ticket, the downloader answers with the offset; both are bare
little-endian numbers, no length, no message code. Numbers are unbounded in this model, on the wire they are not:
the ticket has 4 bytes, the offset 8 (files larger than 4 GiB exist, their downloads get interrupted beyond 4 GiB too).
What the senders write is transcribed here; how many bytes the receivers take from the stream and how many of them
they decode is REGENERATED from the code (`Generated/XferWire.lean`, translate/xfer_wire.py). -/
namespace Wire
open AioslskVerif.Generated.XferWire

/-- `n` as `w` little-endian bytes (`struct.pack('<I' / '<Q', n)`; Python raises for a number that does not fit,
the statements below carry `n < 256 ^ w`) -/
def leBytes : Nat → Nat → Bytes
  | 0, _ => []
  | w + 1, n => UInt8.ofNat (n % 256) :: leBytes w (n / 256)

def leVal : Bytes → Nat
  | [] => 0
  | b :: r => b.toNat + 256 * leVal r

/-- transfer/manager.py `_initialize_upload`: `connection.send_message(uint32(ticket).serialize())` -/
def ticketSendBytes : Nat := 4
/-- transfer/manager.py `_initialize_download`: `file_connection.send_message(uint64(offset).serialize())` -/
def offsetSendBytes : Nat := 8

def sendTicket (t : Nat) : Bytes := leBytes ticketSendBytes t
def sendOffset (o : Nat) : Bytes := leBytes offsetSendBytes o

/-- network/connection.py `receive_transfer_ticket` / `receive_transfer_offset`: `readexactly(read)`, then the number
made of the first `dec` of those bytes; `none` = not all `read` bytes are there yet (the reader keeps waiting,
whatever the segmentation) -/
def recvValue (read dec : Nat) (stream : Bytes) : Option (Nat × Bytes) :=
  if stream.length < read then none
  else some (leVal ((stream.take read).take dec), stream.drop read)

def recvTicket : Bytes → Option (Nat × Bytes) := recvValue ticketReadBytes ticketDecodeBytes
def recvOffset : Bytes → Option (Nat × Bytes) := recvValue offsetReadBytes offsetDecodeBytes

end Wire

/-! ## Download side -/

/-- states a download passes through here; `failedCancelled` = FAILED with reason "Cancelled". -/
inductive DState
  | queued | downloading | complete | incomplete | failedCancelled | paused
deriving DecidableEq, Repr

/-- what `TransferManager.write_cache()` persists of the download (transfer/model.py `__getstate__`): the state,
the counter, the announced size and the local path. -/
structure Saved where
  st : DState
  bt : Nat
  filesize : Nat
  hasPath : Bool
deriving Repr

structure Dl where
  filesize : Nat       -- `transfer.filesize` (announced in the last accepted PeerTransferRequest)
  loc : Bytes          -- content of the file at `transfer.local_path` (`[]` while there is no path / no file)
  bt : Nat             -- `transfer.bytes_transfered`
  st : DState
  offset : Nat         -- last offset put on the wire
  remaining : Int      -- argument of `receive_file`: `filesize - bytes_transfered` at the call
  received : Nat       -- `bytes_received` of `receive_file`
  chunk : Nat          -- tokens per read of this attempt
  closed : Bool        -- the downloader disconnected the file connection
  log : List Nat       -- ghost: size of every write reported to the progress callback in the current attempt
  hasPath : Bool := false        -- `transfer.local_path` is set
  saved : Option Saved := none   -- the transfer cache on disk
  ann : Nat := 0                 -- ghost: size announced by the request of the attempt that began last
  remote : Bytes := []           -- ghost: the uploader's shared file as it is now
  served : Bytes := []           -- ghost: the shared file during the attempt that began last
deriving Repr

def Dl.init (pre : Bytes) (hasPath : Bool := true) : Dl :=
  { filesize := 0, loc := if hasPath then pre else [], bt := 0, st := .queued, offset := 0, remaining := 0,
    received := 0, chunk := chunkOf false, closed := false, log := [], hasPath := hasPath }

/-- manager.py `_download_file`: `receive_file` returned normally → disconnect, then
`is_transfered()` decides COMPLETE / FAILED(Cancelled). -/
def finish (d : Dl) : Dl :=
  { d with closed := true, st := if d.filesize = d.bt then .complete else .failedCancelled }

/-- one iteration of the `receive_file` loop in which `read` returned `data` (connection.py):
write, progress callback, count, return when `bytes_received >= filesize`. -/
def onRead (d : Dl) (data : Bytes) : Dl :=
  let d1 := { d with loc := d.loc ++ data, bt := d.bt + data.length,
                     received := d.received + data.length, log := d.log ++ [data.length] }
  if (d1.received : Int) ≥ d1.remaining then finish d1 else d1

/-- the reader drains the bytes that became readable, `chunk` at a time, until they are used up or
`receive_file` returned. -/
def drain : Nat → Dl → Bytes → Dl
  | 0, d, _ => d
  | fuel + 1, d, buf =>
    if d.st ≠ .downloading ∨ buf = [] then d
    else drain fuel (onRead d (buf.take d.chunk)) (buf.drop d.chunk)

/-- `_on_peer_transfer_request`, download branch: QUEUED / INCOMPLETE / FAILED go on, COMPLETE and PAUSED are
refused, a transfer being processed ignores the request. -/
def canBegin (d : Dl) : Bool :=
  d.st = .queued || d.st = .incomplete || d.st = .failedCancelled

/-- `_initialize_download` from the offset on + `_download_file` up to the first read:
`filesize = request.filesize`, `offset = getsize(local_path)` — whatever `bytes_transfered` says —,
`bytes_transfered = offset`, offset sent, path claimed, DOWNLOADING,
`receive_file(handle, filesize - bytes_transfered)`; the FIXED `receive_file` returns at once when
nothing remains. Ghost: the attempt is served from the shared file as it is now. -/
def begin (d : Dl) (announced : Nat) (limited : Bool) : Dl :=
  let off := d.loc.length
  let d1 := { d with filesize := announced, offset := off, bt := off,
                     remaining := (announced : Int) - (off : Int), received := 0,
                     chunk := chunkOf limited, st := .downloading, closed := false, log := [],
                     hasPath := true, ann := announced, served := d.remote }
  if d1.remaining ≤ 0 then finish d1 else d1

/-- the file connection breaks after the ticket but before the offset went out: FIXED code puts the
download back to QUEUED (`_initialize_download`); `_download_file` (which claims the path) is not reached. -/
def beginCut (d : Dl) (announced : Nat) : Dl :=
  { d with filesize := announced, bt := d.loc.length, st := .queued, closed := true, log := [],
           ann := announced, served := d.remote }

/-- `read_cache()`: a transfer stored while DOWNLOADING comes back COMPLETE when the counter had reached the
size, INCOMPLETE otherwise; (INITIALIZING → QUEUED is not a state of this model); the rest as stored. -/
def Saved.restore (s : Saved) : DState :=
  match s.st with
  | .downloading => if s.filesize = s.bt then .complete else .incomplete
  | st => st

inductive Op
  | begin (announced : Nat) (limited : Bool)   -- request accepted, file connection, offset sent
  | beginCut (announced : Nat)                 -- … but the connection broke before the offset went out
  | seg (bs : Bytes)                           -- these bytes become readable
  | eof                                        -- the sender closed the connection
  | err                                        -- reset or read time-out (ConnectionReadError)
  | remote (F : Bytes)                         -- ghost: the uploader's shared file is replaced by `F`
  | pause                                      -- `pause()` while no chunk is on its way to the disk
  | pauseWrite (bs : Bytes)                    -- `bs` became readable, one read was taken and handed to the
                                               --   disk-write thread; `pause()` cancels the task before it counts it
  | queue                                      -- `queue()` by the user (PAUSED / INCOMPLETE / FAILED)
  | save                                       -- `write_cache()`
  | crash (keep : Nat)                         -- the process dies (of what this attempt wrote, `keep` bytes — at
                                               --   least the file as it was when opened — had reached the disk);
                                               --   a new instance loads the cache
deriving Repr

def step (d : Dl) : Op → Dl
  | .begin a lim => if canBegin d then begin d a lim else d
  | .beginCut a => if canBegin d then beginCut d a else d
  | .seg bs => if d.st = .downloading then drain bs.length d bs else d
  | .eof => if d.st = .downloading then finish d else d
  | .err => if d.st = .downloading then { d with st := .incomplete, closed := true } else d
  | .remote F => if d.st = .downloading then d else { d with remote := F }
  | .pause =>
    -- state.py: DownloadingState.pause cancels the task (→ disconnect), Queued/IncompleteState.pause
    if d.st = .downloading then { d with st := .paused, closed := true }
    else if d.st = .queued ∨ d.st = .incomplete then { d with st := .paused }
    else d
  | .pauseWrite bs =>
    -- connection.py `receive_file`: `await file_handle.write(data)` is where the cancellation lands; the
    -- progress callback never runs for `data`
    if d.st = .downloading then { d with loc := d.loc ++ bs.take d.chunk, st := .paused, closed := true } else d
  | .queue =>
    -- Paused/Incomplete/FailedState.queue (a COMPLETE download re-queued by the user starts a NEW file: not here)
    if d.st = .paused ∨ d.st = .incomplete ∨ d.st = .failedCancelled then { d with st := .queued } else d
  | .save => { d with saved := some { st := d.st, bt := d.bt, filesize := d.filesize, hasPath := d.hasPath } }
  | .crash keep =>
    match d.saved with
    | none => d
    | some s =>
      { d with st := s.restore, bt := s.bt, filesize := s.filesize, hasPath := s.hasPath,
               loc := if s.hasPath then
                        (if d.st = .downloading then d.loc.take (max keep d.offset) else d.loc)
                      else [],
               closed := if d.st = .downloading then true else d.closed }

def run (d : Dl) (ops : List Op) : Dl := ops.foldl step d

/-- An op list produced against an HONEST uploader of a file `F` that does not change: every request
announces `|F|`, and the bytes that become readable continue `F` where the local file ends (the uploader
seeks to the offset it was sent, TCP delivers in order). Cuts (`eof`, `err`, `beginCut`), user actions
(`pause`, `queue`) and restarts (`save`, `crash`) are unrestricted. -/
def Honest (F : Bytes) : Dl → List Op → Prop
  | _, [] => True
  | d, op :: ops =>
    (match op with
      | .begin a _ => a = F.length
      | .beginCut a => a = F.length
      | .seg bs => d.st = .downloading → bs <+: F.drop d.loc.length
      | .pauseWrite bs => d.st = .downloading → bs <+: F.drop d.loc.length
      | _ => True) ∧ Honest F (step d op) ops

/-- An honest uploader whose shared file CHANGES between attempts (`remote F'`): every request announces the
size the file has at that moment, and the attempt is served from that file, from the offset it was sent. -/
def HonestV : Dl → List Op → Prop
  | _, [] => True
  | d, op :: ops =>
    (match op with
      | .begin a _ => a = d.remote.length
      | .beginCut a => a = d.remote.length
      | .seg bs => d.st = .downloading → bs <+: d.served.drop d.loc.length
      | .pauseWrite bs => d.st = .downloading → bs <+: d.served.drop d.loc.length
      | _ => True) ∧ HonestV (step d op) ops

/-- … and the file only ever grows at its end (a log, a recording). -/
def Grows : Dl → List Op → Prop
  | _, [] => True
  | d, op :: ops =>
    (match op with
      | .remote F => d.remote <+: F
      | _ => True) ∧ Grows (step d op) ops

/-! ## Upload side -/

inductive UState
  | queued | sending | awaitEof | complete | failed
deriving DecidableEq, Repr

structure Ul where
  filesize : Nat      -- `transfer.filesize` (size of the shared file when the upload was added)
  bt : Nat            -- `transfer.bytes_transfered`
  offset : Nat        -- offset received from the downloader
  pos : Nat           -- position of the file handle
  sent : Bytes        -- ghost: bytes written to the socket in this attempt
  chunk : Nat
  st : UState
  peerClosed : Bool   -- ghost: `receive_until_eof` returned: the peer closed the connection in an orderly way
  puf : Nat := 0      -- ghost: `PeerUploadFailed` messages delivered to the peer connection so far
  notifying : Bool := false   -- `_upload_file` is inside `send_peer_messages(PeerUploadFailed)` (the task still runs)
deriving Repr

def Ul.init (F : Bytes) : Ul :=
  { filesize := F.length, bt := 0, offset := 0, pos := 0, sent := [], chunk := chunkOf false,
    st := .queued, peerClosed := false }

inductive UOp
  | begin (offset : Nat) (limited : Bool)   -- offset received: `bytes_transfered = offset`, UPLOADING, seek
  | chunk                                   -- one iteration of the `send_file` loop, write succeeded
  | werr                                    -- `send_data` raised ConnectionWriteError: FAILED, then the send of
                                            --   PeerUploadFailed begins (it may take long: a new peer connection)
  | closed                                  -- the peer closed the connection (EOF)
  | rerr                                    -- the connection broke / timed out (read error): as `werr`
  | told                                    -- … `send_peer_messages(PeerUploadFailed)` returned
  | untold                                  -- … it raised (PeerConnectionError: no connection to the peer /
                                            --   ConnectionWriteError: the connection died under the write)
  | requeue                                 -- the downloader asks again (`_on_peer_transfer_queue`): FAILED / COMPLETE → QUEUED
deriving Repr

/-- `_initialize_upload` from the received offset on: `bytes_transfered = offset`, UPLOADING, `seek(offset)`. -/
def ubegin (u : Ul) (off : Nat) (lim : Bool) : Ul :=
  { u with bt := off, offset := off, pos := off, sent := [], chunk := chunkOf lim, st := .sending,
           peerClosed := false }

def ustep (F : Bytes) (u : Ul) : UOp → Ul
  | .begin off lim =>
    -- (`manage_transfers` starts no second task while the one that is still notifying runs: `_is_running`)
    if (u.st = .queued ∨ u.st = .failed ∨ u.st = .complete) ∧ u.notifying = false then ubegin u off lim else u
  | .chunk =>
    if u.st = .sending then
      let data := (F.drop u.pos).take u.chunk
      if data = [] then { u with st := .awaitEof }      -- `if not data: return`, then `receive_until_eof`
      else { u with sent := u.sent ++ data, pos := u.pos + data.length, bt := u.bt + data.length }
    else u
  | .werr =>
    -- `_upload_file`, `except (ConnectionWriteError, ConnectionReadError)`: `await transfer.state.fail()` FIRST — from
    -- here on a re-request of the downloader re-queues the upload —, then the downloader is told
    if u.st = .sending then { u with st := .failed, notifying := true } else u
  | .closed =>
    if u.st = .awaitEof then
      { u with peerClosed := true, st := if u.filesize = u.bt then .complete else .failed }
    else u     -- while sending nobody reads: a closed peer shows up as a write error
  | .rerr =>
    -- FIXED `_upload_file` (fixes/C04-upload-eof-wait-read-error.patch): a connection that breaks while the
    -- uploader waits for the downloader's close is a failure like a write error: FAILED, PeerUploadFailed
    if u.st = .awaitEof then { u with st := .failed, notifying := true } else u
  | .told => if u.notifying then { u with notifying := false, puf := u.puf + 1 } else u
  | .untold =>
    -- FIXED `_upload_file` (fixes/C04-upload-failed-undelivered.patch): the downloader could not be told — it may be
    -- waiting for this uploader (its re-request was ignored while the upload ran): a still FAILED upload goes back
    -- to the queue and is offered again
    if u.notifying then { u with notifying := false, st := if u.st = .failed then .queued else u.st } else u
  | .requeue => if u.st = .failed ∨ u.st = .complete then { u with st := .queued } else u

def urun (F : Bytes) (u : Ul) (ops : List UOp) : Ul := ops.foldl (ustep F) u

/-! ## Retry control plane of a downloader / uploader pair

The messages that start, restart and give up attempts (transfer/manager.py: `manage_transfers`, `_queue_remotely`,
`_on_peer_transfer_queue`, `_initialize_upload`, `_on_peer_transfer_request`, `_initialize_download`,
`_on_peer_upload_failed`, the outcomes of `_download_file` / `_upload_file`) — the data plane of one attempt is the
model above and appears here only through its outcome. Both peer-message directions are FIFO (one `P` connection
each way), the file connection is separate: its events (`dLearn`, `uLearn`, `uEof`) interleave freely with the
messages. Tickets are not modelled: a stale reply is accepted where the code would drop it (more behaviours, the
invariant covers them). Faults are connection RESETS, seen by the two ends in either order, any time apart, and
control writes that FAIL (the writer is told: `uLearnMute`, `dCycleFail`, `dRecvFail`; a failing PeerTransferRequest
leaves the upload QUEUED — no change here); a message that a write ACCEPTED is delivered — losing one silently is not
repairable without acknowledgements. A
downloader that gives up by its own read time-out closes the connection in an orderly way — that path is NOT in the
alphabet (see the remark at `C04_pair_no_requeue_lost`). -/
namespace Ctl

/-- the download as the control plane sees it; `user` = PAUSED / ABORTED / FAILED with a reason: the user's turn -/
inductive D
  | queued | initializing | downloading | incomplete | complete | user
deriving DecidableEq, Repr

/-- the upload; `connecting` = reply received, file connection being made; `refused` = FAILED with the reason the
downloader gave (e.g. "Complete") -/
inductive U
  | none | queued | initializing | connecting | uploading | eofWait | failed | refused | complete
deriving DecidableEq, Repr

inductive ToU | ptq | replyOk | replyNo      -- PeerTransferQueue, PeerTransferReply(allowed / not)
deriving DecidableEq, Repr
inductive ToD | ptr | puf                    -- PeerTransferRequest, PeerUploadFailed
deriving DecidableEq, Repr

structure S where
  d : D
  rq : Bool            -- `download.remotely_queued`
  u : U
  toU : List ToU       -- in flight, oldest first
  toD : List ToD
deriving DecidableEq, Repr

def S.init : S := { d := .queued, rq := false, u := .none, toU := [], toD := [] }

inductive Op
  | dCycle       -- downloader's management cycle: QUEUED / INCOMPLETE and not remotely queued → PeerTransferQueue
  | uRecv        -- the uploader handles the oldest message in flight to it
  | uCycle       -- uploader's management cycle: a QUEUED upload is initialized → PeerTransferRequest
  | dRecv        -- the downloader handles the oldest message in flight to it
  | fUp          -- file connection made, ticket and offset exchanged: DOWNLOADING / UPLOADING
  | estFailD     -- the downloader waited 60 s for the file connection / could not send the offset → QUEUED
  | estFailU     -- no reply in time / cannot connect / no offset → the upload goes back to QUEUED
  | uWroteAll    -- `send_file` returned: the uploader waits for the downloader's close
  | dDone        -- the downloader has everything: closes the connection, COMPLETE
  | uEof         -- the uploader sees that orderly close
  | dLearn       -- FAULT: the downloader's end of the file connection reports the reset → INCOMPLETE
  | uLearn       -- FAULT: the uploader's end reports it (sending, or — FIXED — waiting for the close) → FAILED + PeerUploadFailed
  | uLearnMute   -- FAULT: … and PeerUploadFailed cannot be delivered (the peer connection broke too: the write fails /
                 --   no connection can be made) → FIXED: the upload goes back to the queue
  | dCycleFail   -- FAULT: the downloader's PeerTransferQueue cannot be written (`_queue_remotely`): → QUEUED, not remotely queued
  | dRecvFail    -- FAULT: the downloader handles the oldest message, but its reply cannot be written: an accepting
                 --   download goes back to QUEUED (`_initialize_download`), a refusal is lost
  | dUser        -- pause() / abort()
  | dQueue       -- queue() by the user
deriving DecidableEq, Repr

def retryable (d : D) : Bool := d = .queued || d = .incomplete

def step (s : S) : Op → S
  | .dCycle => if retryable s.d && !s.rq then { s with rq := true, toU := s.toU ++ [.ptq] } else s
  | .uRecv =>
    match s.toU with
    | [] => s
    | .ptq :: r =>
      -- `_on_peer_transfer_queue`: new / FAILED / COMPLETE → QUEUED; a transfer in the queue or being processed: no answer
      if s.u = .none ∨ s.u = .failed ∨ s.u = .refused ∨ s.u = .complete then { s with toU := r, u := .queued }
      else { s with toU := r }
    | .replyOk :: r => if s.u = .initializing then { s with toU := r, u := .connecting } else { s with toU := r }
    | .replyNo :: r => if s.u = .initializing then { s with toU := r, u := .refused } else { s with toU := r }
  | .uCycle => if s.u = .queued then { s with u := .initializing, toD := s.toD ++ [.ptr] } else s
  | .dRecv =>
    match s.toD with
    | [] => s
    | .ptr :: r =>
      -- `_on_peer_transfer_request`: QUEUED / INCOMPLETE go on; COMPLETE, PAUSED, ABORTED refuse; processing: no answer
      if retryable s.d then { s with toD := r, d := .initializing, toU := s.toU ++ [.replyOk] }
      else if s.d = .complete ∨ s.d = .user then { s with toD := r, toU := s.toU ++ [.replyNo] }
      else { s with toD := r }
    | .puf :: r => { s with toD := r, rq := false }       -- `_on_peer_upload_failed`
  | .fUp =>
    -- `start_transferring` → `reset_queue_vars`: remotely_queued = False
    if s.d = .initializing ∧ s.u = .connecting then { s with d := .downloading, rq := false, u := .uploading } else s
  | .estFailD => if s.d = .initializing then { s with d := .queued, rq := false } else s
  | .estFailU => if s.u = .initializing ∨ s.u = .connecting then { s with u := .queued } else s
  | .uWroteAll => if s.u = .uploading then { s with u := .eofWait } else s
  | .dDone => if s.d = .downloading ∧ s.u = .eofWait then { s with d := .complete } else s
  | .uEof => if s.u = .eofWait ∧ s.d = .complete then { s with u := .complete } else s
  | .dLearn => if s.d = .downloading then { s with d := .incomplete } else s
  | .uLearn =>
    if s.u = .uploading ∨ s.u = .eofWait then { s with u := .failed, toD := s.toD ++ [.puf] } else s
  | .uLearnMute =>
    -- FIXED `_upload_file` (fixes/C04-upload-failed-undelivered.patch); before: `u := .failed`, nothing in flight
    if s.u = .uploading ∨ s.u = .eofWait then { s with u := .queued } else s
  | .dCycleFail => if retryable s.d && !s.rq then { s with d := .queued } else s
  | .dRecvFail =>
    match s.toD with
    | [] => s
    | .ptr :: r => if retryable s.d then { s with toD := r, d := .queued, rq := false } else { s with toD := r }
    | .puf :: _ => s        -- nothing is written in answer to a PeerUploadFailed
  | .dUser => if s.d = .complete then s else { s with d := .user }
  | .dQueue => if s.d = .user ∨ s.d = .incomplete then { s with d := .queued, rq := false } else s

def run (s : S) (ops : List Op) : S := ops.foldl step s

/-- the uploader holds the request (it will send a PeerTransferRequest by itself, or is serving one) -/
def uHolds (u : U) : Bool :=
  u = .queued || u = .initializing || u = .connecting || u = .uploading || u = .eofWait

/-- … or will hold it once the messages in flight to it have been handled, whatever happens in between: a request
makes it hold, a refusal that is still on its way may take the upload out of the queue again -/
def settleU (holds : Bool) : List ToU → Bool
  | [] => holds
  | .ptq :: r => settleU true r
  | .replyNo :: r => settleU false r
  | .replyOk :: r => settleU holds r

/-- **no re-queue request is lost**: a download that waits for the uploader (believes it is queued remotely) is
right — the uploader holds the request or will when the messages in flight have arrived, or the message that ends
the belief (`PeerUploadFailed`) is in flight -/
def invB (s : S) : Bool :=
  (!(retryable s.d && s.rq) || settleU (uHolds s.u) s.toU || s.toD.contains .puf) &&
  (!(s.d = .downloading) || !s.rq)

/-- nothing in flight, no attempt under way: only the management cycles can act -/
def quiescent (s : S) : Bool :=
  s.toU.isEmpty && s.toD.isEmpty && !(s.d = .initializing) && !(s.d = .downloading) &&
  !(s.u = .initializing) && !(s.u = .connecting) && !(s.u = .uploading) && !(s.u = .eofWait)

/-- one fault-free round: the cycles run, every message is delivered, the attempt is made -/
def round : List Op :=
  [.dCycle, .uRecv, .uCycle, .dRecv, .uRecv, .fUp, .uWroteAll, .dDone, .uEof]

end Ctl

/-! ## Executable helpers for the driver -/

def DState.name : DState → String
  | .queued => "QUEUED" | .downloading => "DOWNLOADING" | .complete => "COMPLETE"
  | .incomplete => "INCOMPLETE" | .failedCancelled => "FAILED:Cancelled" | .paused => "PAUSED"

def UState.name : UState → String
  | .queued => "QUEUED" | .sending => "UPLOADING" | .awaitEof => "UPLOADING-EOFWAIT"
  | .complete => "COMPLETE" | .failed => "FAILED"

/-- test pattern shared with the harness: `((i % 251) * mul + (i / 251) * 7 + add) % 256`. -/
def pattern (mul add : Nat) (start len : Nat) : Bytes :=
  (List.range len).map fun k =>
    let i := start + k
    UInt8.ofNat (((i % 251) * mul + (i / 251) * 7 + add) % 256)

/-- FNV-1a, 32 bit -/
def fnv (bs : Bytes) : Nat :=
  bs.foldl (fun h b => ((h ^^^ b.toNat) * 16777619) % 4294967296) 2166136261

end AioslskVerif.FileXfer
