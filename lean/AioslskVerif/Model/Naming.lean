/-!
Model of `aioslsk/naming.py` (as repaired by fixes/C09-dot-components.patch,
fixes/C09-empty-filename.patch and fixes/C09-dangling-symlink.patch), `utils.split_remote_path`
(utils.py:29-31), `SharesManager.calculate_download_path` (shares/manager.py:785-797) and the
"choose a path and claim it" step of `TransferManager._prepare_download_path`
(transfer/manager.py:698-709 as repaired by fixes/C09-claim-download-path.patch and
fixes/C09-unclaimed-path-kept.patch).

Names are lists of characters, a directory is the list of components *below the download
directory* (`[]` is the download directory itself). POSIX path semantics (`os.sep = '/'`).

The code applies NO normalisation to a component after the `.`/`..`/empty filter (no strip, no case
or Unicode folding, no shortening): the model has none either, and `finalPath` below is the very
string the code hands to the operating system (`os.path.join` of the components). A normalisation
added later shows up as a disagreement of the correspondence (and of the final-path string).
-/
namespace AioslskVerif.Naming

abbrev Name := List Char
abbrev Path := List Name

/-- `constants.PATH_SEPERATOR_PATTERN = [\\/]+` -/
def isSep (c : Char) : Bool := c == '\\' || c == '/'

/-- `re.split(PATH_SEPERATOR_PATTERN, path)` with the empty parts dropped (utils.py:31):
the maximal runs of non-separator characters. `cur` is the current run, reversed. -/
def splitAux : List Char → List Char → List Name
  | [], cur => if cur.isEmpty then [] else [cur.reverse]
  | c :: cs, cur =>
    if isSep c then (if cur.isEmpty then splitAux cs [] else cur.reverse :: splitAux cs [])
    else splitAux cs (c :: cur)

def splitRemote (p : List Char) : List Name := splitAux p []

def dot : Name := ['.']
def dotdot : Name := ['.', '.']

/-- `naming.split_local_parts`: the `.` and `..` parts are dropped like the empty ones. -/
def localParts (p : List Char) : List Name :=
  (splitRemote p).filter (fun n => n != dot && n != dotdot)

/-! ### the download directory as the strategies see it -/

structure Entry where
  dir : Path
  name : Name
  isDir : Bool
deriving DecidableEq, Repr

/-- everything that exists below the download directory (which itself always exists) -/
abbrev Fs := List Entry

def Fs.has (fs : Fs) (d : Path) (n : Name) : Bool := fs.any (fun e => e.dir == d && e.name == n)

def Fs.dirExists (fs : Fs) (d : Path) : Bool :=
  d.isEmpty || fs.any (fun e => e.isDir && e.dir ++ [e.name] == d)

/-- `DuplicateNamingStrategy.should_be_applied`: `os.path.exists(p) or os.path.islink(p)` for
`p = os.path.join(dir, name)`, i.e. "the directory has an entry of that name" whatever the entry is
(a dangling symbolic link is an entry: fixes/C09-dangling-symlink.patch; the driver is handed links as
non-directory entries). For `''`, `.` and `..` the path names the directory itself (or its parent),
which exists iff the directory does. A name longer than `NAME_MAX` bytes is never an entry of a real
directory (`exists` answers False on ENAMETOOLONG). -/
def Fs.pathExists (fs : Fs) (d : Path) (n : Name) : Bool :=
  if n = [] ∨ n = dot ∨ n = dotdot then fs.dirExists d else fs.has d n

/-- `os.listdir(dir)` -/
def Fs.listdir (fs : Fs) (d : Path) : List Name := (fs.filter (fun e => e.dir == d)).map (·.name)

/-! ### NumberDuplicateStrategy (naming.py:63-87) -/

/-- `os.path.splitext` on a name without `/`: the extension starts at the last dot unless only
dots precede it (`genericpath._splitext`). -/
def splitext (n : Name) : Name × Name :=
  let r := n.reverse
  match r.dropWhile (· != '.') with
  | [] => (n, [])
  | c :: stemRev =>
    if stemRev.all (· == '.') then (n, [])
    else (stemRev.reverse, c :: (r.takeWhile (· != '.')).reverse)

def stripPrefix : List Char → List Char → Option (List Char)
  | [], s => some s
  | _ :: _, [] => none
  | p :: ps, c :: cs => if p = c then stripPrefix ps cs else none

/-- `re.match(re.escape(stem) + r' \((\d+)\)' + re.escape(ext), file)` → `int(group(1))`.
`re.match` anchors at the start only; the digit run must be the maximal one because `)` follows.
(ASCII digits; `\d` also accepts other Unicode decimal digits — not modelled.) -/
def matchIndex (stem ext file : Name) : Option Nat :=
  match stripPrefix (stem ++ [' ', '(']) file with
  | none => none
  | some r =>
    let ds := r.takeWhile Char.isDigit
    match r.dropWhile Char.isDigit with
    | ')' :: r' =>
      if ds.isEmpty then none
      else if (stripPrefix ext r').isSome then some (Nat.ofDigitChars 10 ds 0) else none
    | _ => none

/-- `f"{filename} ({next_index}){extension}"` -/
def numbered (stem ext : Name) (k : Nat) : Name :=
  stem ++ [' ', '('] ++ Nat.toDigits 10 k ++ [')'] ++ ext

/-- smallest `n ≥ start` not in `is`, looking at `fuel + 1` candidates -/
def firstFree (is : List Nat) : Nat → Nat → Nat
  | start, 0 => start
  | start, fuel + 1 => if is.contains start then firstFree is (start + 1) fuel else start

/-- naming.py:78-84: `1` without indices, else `min(set(range(min, max + 2)) - set(indices))`. -/
def nextIndex (is : List Nat) : Nat :=
  match is with
  | [] => 1
  | i :: rest =>
    let lo := rest.foldl min i
    let hi := rest.foldl max i
    firstFree is lo (hi + 1 - lo)

/-! ### the strategies and `chain_strategies` -/

inductive Strategy
  | default | keepDir | number
deriving DecidableEq, Repr

inductive Err
  | noName      -- IndexError: the remote path has no usable component
  | emptyName   -- ValueError of chain_strategies: no strategy produced a file name
deriving DecidableEq, Repr

/-- `contained_dir.startswith('@@')` -/
def isAlias : Name → Bool
  | '@' :: '@' :: _ => true
  | _ => false

def isAsciiAlpha (c : Char) : Bool := ('a' ≤ c && c ≤ 'z') || ('A' ≤ c && c ≤ 'Z')

/-- `re.match(r'[a-zA-Z]{1}:', contained_dir)` -/
def isDrive : Name → Bool
  | c :: ':' :: _ => isAsciiAlpha c
  | _ => false

/-- `strategy.apply` guarded by `strategy.should_be_applied` (naming.py:30-87, 103-104) -/
def applyStrategy (fs : Fs) (remote : List Char) (st : Path × Name) : Strategy → Except Err (Path × Name)
  | .default =>
    match (localParts remote).getLast? with
    | none => .error .noName
    | some n => .ok (st.1, n)
  | .keepDir =>
    match (localParts remote).reverse with
    | [] => .error .noName
    | [_] => .ok st
    | _ :: c :: _ => if isAlias c || isDrive c then .ok st else .ok (st.1 ++ [c], st.2)
  | .number =>
    if fs.pathExists st.1 st.2 then
      let se := splitext st.2
      let idx := (fs.listdir st.1).filterMap (matchIndex se.1 se.2)
      .ok (st.1, numbered se.1 se.2 (nextIndex idx))
    else .ok st

def chainAux (fs : Fs) (remote : List Char) : List Strategy → Path × Name → Except Err (Path × Name)
  | [], st => .ok st
  | s :: ss, st =>
    match applyStrategy fs remote st s with
    | .error e => .error e
    | .ok st' => chainAux fs remote ss st'

/-- `chain_strategies(strategies, remote_path, download_dir)` (naming.py:99-119) -/
def chain (fs : Fs) (strategies : List Strategy) (remote : List Char) : Except Err (Path × Name) :=
  match chainAux fs remote strategies ([], []) with
  | .error e => .error e
  | .ok st => if st.2.isEmpty then .error .emptyName else .ok st

/-! ### what the property talks about -/

/-- a name that can only denote an entry of the directory it is joined to -/
def Regular (n : Name) : Prop := n ≠ [] ∧ n ≠ dot ∧ n ≠ dotdot ∧ ∀ c ∈ n, isSep c = false

/-- Lexical walk of `components` starting `depth` levels below the download directory:
`none` as soon as a step leaves the download directory. -/
def walk : List Name → Nat → Option Nat
  | [], d => some d
  | c :: cs, d =>
    if c = [] ∨ c = dot then walk cs d
    else if c = dotdot then (match d with | 0 => none | d' + 1 => walk cs d')
    else walk cs (d + 1)

/-! ### the final joined path, as a string, and what the operating system makes of it -/

/-- `os.path.join(a, b)` (posixpath.join) where `a` is written relative to the download directory
(`[]` = the download directory itself: an absolute path that does not end in `/`).
`none`: `b` is absolute — `join` would throw the download directory away. -/
def osJoin (a : List Char) (b : Name) : Option (List Char) :=
  if b.head? = some '/' then none
  else if a.getLast? = some '/' then some (a ++ b) else some (a ++ '/' :: b)

def joinAll : List Char → List Name → Option (List Char)
  | a, [] => some a
  | a, c :: cs =>
    match osJoin a c with
    | none => none
    | some a' => joinAll a' cs

/-- `transfer.local_path = os.path.join(download_path, file_path)` (transfer/manager.py:701) where
`download_path` was built by `os.path.join(local_dir, contained_dir)` (naming.py:61), minus the
download directory prefix: the string that is opened. -/
def finalPath (d : Path) (n : Name) : Option (List Char) := joinAll [] (d ++ [n])

/-- the parts of a path string between `/` (empty parts kept); `cur` is the current part, reversed -/
def splitSlash : List Char → List Char → List Name
  | [], cur => [cur.reverse]
  | c :: cs, cur => if c = '/' then cur.reverse :: splitSlash cs [] else splitSlash cs (c :: cur)

/-- path resolution of the kernel / `os.path.normpath` below the download directory (no symbolic
links): `''` and `.` stay, `..` goes up, anything else goes down. `st` = where we are (innermost
first). `none`: the walk left the download directory. -/
def walkUp : List Name → List Name → Option (List Name)
  | [], st => some st.reverse
  | c :: cs, st =>
    if c = [] ∨ c = dot then walkUp cs st
    else if c = dotdot then (match st with | [] => none | _ :: st' => walkUp cs st')
    else walkUp cs (c :: st)

/-- where the string `s` (relative to the download directory) leads: the names below the download
directory, outermost first; `some []` is the download directory itself. -/
def resolve (s : List Char) : Option (List Name) := walkUp (splitSlash s []) []

/-! ### concurrent downloads: choose and claim (transfer/manager.py:698-709) -/

/-- `NAME_MAX` of the common file systems (ext4, btrfs, xfs, tmpfs, NTFS, APFS), in bytes -/
def nameMax : Nat := 255

/-- length of `os.fsencode(name)` (UTF-8) -/
def utf8Len (n : Name) : Nat := n.foldl (fun a c => a + c.utf8Size) 0

/-- creating an entry of that name fails with ENAMETOOLONG -/
def tooLong (n : Name) : Bool := decide (nameMax < utf8Len n)

/-- `os.makedirs(path, exist_ok=True)` for the components `cs` below `base`: the directory content
afterwards (the directories made before a failure stay) and whether it succeeded. It fails (OSError)
when a non-directory is in the way or a component that has to be made is longer than `NAME_MAX`. -/
def mkdirs (fs : Fs) (base : Path) : List Name → Fs × Bool
  | [] => (fs, true)
  | c :: cs =>
    match fs.find? (fun e => e.dir == base && e.name == c) with
    | some e => if e.isDir then mkdirs fs (base ++ [c]) cs else (fs, false)
    | none =>
      if tooLong c then (fs, false)
      else mkdirs ({ dir := base, name := c, isDir := true } :: fs) (base ++ [c]) cs

/-- an OSError injected into the claiming step (EMFILE, ENOSPC, EACCES …) -/
inductive Fault
  | none
  | makedirs   -- `os.makedirs` raises
  | open       -- the claiming `open(local_path, 'ab')` raises
deriving DecidableEq, Repr

/-- `os.makedirs(download_path, exist_ok=True); open(local_path, 'ab').close()`
(transfer/manager.py:705-706): content afterwards, and whether the path is now claimed. -/
def claim (fs : Fs) (d : Path) (n : Name) (fault : Fault) : Fs × Bool :=
  if fault = .makedirs then (fs, false) else
  match mkdirs fs [] d with
  | (fs', false) => (fs', false)
  | (fs', true) =>
    if fault = .open then (fs', false) else
    match fs'.find? (fun e => e.dir == d && e.name == n) with
    | some e => (fs', !e.isDir)
    | none => if tooLong n then (fs', false) else ({ dir := d, name := n, isDir := false } :: fs', true)

/-- what a download that holds a `local_path` is doing -/
inductive Status
  | running    -- its `_download_file` task is between "path claimed" and its end
  | complete   -- all bytes received (COMPLETE); queueing it again forgets the path (state.py:305-310)
  | broken     -- ended early (INCOMPLETE / FAILED after the claim): the path is kept and resumed
  | gone       -- COMPLETE, and the user has since moved the file away: the path is still stored, nothing is there
deriving DecidableEq, Repr

/-- a download that holds a `local_path` -/
structure Dl where
  id : Nat
  dir : Path
  name : Name
  status : Status
deriving DecidableEq, Repr

structure Sys where
  fs : Fs
  dls : List Dl
deriving Repr

inductive Op
  /-- the `_download_file` task of download `id` runs up to its first suspension (first start, or
  started again after it ended); `fault`: an OSError hits the claiming step -/
  | start (id : Nat) (remote : List Char) (fault : Fault)
  | finish (id : Nat)                       -- the task ends, all bytes received (the file stays)
  | cut (id : Nat)                          -- the task ends early: connection lost (the file stays)
  /-- the user moves the file of a COMPLETED download out of the download directory (what users do with completed
  files); the transfer object still stores the path -/
  | remove (id : Nat)
  /-- `TransferManager.queue(transfer)` on a download whose task has ended, WITHOUT starting it yet (the peer is busy
  or offline): `CompleteState.queue` forgets the local path (`reset_local_vars`, state.py:305-310) whether or not the
  file is still there; every other state keeps it -/
  | requeue (id : Nat)
  /-- `TransferManager.abort(transfer)` on a download that ended early (INCOMPLETE, or queued again and waiting): the
  partial file is deleted and the path forgotten (`_remove_local_file`, state.py:32-44) -/
  | abort (id : Nat)
deriving Repr

inductive Outcome
  | chosen (d : Path) (n : Name)
  | resumed (d : Path) (n : Name)
  | refused (e : Err)
  | oserror (d : Path) (n : Name)
  | busy
  | done
  | removed
  | noop
deriving Repr

def Sys.find (s : Sys) (id : Nat) : Option Dl := s.dls.find? (·.id == id)

def Sys.drop (s : Sys) (id : Nat) : List Dl := s.dls.filter (·.id != id)

/-- the download `id`, if its status is `old`, gets status `new` (its path is untouched) -/
def setStatus (id : Nat) (old new : Status) (dls : List Dl) : List Dl :=
  dls.map (fun a => if a.id == id && a.status == old then { a with status := new } else a)

/-- `if transfer.local_path is None:` choose and claim; only a claimed path is stored
(fixes/C09-unclaimed-path-kept.patch). `rest` = the other downloads that hold a path. -/
def chooseAndClaim (strategies : List Strategy) (fs : Fs) (rest : List Dl) (id : Nat) (remote : List Char)
    (fault : Fault) : Sys × Outcome :=
  match chain fs strategies remote with
  | .error e => ({ fs := fs, dls := rest }, .refused e)
  | .ok (d, n) =>
    match claim fs d n fault with
    | (fs', false) => ({ fs := fs', dls := rest }, .oserror d n)
    | (fs', true) => ({ fs := fs', dls := { id := id, dir := d, name := n, status := .running } :: rest }, .chosen d n)

def step (strategies : List Strategy) (s : Sys) : Op → Sys × Outcome
  | .start id remote fault =>
    match s.find id with
    | some a =>
      match a.status with
      | .running => (s, .busy)
      | .broken =>      -- `local_path` is set: no choice, `aiofiles.open(local_path, 'ab')` appends
        ({ s with dls := setStatus id .broken .running s.dls }, .resumed a.dir a.name)
      | .complete =>     -- CompleteState.queue(): reset_local_vars(), then as a new download
        chooseAndClaim strategies s.fs (s.drop id) id remote fault
      | .gone => chooseAndClaim strategies s.fs (s.drop id) id remote fault
    | none => chooseAndClaim strategies s.fs s.dls id remote fault
  | .finish id => ({ s with dls := setStatus id .running .complete s.dls }, .done)
  | .cut id => ({ s with dls := setStatus id .running .broken s.dls }, .done)
  | .remove id =>
    match s.find id with
    | some a =>
      if a.status = .complete then
        -- the file is there to be moved (with a chain that does not end in the number-duplicate strategy two downloads
        -- may hold the same path, and the file may have gone with the other one)
        if s.fs.any (fun e => e.dir == a.dir && e.name == a.name && !e.isDir) then
          ({ fs := s.fs.filter (fun e => !(e.dir == a.dir && e.name == a.name)),
             dls := setStatus id .complete .gone s.dls }, .removed)
        else (s, .noop)
      else (s, .noop)
    | none => (s, .noop)
  | .abort id =>
    match s.find id with
    | some a =>
      if a.status = .broken then
        ({ fs := s.fs.filter (fun e => !(e.dir == a.dir && e.name == a.name)), dls := s.drop id }, .removed)
      else (s, .noop)
    | none => (s, .noop)
  | .requeue id =>
    match s.find id with
    | some a => if a.status = .complete ∨ a.status = .gone then ({ s with dls := s.drop id }, .done) else (s, .done)
    | none => (s, .done)

def run (strategies : List Strategy) (s : Sys) (ops : List Op) : Sys :=
  ops.foldl (fun s op => (step strategies s op).1) s

/-- the downloads whose task is running: "active at the same time" -/
def Sys.active (s : Sys) : List Dl := s.dls.filter (·.status == .running)

end AioslskVerif.Naming
