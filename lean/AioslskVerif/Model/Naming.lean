/-!
Model of `aioslsk/naming.py` (as repaired by fixes/C09-dot-components.patch and
fixes/C09-empty-filename.patch), `utils.split_remote_path` (utils.py:29-31),
`SharesManager.calculate_download_path` (shares/manager.py:774-786) and the
"choose a path and claim it" step of `TransferManager._prepare_download_path`
(transfer/manager.py:677-688 as repaired by fixes/C09-claim-download-path.patch).

Names are lists of characters, a directory is the list of components *below the download
directory* (`[]` is the download directory itself). POSIX path semantics (`os.sep = '/'`).
-/
namespace AioslskVerif.Naming

abbrev Name := List Char
abbrev Path := List Name

/-- `constants.PATH_SEPERATOR_PATTERN = [\\/]+` -/
def isSep (c : Char) : Bool := c == '\\' || c == '/'

/-- `re.split(PATH_SEPERATOR_PATTERN, path)` with the empty parts dropped (utils.py:31):
the maximal runs of non-separator characters. `cur` is the current run, reversed. -/
def splitAux : List Char → List Char → List Name
  | [], cur => if cur.isEmpty then [] else [cur.reverse]
  | c :: cs, cur =>
    if isSep c then (if cur.isEmpty then splitAux cs [] else cur.reverse :: splitAux cs [])
    else splitAux cs (c :: cur)

def splitRemote (p : List Char) : List Name := splitAux p []

def dot : Name := ['.']
def dotdot : Name := ['.', '.']

/-- `naming.split_local_parts`: the `.` and `..` parts are dropped like the empty ones. -/
def localParts (p : List Char) : List Name :=
  (splitRemote p).filter (fun n => n != dot && n != dotdot)

/-! ### the download directory as the strategies see it -/

structure Entry where
  dir : Path
  name : Name
  isDir : Bool
deriving DecidableEq, Repr

/-- everything that exists below the download directory (which itself always exists) -/
abbrev Fs := List Entry

def Fs.has (fs : Fs) (d : Path) (n : Name) : Bool := fs.any (fun e => e.dir == d && e.name == n)

def Fs.dirExists (fs : Fs) (d : Path) : Bool :=
  d.isEmpty || fs.any (fun e => e.isDir && e.dir ++ [e.name] == d)

/-- `os.path.exists(os.path.join(dir, name))`; for `''`, `.` and `..` the path names the directory
itself (or its parent), which exists iff the directory does. -/
def Fs.pathExists (fs : Fs) (d : Path) (n : Name) : Bool :=
  if n = [] ∨ n = dot ∨ n = dotdot then fs.dirExists d else fs.has d n

/-- `os.listdir(dir)` -/
def Fs.listdir (fs : Fs) (d : Path) : List Name := (fs.filter (fun e => e.dir == d)).map (·.name)

/-! ### NumberDuplicateStrategy (naming.py:63-87) -/

/-- `os.path.splitext` on a name without `/`: the extension starts at the last dot unless only
dots precede it (`genericpath._splitext`). -/
def splitext (n : Name) : Name × Name :=
  let r := n.reverse
  match r.dropWhile (· != '.') with
  | [] => (n, [])
  | c :: stemRev =>
    if stemRev.all (· == '.') then (n, [])
    else (stemRev.reverse, c :: (r.takeWhile (· != '.')).reverse)

def stripPrefix : List Char → List Char → Option (List Char)
  | [], s => some s
  | _ :: _, [] => none
  | p :: ps, c :: cs => if p = c then stripPrefix ps cs else none

/-- `re.match(re.escape(stem) + r' \((\d+)\)' + re.escape(ext), file)` → `int(group(1))`.
`re.match` anchors at the start only; the digit run must be the maximal one because `)` follows.
(ASCII digits; `\d` also accepts other Unicode decimal digits — not modelled.) -/
def matchIndex (stem ext file : Name) : Option Nat :=
  match stripPrefix (stem ++ [' ', '(']) file with
  | none => none
  | some r =>
    let ds := r.takeWhile Char.isDigit
    match r.dropWhile Char.isDigit with
    | ')' :: r' =>
      if ds.isEmpty then none
      else if (stripPrefix ext r').isSome then some (Nat.ofDigitChars 10 ds 0) else none
    | _ => none

/-- `f"{filename} ({next_index}){extension}"` -/
def numbered (stem ext : Name) (k : Nat) : Name :=
  stem ++ [' ', '('] ++ Nat.toDigits 10 k ++ [')'] ++ ext

/-- smallest `n ≥ start` not in `is`, looking at `fuel + 1` candidates -/
def firstFree (is : List Nat) : Nat → Nat → Nat
  | start, 0 => start
  | start, fuel + 1 => if is.contains start then firstFree is (start + 1) fuel else start

/-- naming.py:78-84: `1` without indices, else `min(set(range(min, max + 2)) - set(indices))`. -/
def nextIndex (is : List Nat) : Nat :=
  match is with
  | [] => 1
  | i :: rest =>
    let lo := rest.foldl min i
    let hi := rest.foldl max i
    firstFree is lo (hi + 1 - lo)

/-! ### the strategies and `chain_strategies` -/

inductive Strategy
  | default | keepDir | number
deriving DecidableEq, Repr

inductive Err
  | noName      -- IndexError: the remote path has no usable component
  | emptyName   -- ValueError of chain_strategies: no strategy produced a file name
deriving DecidableEq, Repr

/-- `contained_dir.startswith('@@')` -/
def isAlias : Name → Bool
  | '@' :: '@' :: _ => true
  | _ => false

def isAsciiAlpha (c : Char) : Bool := ('a' ≤ c && c ≤ 'z') || ('A' ≤ c && c ≤ 'Z')

/-- `re.match(r'[a-zA-Z]{1}:', contained_dir)` -/
def isDrive : Name → Bool
  | c :: ':' :: _ => isAsciiAlpha c
  | _ => false

/-- `strategy.apply` guarded by `strategy.should_be_applied` (naming.py:30-87, 103-104) -/
def applyStrategy (fs : Fs) (remote : List Char) (st : Path × Name) : Strategy → Except Err (Path × Name)
  | .default =>
    match (localParts remote).getLast? with
    | none => .error .noName
    | some n => .ok (st.1, n)
  | .keepDir =>
    match (localParts remote).reverse with
    | [] => .error .noName
    | [_] => .ok st
    | _ :: c :: _ => if isAlias c || isDrive c then .ok st else .ok (st.1 ++ [c], st.2)
  | .number =>
    if fs.pathExists st.1 st.2 then
      let se := splitext st.2
      let idx := (fs.listdir st.1).filterMap (matchIndex se.1 se.2)
      .ok (st.1, numbered se.1 se.2 (nextIndex idx))
    else .ok st

def chainAux (fs : Fs) (remote : List Char) : List Strategy → Path × Name → Except Err (Path × Name)
  | [], st => .ok st
  | s :: ss, st =>
    match applyStrategy fs remote st s with
    | .error e => .error e
    | .ok st' => chainAux fs remote ss st'

/-- `chain_strategies(strategies, remote_path, download_dir)` (naming.py:99-119) -/
def chain (fs : Fs) (strategies : List Strategy) (remote : List Char) : Except Err (Path × Name) :=
  match chainAux fs remote strategies ([], []) with
  | .error e => .error e
  | .ok st => if st.2.isEmpty then .error .emptyName else .ok st

/-! ### what the property talks about -/

/-- a name that can only denote an entry of the directory it is joined to -/
def Regular (n : Name) : Prop := n ≠ [] ∧ n ≠ dot ∧ n ≠ dotdot ∧ ∀ c ∈ n, isSep c = false

/-- Lexical walk of `components` starting `depth` levels below the download directory:
`none` as soon as a step leaves the download directory. -/
def walk : List Name → Nat → Option Nat
  | [], d => some d
  | c :: cs, d =>
    if c = [] ∨ c = dot then walk cs d
    else if c = dotdot then (match d with | 0 => none | d' + 1 => walk cs d')
    else walk cs (d + 1)

/-! ### concurrent downloads: choose and claim (transfer/manager.py:677-688) -/

/-- `os.makedirs(path, exist_ok=True)` for the components `cs` below `base`; `none` = OSError
(a file is in the way). -/
def mkdirs (fs : Fs) (base : Path) : List Name → Option Fs
  | [] => some fs
  | c :: cs =>
    match fs.find? (fun e => e.dir == base && e.name == c) with
    | some e => if e.isDir then mkdirs fs (base ++ [c]) cs else none
    | none => mkdirs ({ dir := base, name := c, isDir := true } :: fs) (base ++ [c]) cs

/-- `os.makedirs(download_path, exist_ok=True); open(local_path, 'ab').close()` -/
def claim (fs : Fs) (d : Path) (n : Name) : Option Fs :=
  match mkdirs fs [] d with
  | none => none
  | some fs' =>
    match fs'.find? (fun e => e.dir == d && e.name == n) with
    | some e => if e.isDir then none else some fs'
    | none => some ({ dir := d, name := n, isDir := false } :: fs')

structure Active where
  id : Nat
  dir : Path
  name : Name
deriving DecidableEq, Repr

structure Sys where
  fs : Fs
  active : List Active
deriving Repr

inductive Op
  | start (id : Nat) (remote : List Char)   -- a download task runs up to its first suspension
  | finish (id : Nat)                       -- the download ends (the file stays)
deriving Repr

inductive Outcome
  | chosen (d : Path) (n : Name)
  | refused (e : Err)
  | oserror (d : Path) (n : Name)
  | busy
  | done
deriving Repr

def step (strategies : List Strategy) (s : Sys) : Op → Sys × Outcome
  | .start id remote =>
    if s.active.any (·.id == id) then (s, .busy) else
    match chain s.fs strategies remote with
    | .error e => (s, .refused e)
    | .ok (d, n) =>
      match claim s.fs d n with
      | none => (s, .oserror d n)
      | some fs' => ({ fs := fs', active := { id := id, dir := d, name := n } :: s.active }, .chosen d n)
  | .finish id => ({ s with active := s.active.filter (·.id != id) }, .done)

def run (strategies : List Strategy) (s : Sys) (ops : List Op) : Sys :=
  ops.foldl (fun s op => (step strategies s op).1) s

end AioslskVerif.Naming
