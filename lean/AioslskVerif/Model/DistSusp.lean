import AioslskVerif.Model.Dist
/-!
Small-step layer over `Model/Dist.lean`: **suspended sends** and **failing child writes**.

`Model/Dist.lean` runs every handler of `DistributedNetwork` to completion (one `step` per handler). The handlers
`await` their sends; what the code does when such a send does not return at once is part of its own logic:

* **sends to the server** (`Network.send_server_messages`, awaited): the frame is written to the socket at once
  (`connection.py:_send`: `write`, then `await drain()`); the handler continues only when the socket has drained.
  What a handler still does *after* its server send is a continuation (`Cont`):
    - `_set_parent` (202-203), the parent re-announcing (458-459, 483-484), `_on_session_initialized` (609-612):
      after `_notify_server_of_parent` comes `_notify_children_of_branch_values`, which reads the advertised values
      **when it runs** → `Cont.tellAdv`;
    - `_unset_parent` (244-252): the user name is read *before* the send, afterwards the children are sent
      `(0, that name)`, then `_on_state_changed` (639-643) removes the closed connection from `children` and
      `distributed_peers` → `Cont.unsetTail c me`; until then the connection is still listed (`closing`);
    - `_on_get_user_stats` (551-565) and `_request_user_stats` (580-583) do nothing after their send: **the admission
      limits are assigned before `AcceptChildren` is sent** — they bind in the step that handles the stats message
      (`Dist.onUserStats`, unchanged here; see `Spec/DistLimits.lean`).
  While the server socket does not drain (`srvBlocked`) continuations queue up in `pend`; when it drains
  (`XOp.srvRelease`) they run in the order in which they were suspended (asyncio wakes drain waiters first-in
  first-out). Everything else is handled meanwhile.
* **sends to children** (`send_messages_to_children`, 649-651) are *not* awaited: one task per child and message is
  created synchronously (`queue_messages`), every child in the list at that moment gets its own. A child socket that
  does not drain therefore suspends no handler (`XOp.childBlock` / `childRelease` change nothing); a child whose socket
  is dead (`armed`: the next write raises) fails in its own task: `_send` disconnects the connection (WRITE_ERROR),
  its `CLOSED` event removes it from `children` and `distributed_peers` — nobody else is affected (`tell`).

With `srvBlocked = false` and nothing `armed` this layer is the atomic model (`Proofs/DistSusp.lean: xstep_base`).
A connection whose `CLOSED` event is being handled (`closing`) delivers nothing any more (the reader loop has
ended, `connection.py:314`), `xstep` ignores such ops.
-/
namespace AioslskVerif.Dist

/-- the rest of a handler that is suspended in a send to the server -/
inductive Cont
  /-- `_notify_children_of_branch_values()` -/
  | tellAdv
  /-- `send_messages_to_children(DistributedBranchLevel(0), DistributedBranchRoot(me))`, then the tail of
  `_on_state_changed` for the closed parent connection `c` -/
  | unsetTail (c : ConnId) (me : Name)
deriving Repr, DecidableEq

structure XState where
  d : DState
  /-- the server socket does not drain: a handler that sends to the server is suspended after the write -/
  srvBlocked : Bool := false
  /-- suspended handlers, oldest first -/
  pend : List Cont := []
  /-- closed connections whose `CLOSED` handler is suspended (still in `distributed_peers`) -/
  closing : List ConnId := []
  /-- connections whose socket is dead without the library knowing: the next write to it raises -/
  armed : List ConnId := []

def XState.init : XState := { d := Dist.init }

/-- the connection is registered and its `CLOSED` event has not been seen -/
def XState.alive (x : XState) (c : ConnId) : Prop := c ∈ x.d.live ∧ c ∉ x.closing

/-- `send_messages_to_children(DistributedBranchLevel(a.level), DistributedBranchRoot(a.root))` (649-651):
every child in the list gets its own write tasks; a child with a dead socket is not reached and goes away. -/
def tell (x : XState) (a : Adv) : XState :=
  let d := x.d
  { x with d := { d with
      toldL := fun c => if c ∈ d.children ∧ c ∉ x.armed then some a.level else d.toldL c
      toldR := fun c => if c ∈ d.children ∧ c ∉ x.armed then some a.root else d.toldR c
      nL := fun c => if c ∈ d.children ∧ c ∉ x.armed then d.nL c + 1 else d.nL c
      nR := fun c => if c ∈ d.children ∧ c ∉ x.armed then d.nR c + 1 else d.nR c
      children := d.children.filter (fun c => decide (c ∉ x.armed))
      live := d.live.filter (fun c => decide (¬ (c ∈ d.children ∧ c ∈ x.armed))) } }

/-- `_notify_children_of_branch_values` (272-277); without a session `_get_advertised_branch_values` raises -/
def notifyChildrenX (x : XState) : XState :=
  match x.d.session with
  | some me => tell x (x.d.adv me)
  | none => x

/-- `_remove_child` + `distributed_peers.remove` (639-643) -/
def dropConn (d : DState) (c : ConnId) : DState :=
  { d with children := d.children.erase c, live := d.live.erase c }

/-- a suspended handler resumes -/
def runCont (x : XState) : Cont → XState
  | .tellAdv => notifyChildrenX x
  | .unsetTail c me =>
    let x1 := tell x ⟨0, me⟩
    { x1 with d := dropConn x1.d c, closing := x1.closing.filter (fun e => decide (e ≠ c)) }

/-- `await self._notify_server_of_parent()` followed by the rest `k` of the handler. Without a session
`_get_advertised_branch_values` raises and the handler is abandoned. The three frames are written at once;
the handler goes on when the socket has drained. -/
def serverThen (x : XState) (k : Cont) : XState :=
  match x.d.session with
  | none => x
  | some _ =>
    let x1 := { x with d := notifyServer x.d }
    if x.srvBlocked then { x1 with pend := x1.pend ++ [k] } else runCont x1 k

/-- `_on_state_changed`, distributed connection `CLOSED` (617-643) -/
def closePeerX (x : XState) (c : ConnId) : XState :=
  if c ∈ x.d.live then
    if x.d.parent = some c then
      let d1 := { x.d with parent := none }
      match x.d.session with
      | some me => serverThen { x with d := d1, closing := c :: x.closing } (.unsetTail c me)
      | none => { x with d := dropConn d1 c }                    -- `_unset_parent` returns early (240-242)
    else { x with d := dropConn x.d c }
  else x

/-- `_set_parent` (174-203); connections whose `CLOSED` handler is suspended are not registered with the network
any more, so they are not disconnected (again) here -/
def setParentX (x : XState) (c : ConnId) : XState :=
  let d := x.d
  serverThen { x with d := { d with parent := some c,
                                    live := d.live.filter (fun e => decide (e = c ∨ e ∈ d.children ∨ e ∈ x.closing)) } }
    .tellAdv

/-- `_check_if_new_parent` (205-217) -/
def checkNewParentX (x : XState) (c : ConnId) : XState :=
  if (x.d.level c).isSome ∧ (x.d.root c).isSome then
    if x.d.parent = none ∧ x.d.isChildName (x.d.name c) = false then setParentX x c else closePeerX x c
  else x

/-- `_on_distributed_branch_level` (437-459) -/
def onLevelX (x : XState) (c : ConnId) (n : Nat) : XState :=
  let d := x.d
  if c ∈ d.live then
    let x1 := { x with d := { d with level := upd d.level c (some n),
                                     root := if n = 0 then upd d.root c (some (d.name c)) else d.root } }
    if d.parent = some c then serverThen x1 .tellAdv else checkNewParentX x1 c
  else x

/-- `_on_distributed_branch_root` (461-484) -/
def onRootX (x : XState) (c : ConnId) (r : Name) : XState :=
  let d := x.d
  if c ∈ d.live then
    if d.root c = some r then x
    else
      let x1 := { x with d := { d with root := upd d.root c (some r) } }
      if d.parent = some c then serverThen x1 .tellAdv else checkNewParentX x1 c
  else x

/-- `reset` (162-165) -/
def resetX (x : XState) : XState :=
  let x1 := x.d.children.foldl closePeerX x
  match x1.d.parent with
  | some c => closePeerX x1 c
  | none => x1

inductive XOp
  /-- an event of the atomic model; its handler runs until it ends or is suspended in a send to the server -/
  | base (op : Op)
  /-- the server socket stops draining -/
  | srvBlock
  /-- the server socket drains: the suspended handlers resume, oldest first -/
  | srvRelease
  /-- the socket of connection `c` dies unnoticed: the next write to it raises -/
  | arm (c : ConnId)
  /-- the socket of connection `c` stops / resumes draining: no handler waits for a child (649-651) -/
  | childBlock (c : ConnId)
  | childRelease (c : ConnId)
deriving Repr

def xstep (x : XState) : XOp → XState
  | .base op =>
    match op with
    | .level c n => if c ∈ x.closing then x else onLevelX x c n
    | .root c r => if c ∈ x.closing then x else onRootX x c r
    | .closed c => if c ∈ x.closing then x else closePeerX x c
    | .resetDistributed => resetX x
    | .sessionInit me => serverThen { x with d := { x.d with session := some me } } .tellAdv     -- 607-612
    | .potentialParents _ | .initialized _ _ | .userStats _ _ | .minSpeed _ | .speedRatio _
    | .sessionDestroyed | .serverStateChange => { x with d := step x.d op }
  | .srvBlock => { x with srvBlocked := true }
  | .srvRelease => x.pend.foldl runCont { x with srvBlocked := false, pend := [] }
  | .arm c => { x with armed := c :: x.armed }
  | .childBlock _ => x
  | .childRelease _ => x

def xrun (ops : List XOp) : XState := ops.foldl xstep XState.init

/-- frames written to the server so far (used by the driver to see that a handler sent to the server) -/
def DState.serverFrames (d : DState) : Nat := d.nNotify + d.nAccept + d.nStatsReq

end AioslskVerif.Dist
