import AioslskVerif.Generated.SchedConstants
/-!
# Upload scheduling model (C05)

Transcribes `TransferManager.manage_transfers`, `_get_queued_transfers`, `_prioritize_uploads`,
`get_free_upload_slots` (src/aioslsk/transfer/manager.py:391-426, 556-589, 625-710; line numbers as of /repo 7e50894) and the state changes of an
upload (transfer/state.py) as seen by the scheduler.  The code modelled is the tree **with**
`fixes/C06-single-flight.patch` (a transfer whose task slot still holds a running task is skipped by
`manage_transfers`); for the upload side this only matters in the window the merged `cycle` step
abstracts from, see below.

A schedule is a list of `Op`s.  Everything the environment can do to the scheduler is an `Op`:
a peer queues a file, the management job runs (`cycle`), an initialising upload gets through / fails
/ falls back to the queue, an upload completes / fails, the user aborts or re-queues, the slot
setting or the friend list changes, the server reports a user's status / privileges.

What the scheduler knows about a user is NOT a table of its own: `_get_queued_transfers` and
`_prioritize_uploads` ask `UserManager.get_user_object()` (user/manager.py:173-194), and
`UserManager._users` is a `WeakValueDictionary`: a `User` object (with the status the server
reported) lives only as long as the tracking manager's `TrackedUser` refers to it.  The model
therefore carries the weak dictionary (`store`) and `manage_user_tracking` (manager.py:511-529,
first half of every management cycle, `Sched.track`): a user is tracked from the first cycle that
sees an unfinished transfer of theirs until the first cycle that sees only finalized ones; a report
for a user who is not tracked lands in a throw-away object.  `ref` is the specification the
bookkeeping is proved against (`C05_seen_is_last_reported`): the status the server last reported for
a user since the cycle that first saw an unfinished transfer of theirs.

Decision and record are two steps.  `manage_transfers` creates an `initialize-upload` task for every
selected upload while it is still `QUEUED` (op `cycle`: the upload is marked `inflight`, nothing else
changes: `get_free_upload_slots()` and `uploading_users` go by the state and do not count it); the
decision is recorded by the task's first step (`await transfer.state.initialize()`, manager.py:955 as of /repo 2a7e24d,
first statement of `_initialize_upload`), op `record k`: `QUEUED → INITIALIZING`.  Any other event
may fall between the two (an abort cancels the task, a peer queues another file, the limit moves, the
server reports a user).  A later cycle skips an upload whose task is still running
(`_is_running(upload._transfer_task)`, manager.py:580-589) but the upload keeps its place in
`uploads[:free_upload_slots]` only as long as nothing re-orders the candidates: with a cycle between
decision and record the slot limit and the one-upload-per-user rule CAN be broken
(`C05_untimely_cycle_breaks_slot_limit`, `C05_untimely_cycle_breaks_one_per_user`).  What rules this out
in the running client is a fact about the schedule, not about `manage_transfers`: the first step of a
created task runs in the next loop iteration with nothing to wait for (an uncontended state lock), and
the management job sleeps at least `MIN_TRANSFER_MGMT_INTERVAL` between two cycles (tasks.py:66-76).
It is stated as the hypothesis `Timely` (no cycle runs while an upload is `inflight`) of the schedule
theorems, the driver answers `untimely` to a cycle that breaks it, and the harness checks it on every
real cycle — also when the file system, the shares manager and the server are slow.

Lingering tasks.  The task that ran an upload outlives the upload's active states in one place: when the
transfer breaks (`_upload_file`, manager.py:1101-1121) the task makes the upload `FAILED` and then reports the
failure to the downloader (`PeerUploadFailed`), which needs a peer connection and can take long (op `breakX`;
`noticeEnd k delivered` ends the attempt; if the downloader could not be told and the upload is still `FAILED`
it is offered again: `FAILED → QUEUED`, /repo a074a9b).  Meanwhile the peer may queue the file again
(`requeue`): the upload is `QUEUED` with a task still running (`lingering`), a cycle passes it over
(manager.py:580-589) — it keeps its place in `uploads[:free_upload_slots]` (the slice is taken first: the slot is
not handed to the next candidate in line, `C05_passed_over_uses_its_slot`), no task is created — and, since no
state change follows when the lingering task ends, asks to be run again at that moment (`watched`; the code
modelled is /repo 2a7e24d = `fixes/C05-passed-over-upload-looked-at-again.patch`: without it the upload stays
queued, with a free slot, until something else happens).
-/
namespace AioslskVerif.Sched

/-- `UserStatus` (user/model.py:17-25) -/
inductive UStatus | unknown | offline | away | online
deriving DecidableEq, Repr, Inhabited

def UStatus.name : UStatus → String
  | .unknown => "UNKNOWN" | .offline => "OFFLINE" | .away => "AWAY" | .online => "ONLINE"

structure UserInfo where
  status : UStatus := .unknown
  friend : Bool := false
  privileged : Bool := false
deriving DecidableEq, Repr, Inhabited

/-- what a `User` object holds, as far as the scheduler reads it (user/model.py) -/
structure Known where
  status : UStatus := .unknown
  privileged : Bool := false
deriving DecidableEq, Repr, Inhabited

inductive Dir | upload | download
deriving DecidableEq, Repr

/-- `TransferState.State` (transfer/state.py:56-67), own copy (the C03 table is not used here) -/
inductive St | virgin | queued | initializing | incomplete | downloading | uploading | complete | failed | aborted | paused
deriving DecidableEq, Repr

structure Xfer where
  id : Nat
  user : Nat
  dir : Dir
  st : St
  /-- a cycle created the `initialize-upload` task of this (still QUEUED) upload and the task has not taken its
  first step: the decision is made, not recorded (manager.py:591-597) -/
  inflight : Bool := false
  /-- the task that ran this upload has made it FAILED (the transfer broke) and has not ended: it is still
  reporting the failure to the downloader (manager.py:1101-1121) -/
  lingering : Bool := false
  /-- a cycle passed the (QUEUED) upload over because of that task and asked to be run again when the task ends
  (manager.py:580-589, 599-600: /repo 2a7e24d = fixes/C05-passed-over-upload-looked-at-again.patch) -/
  watched : Bool := false
deriving DecidableEq, Repr

/-- `Transfer.is_processing` (model.py:303-311) -/
def Xfer.processing (x : Xfer) : Bool :=
  x.st == .initializing || x.st == .uploading || x.st == .downloading

/-- `Transfer.is_finalized` (model.py:295-301) -/
def Xfer.finalized (x : Xfer) : Bool :=
  x.st == .complete || x.st == .aborted || x.st == .failed

/-- member of `get_uploading()` (manager.py:419-426) -/
def Xfer.procUpload (x : Xfer) : Bool := x.dir == .upload && x.processing

/-- the upload holds a slot: it is initialising / uploading, or a cycle has chosen it and its task is about to
say so -/
def Xfer.held (x : Xfer) : Bool := x.procUpload || x.inflight

structure Sched where
  xs : List Xfer := []
  friends : Nat → Bool := fun _ => false         -- settings.users.friends
  privSet : Nat → Bool := fun _ => false         -- UserManager._privileged_users (last PrivilegedUsers list)
  store : Nat → Option Known := fun _ => none    -- UserManager._users: entries kept alive by a TrackedUser
  ref : Nat → Option Known := fun _ => none      -- specification (ghost): last report since tracking was due
  slots : Nat := 2                 -- settings.transfers.limits.upload_slots
  cyclePending : Bool := false     -- the size-1 management queue holds a request (manager.py:117, 549-554)

/-- the object `get_user_object` creates for a user it does not hold (user/manager.py:183-192) -/
def Sched.fresh (s : Sched) (u : Nat) : Known := { status := .unknown, privileged := s.privSet u }

/-- what the scheduler reads for user `u`: `get_user_object(u)` (the stored object, else a fresh one) and
`u in settings.users.friends` (manager.py:651, 689-705) -/
def Sched.users (s : Sched) (u : Nat) : UserInfo :=
  let k := (s.store u).getD (s.fresh u)
  { status := k.status, friend := s.friends u, privileged := k.privileged }

/-- `u` has a transfer that is not finalized: member of `unfinished_users` (manager.py:517-520) -/
def Sched.unfinishedUser (s : Sched) (u : Nat) : Bool := s.xs.any (fun x => x.user == u && !x.finalized)

/-- member of `finished_users` (manager.py:521-524) -/
def Sched.finishedUser (s : Sched) (u : Nat) : Bool := s.xs.any (fun x => x.user == u && x.finalized)

/-- `manage_user_tracking` (manager.py:511-529) together with what `UserManager.track_user` /
`untrack_user` (user/manager.py:208-230, 536-553, 563-588) do to the weak dictionary: every user with an
unfinished transfer is tracked (the existing object is kept, else a fresh one is created and held by the
new `TrackedUser`); a user with finalized transfers only is untracked (the `TrackedUser` goes, and the
object with it); a user without transfers is not touched.  The `ref` line is the specification: the
knowledge about a user starts with the cycle that first sees an unfinished transfer and ends with the
cycle that sees none. -/
def Sched.track (s : Sched) : Sched :=
  { s with
    store := fun u =>
      if s.unfinishedUser u then (match s.store u with | some k => some k | none => some (s.fresh u))
      else if s.finishedUser u then none
      else s.store u
    ref := fun u =>
      if s.unfinishedUser u then (match s.ref u with | some k => some k | none => some (s.fresh u))
      else none }

/-- `len(get_uploading())` -/
def Sched.procUploads (s : Sched) : Nat := s.xs.countP Xfer.procUpload

/-- `get_free_upload_slots` : `max(0, upload_slots - len(uploading))` (manager.py:398-401) -/
def Sched.freeSlots (s : Sched) : Nat := s.slots - s.procUploads

/-- `uploading_users` (manager.py:631-634) -/
def Sched.busyUsers (s : Sched) : List Nat := (s.xs.filter Xfer.procUpload).map (·.user)

/-- The loop of `_get_queued_transfers` (manager.py:639-666), upload branch.  `seen` is
`users_with_queued_upload`. -/
def eligLoop (users : Nat → UserInfo) (busy : List Nat) : List Nat → List Xfer → List Xfer
  | _, [] => []
  | seen, x :: r =>
    if (users x.user).status = .offline then eligLoop users busy seen r          -- 651-653
    else if x.dir = .upload then
      if x.user ∈ busy then eligLoop users busy seen r                           -- 659-660
      else if x.user ∈ seen then eligLoop users busy seen r                      -- 661-662
      else if x.st = .queued then x :: eligLoop users busy (x.user :: seen) r    -- 664-666
      else eligLoop users busy seen r
    else eligLoop users busy seen r                                              -- downloads: other list

/-- queued uploads before ranking -/
def Sched.candidates (s : Sched) : List Xfer := eligLoop s.users s.busyUsers [] s.xs

structure Weights where
  online : Nat
  friend : Nat
  privileged : Nat

/-- weights regenerated from `_prioritize_uploads` -/
def W : Weights :=
  { online := Generated.Sched.wOnline, friend := Generated.Sched.wFriend,
    privileged := Generated.Sched.wPrivileged }

/-- which statuses earn the "online" weight (manager.py:697), regenerated -/
def earnsOnline (st : UStatus) : Bool := Generated.Sched.onlineEarners.contains st.name

/-- rank of one upload (manager.py:695-707) -/
def rankW (w : Weights) (i : UserInfo) : Nat :=
  (if earnsOnline i.status then w.online else 0) + (if i.friend then w.friend else 0)
    + (if i.privileged then w.privileged else 0)

def rank (i : UserInfo) : Nat := rankW W i

def Sched.rankOf (s : Sched) (x : Xfer) : Nat := rank (s.users x.user)

/-- stable insertion into an ascending list: before the first element whose key is not smaller -/
def insAsc (key : Xfer → Nat) (a : Xfer) : List Xfer → List Xfer
  | [] => [a]
  | b :: l => if key a ≤ key b then a :: b :: l else b :: insAsc key a l

/-- stable ascending sort.  `list.sort(key=…)` is stable and a stable sort is determined by its
input, so this is what `ranking.sort(key=itemgetter(0))` (manager.py:709) returns. -/
def sortAsc (key : Xfer → Nat) : List Xfer → List Xfer
  | [] => []
  | a :: l => insAsc key a (sortAsc key l)

/-- `_prioritize_uploads` (manager.py:684-710): stable ascending sort on the rank, then reversed. -/
def Sched.prioritize (s : Sched) (l : List Xfer) : List Xfer :=
  (sortAsc s.rankOf l).reverse

/-- second component of `_get_queued_transfers()` -/
def Sched.eligible (s : Sched) : List Xfer := s.prioritize s.candidates

/-- `uploads[:free_upload_slots]` (manager.py:579) -/
def Sched.select (s : Sched) : List Xfer := s.eligible.take s.freeSlots

/-- the uploads of `uploads[:free_upload_slots]` for which `manage_transfers` creates a task: those whose task
slot does not hold a running task already (manager.py:579-589) -/
def Sched.started (s : Sched) : List Xfer := s.select.filter (fun x => !x.inflight && !x.lingering)

/-- what `manage_transfers` does to one transfer: a selected upload gets its task, unless an earlier task of it is
still running — then the cycle asks to be run again when that task ends -/
def markSel (sel : List Xfer) (x : Xfer) : Xfer :=
  if x ∈ sel then (if x.lingering then { x with watched := true } else { x with inflight := true }) else x

/-- `manage_transfers` (upload part): a task is created for every selected upload (still QUEUED: nothing the
scheduler counts changes, no cycle is requested — the request comes with the state change, `record`). -/
def Sched.start (s : Sched) : Sched :=
  { s with
    xs := s.xs.map (markSel s.select)
    cyclePending := false }

/-- no upload is between decision and record -/
def Sched.noInflight (s : Sched) : Bool := s.xs.all (fun x => !x.inflight)

/-- number of held slots: `len(get_uploading())` + the chosen uploads whose task has not recorded the decision -/
def Sched.heldCount (s : Sched) : Nat := s.xs.countP Xfer.held

/-- uploads a cycle passed over and will come back for: their place in `uploads[:free_upload_slots]` was not
given to anybody else -/
def Sched.watchedCount (s : Sched) : Nat := s.xs.countP (·.watched)

/-- one management cycle (`_management_job`, manager.py:531-547): `manage_user_tracking`, then
`manage_transfers`. -/
def Sched.cycle (s : Sched) : Sched := s.track.start

/-- update of the entry of user `u`, if there is one (a report for a user nobody holds goes to a throw-away
object) -/
def updKnown (f : Nat → Option Known) (u : Nat) (g : Known → Known) : Nat → Option Known :=
  fun v => if v = u then (f v).map g else f v

inductive Op
  | addUpload (u : Nat)        -- peer queues a new file: `_on_peer_transfer_queue` → `_add_upload` → `state.queue()`
  | addDownload (u : Nat)      -- `download()`: a queued download (never occupies an upload slot)
  | cycle                      -- `_management_job` ran: tracking, then tasks for the selected uploads
  | breakX (k : Nat)           -- the transfer breaks: UPLOADING → FAILED, the task goes on to tell the downloader (manager.py:1101-1112)
  | noticeEnd (k : Nat) (delivered : Bool)   -- that attempt ends; not delivered and still FAILED: offered again (manager.py:1114-1121)
  | record (k : Nat)           -- first step of the task a cycle created: QUEUED → INITIALIZING (manager.py:955, state.py:179-181)
  | started (k : Nat)          -- initialisation got through: INITIALIZING → UPLOADING (state.py:228-235)
  | finish (k : Nat)           -- UPLOADING → COMPLETE (state.py:279-282)
  | failX (k : Nat)            -- INITIALIZING / UPLOADING → FAILED (reply disallowed, write error)
  | backToQueue (k : Nat)      -- INITIALIZING → QUEUED (send failed, timeout, no file connection; manager.py:957-1006)
  | requeue (k : Nat)          -- peer sends PeerTransferQueue for a FAILED / COMPLETE upload (manager.py:1283-1284)
  | apiQueue (k : Nat)         -- `TransferManager.queue` from a documented state (manager.py:277-307)
  | abort (k : Nat)            -- `TransferManager.abort`
  | setSlots (n : Nat)         -- the configured limit becomes n, by whatever legal path: `settings.transfers.limits.upload_slots = n`,
                               -- a new `limits` section (object / dict / copy), a new `transfers` section — `get_upload_slots()`
                               -- walks `self._settings.transfers.limits.upload_slots` on every call (manager.py:391-393)
  | friend (u : Nat) (b : Bool) -- settings.users.friends gains / loses `u`, in place or as a new set / a new `users` section (read on
                               -- every call, manager.py:700; a plain attribute: no cycle is requested)
  | report (u : Nat) (st : UStatus) (priv : Bool)   -- server: GetUserStatus.Response (user/manager.py:383-398, manager.py:1215-1221)
  | reply (u : Nat) (st : Option UStatus)           -- server: AddUser.Response, `none` = user does not exist (user/manager.py:374-381, manager.py:1211-1213)
  | privList (l : List Nat)    -- server: PrivilegedUsers.Response (user/manager.py:352-365)
deriving Repr

def Sched.get? (s : Sched) (k : Nat) : Option Xfer := s.xs.find? (·.id = k)

/-- target state of a per-transfer op, `none` = the code refuses / the event cannot happen -/
def target (x : Xfer) : Op → Option St
  | .record _ => if x.dir = .upload ∧ x.st = .queued ∧ x.inflight = true then some .initializing else none
  | .started _ => if x.dir = .upload ∧ x.st = .initializing then some .uploading else none
  | .finish _ => if x.dir = .upload ∧ x.st = .uploading then some .complete else none
  | .failX _ => if x.dir = .upload ∧ (x.st = .initializing ∨ x.st = .uploading) then some .failed else none
  | .backToQueue _ => if x.dir = .upload ∧ x.st = .initializing then some .queued else none
  | .requeue _ => if x.dir = .upload ∧ (x.st = .failed ∨ x.st = .complete) then some .queued else none
  | .apiQueue _ =>
    if x.st = .aborted ∨ x.st = .paused ∨ x.st = .complete ∨ x.st = .incomplete ∨ x.st = .failed
    then some .queued else none
  | .abort _ =>
    if x.st = .queued ∨ x.st = .initializing ∨ x.st = .incomplete ∨ x.st = .downloading ∨ x.st = .uploading
      ∨ x.st = .paused
    then some .aborted else none
  | _ => none

def Op.xfer? : Op → Option Nat
  | .record k | .started k | .finish k | .failX k | .backToQueue k | .requeue k | .apiQueue k | .abort k => some k
  | _ => none

/-- the new value of transfer `x` when its state is set.  Whatever changes the state of a chosen upload before its
task's first step ends that task (the first step itself; abort cancels it, state.py:189-194), so `inflight` ends
with it; an abort cancels a lingering task as well. -/
def Xfer.withSt (x : Xfer) (st : St) : Xfer :=
  { x with st := st, inflight := false, lingering := x.lingering && st != .aborted, watched := x.watched && st != .aborted }

/-- set the state of transfer `k` -/
def Sched.setSt (s : Sched) (k : Nat) (st : St) : Sched :=
  { s with xs := s.xs.map (fun x => if x.id = k then x.withSt st else x), cyclePending := true }

/-- the transfer of upload `k` breaks: FAILED, and its task lingers (it reports the failure) -/
def Sched.breakSt (s : Sched) (k : Nat) : Sched :=
  { s with xs := s.xs.map (fun x => if x.id = k then { x with st := .failed, inflight := false, lingering := true } else x),
           cyclePending := true }

/-- the new value of a lingering upload when the report of its failure ends -/
def Xfer.afterNotice (x : Xfer) (delivered : Bool) : Xfer :=
  { x with st := if !delivered && x.st == .failed then .queued else x.st, lingering := false, watched := false }

/-- the lingering task of upload `k` ends: a state change (offered again) requests a cycle, and so does the watch
of a cycle that passed the upload over -/
def Sched.endNotice (s : Sched) (k : Nat) (delivered : Bool) : Sched :=
  { s with xs := s.xs.map (fun x => if x.id = k then x.afterNotice delivered else x)
           cyclePending := s.cyclePending || s.xs.any (fun x => x.id == k && (x.watched || (!delivered && x.st == .failed))) }

/-- does the code accept the op in this state -/
def Sched.accepts (s : Sched) (op : Op) : Bool :=
  match op with
  | .cycle => s.cyclePending
  | .breakX k => (s.get? k).any (fun x => x.dir == .upload && x.st == .uploading)
  | .noticeEnd k _ => (s.get? k).any (·.lingering)
  | .addUpload _ | .addDownload _ | .setSlots _ | .friend _ _ | .report _ _ _ | .reply _ _ | .privList _ => true
  | op =>
    match op.xfer? with
    | some k => match s.get? k with
      | some x => (target x op).isSome
      | none => false
    | none => false

def step (s : Sched) (op : Op) : Sched :=
  match op with
  | .addUpload u =>
    { s with xs := s.xs ++ [{ id := s.xs.length, user := u, dir := .upload, st := .queued }], cyclePending := true }
  | .addDownload u =>
    { s with xs := s.xs ++ [{ id := s.xs.length, user := u, dir := .download, st := .queued }], cyclePending := true }
  | .cycle => if s.cyclePending then s.cycle else s
  | .breakX k => if s.accepts (.breakX k) then s.breakSt k else s
  | .noticeEnd k d => if s.accepts (.noticeEnd k d) then s.endNotice k d else s
  | .setSlots n => { s with slots := n }
  | .friend u b => { s with friends := fun v => if v = u then b else s.friends v }
  | .report u st p =>
    { s with store := updKnown s.store u (fun _ => { status := st, privileged := p })
             ref := updKnown s.ref u (fun _ => { status := st, privileged := p })
             cyclePending := true }
  | .reply u (some st) =>
    { s with store := updKnown s.store u (fun k => { k with status := st })
             ref := updKnown s.ref u (fun k => { k with status := st })
             cyclePending := true }
  | .reply _ none => { s with cyclePending := true }
  | .privList l =>
    { s with privSet := fun v => l.contains v
             store := fun v => (s.store v).map (fun k => { k with privileged := l.contains v })
             ref := fun v => (s.ref v).map (fun k => { k with privileged := l.contains v }) }
  | op =>
    match op.xfer? with
    | some k => match s.get? k with
      | some x => match target x op with
        | some st => s.setSt k st
        | none => s
      | none => s
    | none => s

/-- the scheduling fact the slot / one-per-user theorems need of `op` in state `s`: a cycle that is served finds no
upload between decision and record -/
def timelyOp (s : Sched) : Op → Bool
  | .cycle => !s.cyclePending || s.noInflight
  | _ => true

def timelyB : Sched → List Op → Bool
  | _, [] => true
  | s, op :: ops => timelyOp s op && timelyB (step s op) ops

/-- every cycle of the schedule (run from `s`) is timely -/
def Timely (s : Sched) (ops : List Op) : Prop := timelyB s ops = true

instance (s : Sched) (ops : List Op) : Decidable (Timely s ops) := inferInstanceAs (Decidable (timelyB s ops = true))

def run (ops : List Op) : Sched := ops.foldl step {}

def runFrom (s : Sched) (ops : List Op) : Sched := ops.foldl step s

end AioslskVerif.Sched
