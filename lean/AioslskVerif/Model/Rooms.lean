/-!
# Model of the room / user replicas (C19)

Transcribes, one pure function per handler, what `room/manager.py` (21 handlers, lines 142-517)
and `user/manager.py` (11 handlers, lines 297-451) do to `RoomManager.rooms`, the `User`
objects, `UserManager._privileged_users` and `Session.privileges_time_left`, and which events
they emit.  The model is of the FIXED code (fixes/C19-*.patch):

* `_on_operator_granted` **adds** the own name to the operators (room/manager.py:416 has `discard`);
* `_on_join_room` **replaces** the user list by the announced one (room/manager.py:224 merges it
  into whatever a late `UserJoinedRoom` or an earlier `JoinRoom` left behind).

Names (rooms, users) and texts (chat lines, tickers, countries, descriptions, pictures) are
natural-number ids; the harness maps them to strings.  Python containers are modelled as what
they are: `dict` = association list with replace-in-place-or-append (`AL.set`), `set` = list with
guarded insert (`sadd`) and `filter` as `discard`, `Room.users` = list with the guarded append of
`Room.add_user` and the first-occurrence removal of `list.remove` (`List.erase`).

`User` objects are held weakly by the real `UserManager`; the model keeps every object that was
ever created (the application holds a reference to each user it cares about — the harness does).
-/
namespace AioslskVerif.Rooms

/-! ## Python `dict` as association list -/
namespace AL
variable {α : Type}

/-- `d.get(k)` -/
def find (k : Nat) : List (Nat × α) → Option α
  | [] => none
  | (k', v) :: t => if k' = k then some v else find k t

/-- `d[k] = v` (position of an existing key is kept, a new key goes last) -/
def set (k : Nat) (v : α) : List (Nat × α) → List (Nat × α)
  | [] => [(k, v)]
  | (k', v') :: t => if k' = k then (k, v) :: t else (k', v') :: set k v t

/-- `del d[k]` / `d.pop(k, None)` -/
def erase (k : Nat) (l : List (Nat × α)) : List (Nat × α) := l.filter (fun p => p.1 != k)

end AL

/-- `set.add` -/
def sadd (u : Nat) (l : List Nat) : List Nat := if u ∈ l then l else l ++ [u]
/-- `set.discard` -/
def sdiscard (u : Nat) (l : List Nat) : List Nat := l.filter (· != u)

/-! ## Records -/

/-- `protocol/primitives.py: UserStats` -/
structure Stats where
  avgSpeed : Nat
  uploads : Nat
  files : Nat
  dirs : Nat
deriving DecidableEq, Repr

/-- the replicated fields of `user/model.py: User` (`status = none` is `UserStatus.UNKNOWN`,
`uploadPerms = none` is `UploadPermissions.UNKNOWN`). -/
structure User where
  status : Option Nat := none
  privileged : Bool := false
  country : Option Nat := none
  avgSpeed : Option Nat := none
  uploads : Option Nat := none
  files : Option Nat := none
  dirs : Option Nat := none
  slotsFree : Option Nat := none
  hasSlotsFree : Option Bool := none
  uploadSlots : Option Nat := none
  queueLength : Option Nat := none
  uploadPerms : Option Nat := none
  descr : Option Nat := none
  picture : Option Nat := none
deriving DecidableEq, Repr

/-- `User.update_from_user_stats` (user/model.py:107-111) -/
def User.withStats (u : User) (st : Stats) : User :=
  { u with avgSpeed := some st.avgSpeed, files := some st.files, dirs := some st.dirs, uploads := some st.uploads }

/-- `room/model.py: Room` (without `name` = the key, and `user_count`, which the property does not mention) -/
structure Room where
  priv : Bool := false
  users : List Nat := []
  joined : Bool := false
  tickers : List (Nat × Nat) := []
  members : List Nat := []
  owner : Option Nat := none
  operators : List Nat := []
deriving DecidableEq, Repr

/-- `Room.add_user` (room/model.py:35-37) -/
def Room.addUser (x : Room) (u : Nat) : Room := if u ∈ x.users then x else { x with users := x.users ++ [u] }
/-- `Room.remove_user` (room/model.py:39-41) -/
def Room.removeUser (x : Room) (u : Nat) : Room := { x with users := x.users.erase u }

/-- one user of a `JoinRoom.Response` (the five parallel arrays, zipped) -/
structure Entry where
  name : Nat
  status : Nat
  stats : Stats
  slots : Nat
  country : Nat
deriving DecidableEq, Repr

/-- Every message class some handler of the two managers is registered for. -/
inductive Msg where
  | roomChat (room user text : Nat)
  | publicChat (room user text : Nat)
  | userJoined (room user status : Nat) (stats : Stats) (slots country : Nat)
  | userLeft (room user : Nat)
  | joinRoom (room : Nat) (entries : List Entry) (owner : Option Nat) (ops : List Nat)
  | leaveRoom (room : Nat)
  | tickers (room : Nat) (ts : List (Nat × Nat))
  | tickerAdded (room user text : Nat)
  | tickerRemoved (room user : Nat)
  | toggleInvites (enabled : Bool)
  | grantMembership (room user : Nat)
  | membershipGranted (room : Nat)
  | revokeMembership (room user : Nat)
  | membershipRevoked (room : Nat)
  | members (room : Nat) (us : List Nat)
  | operators (room : Nat) (us : List Nat)
  | operatorGranted (room : Nat)
  | operatorRevoked (room : Nat)
  | grantOperator (room user : Nat)
  | revokeOperator (room user : Nat)
  | roomList (pub owned priv oper : List Nat)
  | admin (text : Nat)
  | kicked
  | privateChat (id ts user text : Nat) (direct : Bool)
  | checkPrivileges (timeLeft : Nat)
  | privilegedUsers (us : List Nat)
  | addPrivileged (user : Nat)
  | addUser (user : Nat) (ex : Bool) (status : Option Nat) (stats : Option Stats) (country : Option Nat)
  | userStatus (user status : Nat) (privileged : Bool)
  | userStats (user : Nat) (stats : Stats)
  | peerInfo (connUser : Option Nat) (descr : Nat) (picture : Option Nat) (slots queue : Nat) (free : Bool)
      (perms : Option Nat)
  | peerSearch (user : Nat) (free : Bool) (speed queue : Nat)
deriving Repr

/-- What the handlers emit on the event bus (plus `ack`: the `PrivateChatMessageAck` sent to the server). -/
inductive Ev where
  | roomMessage (room user text : Nat)
  | publicMessage (room user text : Nat)
  | roomJoined (room : Nat) (user : Option Nat)
  | roomLeft (room : Nat) (user : Option Nat)
  | tickers (room : Nat) (ts : List (Nat × Nat))
  | tickerAdded (room user text : Nat)
  | tickerRemoved (room user : Nat)
  | membershipGranted (room : Nat) (member : Option Nat)
  | membershipRevoked (room : Nat) (member : Option Nat)
  | members (room : Nat) (us : List Nat)
  | operators (room : Nat) (us : List Nat)
  | operatorGranted (room : Nat) (member : Option Nat)
  | operatorRevoked (room : Nat) (member : Option Nat)
  | roomList (rooms : List Nat)
  | admin (text : Nat)
  | kicked
  | ack (id : Nat)
  | privateMessage (id ts user text : Nat) (direct : Bool)
  | privilegesUpdate (timeLeft : Nat)
  | privilegedUsers (us : List Nat)
  | privilegedUserAdded (user : Nat)
  | userStatusUpdate (user : Nat) (before current : User)
  | userStatsUpdate (user : Nat) (before current : User)
  | userInfoUpdate (user : Nat) (before current : User)
deriving DecidableEq, Repr

/-- the exception a handler died with (logged and swallowed by `EventBus.emit`, events.py:169) -/
inductive Err where
  | badStatus      -- `UserStatus(x)` with x not in {0,1,2}: ValueError
  | badPerms       -- `UploadPermissions(x)` with x not in {0..3}: ValueError
deriving DecidableEq, Repr

/-- session name and the block list of the settings -/
structure Env where
  me : Nat
  blockedRoom : List Nat      -- users whose `BlockingFlag` includes ROOM_MESSAGES
  blockedPriv : List Nat      -- users whose `BlockingFlag` includes PRIVATE_MESSAGES
deriving Repr

structure State where
  rooms : List (Nat × Room) := []        -- RoomManager._rooms
  users : List (Nat × User) := []        -- UserManager._users (objects alive)
  privSet : List Nat := []               -- UserManager._privileged_users
  timeLeft : Nat := 0                    -- Session.privileges_time_left
deriving Repr

structure Out where
  st : State
  evs : List Ev := []
  err : Option Err := none

/-! ## Accessors -/

/-- `Room(name=…, private=private)` of `get_or_create_room` (room/manager.py:114-120) -/
def Room.new (p : Bool) : Room := { priv := p }

/-- `get_or_create_room(r, private=p)` followed by in-place mutation `f` of the room object -/
def State.withRoom (s : State) (r : Nat) (p : Bool) (f : Room → Room) : State :=
  { s with rooms := AL.set r (f ((AL.find r s.rooms).getD (Room.new p))) s.rooms }

/-- `User(name=u, privileged=u in self._privileged_users)` (user/manager.py:188-191) -/
def State.newUser (s : State) (u : Nat) : User := { privileged := decide (u ∈ s.privSet) }

/-- the object `get_user_object(u)` returns (user/manager.py:174-195) -/
def State.getUser (s : State) (u : Nat) : User := (AL.find u s.users).getD (s.newUser u)

/-- `get_user_object(u)` followed by in-place mutation `f` -/
def State.withUser (s : State) (u : Nat) (f : User → User) : State :=
  { s with users := AL.set u (f (s.getUser u)) s.users }

/-- `get_user_object(u)` for its side effect only (the object is created when missing) -/
def State.touchUser (s : State) (u : Nat) : State := s.withUser u id

def validStatus (x : Nat) : Bool := x ≤ 2      -- UserStatus: OFFLINE 0, AWAY 1, ONLINE 2 (-1 is not on the wire)
def validPerms (x : Nat) : Bool := x ≤ 3       -- UploadPermissions 0..3

/-- the per-user part of the `JoinRoom` loop body (room/manager.py:225-229) -/
def Entry.apply (e : Entry) (u : User) : User :=
  { (({ u with status := some e.status } : User).withStats e.stats) with country := some e.country, slotsFree := some e.slots }

/-! ## The handlers -/

/-- `_on_room_list` (room/manager.py:471-517) -/
def roomList (env : Env) (s : State) (pub owned priv oper : List Nat) : State :=
  -- 474-476: public rooms
  let s := pub.foldl (fun s r => s.withRoom r false id) s
  -- 478-481: owned private rooms
  let s := owned.foldl (fun s r => s.withRoom r true (fun x => { x with owner := some env.me })) s
  -- 483-486: private rooms we are a member of
  let s := priv.foldl (fun s r => s.withRoom r true (fun x => { x with members := sadd env.me x.members })) s
  -- 488-490: operated rooms
  let s := oper.foldl (fun s r => s.withRoom r true (fun x => { x with operators := sadd env.me x.operators })) s
  -- 493-496: remove all rooms no longer tracked
  let s := { s with rooms := s.rooms.filter (fun p => pub.contains p.1 || priv.contains p.1 || owned.contains p.1) }
  -- 499-510: owner / operators / members / private of the remaining rooms
  { s with rooms := s.rooms.map (fun p => (p.1,
      { p.2 with
        owner := if !owned.contains p.1 && p.2.owner == some env.me then none else p.2.owner
        operators := if !oper.contains p.1 then sdiscard env.me p.2.operators else p.2.operators
        members := if !priv.contains p.1 then sdiscard env.me p.2.members else p.2.members
        priv := !pub.contains p.1 })) }

def handle (env : Env) (s : State) : Msg → Out
  -- room/manager.py:142-162
  | .roomChat r u t =>
    if env.blockedRoom.contains u then { st := s }
    else { st := (s.touchUser u).withRoom r false id, evs := [.roomMessage r u t] }
  -- 164-181
  | .publicChat r u t =>
    if env.blockedRoom.contains u then { st := s }
    else { st := (s.withRoom r false id).touchUser u, evs := [.publicMessage r u t] }
  -- 183-200
  | .userJoined r u status stats slots country =>
    if !validStatus status then { st := s.touchUser u, err := some .badStatus }
    else
      let s := s.withUser u (fun x => { (({ x with status := some status } : User).withStats stats) with
                                          slotsFree := some slots, country := some country })
      { st := s.withRoom r false (·.addUser u), evs := [.roomJoined r (some u)] }
  -- 202-214
  | .userLeft r u =>
    { st := (s.touchUser u).withRoom r false (·.removeUser u), evs := [.roomLeft r (some u)] }
  -- 216-242 (with fixes/C19-join-room-replaces-users.patch: `room.users = []` before the loop)
  | .joinRoom r entries owner ops =>
    let good := entries.takeWhile (fun e => validStatus e.status)
    let s := s.withRoom r false (fun x => { x with joined := true, priv := owner.isSome, users := [] })
    let s := good.foldl (fun s e => (s.withUser e.name e.apply).withRoom r false (·.addUser e.name)) s
    match entries.drop good.length with
    | e :: _ => { st := s.touchUser e.name, err := some .badStatus }    -- `UserStatus(x)` raised inside the loop
    | [] => { st := s.withRoom r false (fun x => { x with owner := owner, operators := ops }), evs := [.roomJoined r none] }
  -- 244-255
  | .leaveRoom r =>
    { st := s.withRoom r false (fun x => { x with joined := false, users := [] }), evs := [.roomLeft r none] }
  -- 257-273
  | .tickers r ts =>
    let s := ts.foldl (fun s p => s.touchUser p.1) s
    let d := ts.foldl (fun d p => AL.set p.1 p.2 d) []
    { st := s.withRoom r false (fun x => { x with tickers := d }), evs := [.tickers r d] }
  -- 275-289
  | .tickerAdded r u t =>
    { st := (s.withRoom r false id).touchUser u |>.withRoom r false (fun x => { x with tickers := AL.set u t x.tickers }),
      evs := [.tickerAdded r u t] }
  -- 291-310
  | .tickerRemoved r u =>
    { st := (s.withRoom r false id).touchUser u |>.withRoom r false (fun x => { x with tickers := AL.erase u x.tickers }),
      evs := [.tickerRemoved r u] }
  -- 312-316
  | .toggleInvites _ => { st := s }
  -- 318-332
  | .grantMembership r u =>
    { st := (s.withRoom r true id).touchUser u |>.withRoom r true (fun x => { x with members := sadd u x.members }),
      evs := [.membershipGranted r (some u)] }
  -- 334-347
  | .membershipGranted r =>
    { st := (s.withRoom r true id).touchUser env.me |>.withRoom r true (fun x => { x with members := sadd env.me x.members }),
      evs := [.membershipGranted r none] }
  -- 349-365
  | .revokeMembership r u =>
    { st := (s.withRoom r true id).touchUser u |>.withRoom r true
        (fun x => { x with members := sdiscard u x.members, operators := sdiscard u x.operators }),
      evs := [.membershipRevoked r (some u)] }
  -- 367-381
  | .membershipRevoked r =>
    { st := (s.withRoom r true id).touchUser env.me |>.withRoom r true
        (fun x => { x with members := sdiscard env.me x.members, operators := sdiscard env.me x.operators }),
      evs := [.membershipRevoked r none] }
  -- 383-394
  | .members r us =>
    let s := s.withRoom r true (fun x => { x with members := us })
    { st := us.foldl (fun s u => s.touchUser u) s, evs := [.members r us] }
  -- 396-409
  | .operators r us =>
    let s := s.withRoom r true (fun x => { x with operators := us })
    { st := us.foldl (fun s u => s.touchUser u) s, evs := [.operators r us] }
  -- 411-423 (with fixes/C19-own-operator-grant.patch: `add`)
  | .operatorGranted r =>
    { st := (s.withRoom r true id).touchUser env.me |>.withRoom r true (fun x => { x with operators := sadd env.me x.operators }),
      evs := [.operatorGranted r none] }
  -- 425-437
  | .operatorRevoked r =>
    { st := (s.withRoom r true id).touchUser env.me |>.withRoom r true (fun x => { x with operators := sdiscard env.me x.operators }),
      evs := [.operatorRevoked r none] }
  -- 439-453
  | .grantOperator r u =>
    { st := (s.touchUser u).withRoom r true (fun x => { x with operators := sadd u x.operators }),
      evs := [.operatorGranted r (some u)] }
  -- 455-469
  | .revokeOperator r u =>
    { st := (s.touchUser u).withRoom r true (fun x => { x with operators := sdiscard u x.operators }),
      evs := [.operatorRevoked r (some u)] }
  -- 471-517
  | .roomList pub owned priv oper =>
    let s := roomList env (s.touchUser env.me) pub owned priv oper
    { st := s, evs := [.roomList (s.rooms.map (·.1))] }
  -- user/manager.py:297-304
  | .admin t => { st := s, evs := [.admin t] }
  -- 306-308
  | .kicked => { st := s, evs := [.kicked] }
  -- 310-335: the ack is sent first, whoever the sender is
  | .privateChat id ts u t direct =>
    if env.blockedPriv.contains u then { st := s, evs := [.ack id] }
    else { st := s.touchUser u, evs := [.ack id, .privateMessage id ts u t direct] }
  -- 338-351
  | .checkPrivileges t => { st := { s with timeLeft := t }, evs := [.privilegesUpdate t] }
  -- 353-366
  | .privilegedUsers us =>
    let s := { s with users := s.users.map (fun p => (p.1, { p.2 with privileged := us.contains p.1 })), privSet := us }
    { st := us.foldl (fun s u => s.touchUser u) s, evs := [.privilegedUsers us] }
  -- 368-373
  | .addPrivileged u =>
    -- the user is added to `_privileged_users` too (fix bbc28a8): a User object created later starts privileged
    { st := ({ s with privSet := u :: s.privSet } : State).withUser u (fun x => { x with privileged := true }),
      evs := [.privilegedUserAdded u] }
  -- 375-382
  | .addUser u ex status stats country =>
    if !ex then { st := s.touchUser u }
    else match status with
      | none => { st := s.touchUser u, err := some .badStatus }
      | some st =>
        if !validStatus st then { st := s.touchUser u, err := some .badStatus }
        else { st := s.withUser u (fun x =>
                  let x := { x with status := some st }
                  let x := match stats with | some k => x.withStats k | none => x
                  { x with country := country }) }
  -- 384-399
  | .userStatus u status privileged =>
    if !validStatus status then { st := s.touchUser u, err := some .badStatus }
    else
      let before := s.getUser u
      let s := s.withUser u (fun x => { x with status := some status, privileged := privileged })
      { st := s, evs := [.userStatusUpdate u before (s.getUser u)] }
  -- 401-415
  | .userStats u stats =>
    let before := s.getUser u
    let s := s.withUser u (·.withStats stats)
    { st := s, evs := [.userStatsUpdate u before (s.getUser u)] }
  -- 417-444
  | .peerInfo conn descr picture slots queue free perms =>
    match conn with
    | none => { st := s }
    | some u =>
      let before := s.getUser u
      let upd : User → User := fun x => { x with descr := some descr, picture := picture, uploadSlots := some slots,
                                                  queueLength := some queue, hasSlotsFree := some free }
      match perms with
      | none =>
        let s := s.withUser u (fun x => { upd x with uploadPerms := none })
        { st := s, evs := [.userInfoUpdate u before (s.getUser u)] }
      | some p =>
        if !validPerms p then { st := s.withUser u upd, err := some .badPerms }
        else
          let s := s.withUser u (fun x => { upd x with uploadPerms := some p })
          { st := s, evs := [.userInfoUpdate u before (s.getUser u)] }
  -- 446-451
  | .peerSearch u free speed queue =>
    { st := s.withUser u (fun x => { x with avgSpeed := some speed, queueLength := some queue, hasSlotsFree := some free }) }

/-- the managers after a sequence of messages -/
def run (env : Env) (msgs : List Msg) : State := msgs.foldl (fun s m => (handle env s m).st) {}

/-- messages a well-behaved server sends: enum fields carry enum values -/
def Msg.WF : Msg → Bool
  | .userJoined _ _ status _ _ _ => validStatus status
  | .joinRoom _ entries _ _ => entries.all (fun e => validStatus e.status)
  | .addUser _ ex status _ _ => !ex || (match status with | some st => validStatus st | none => false)
  | .userStatus _ status _ => validStatus status
  | .peerInfo _ _ _ _ _ _ perms => match perms with | some p => validPerms p | none => true
  | _ => true

end AioslskVerif.Rooms
