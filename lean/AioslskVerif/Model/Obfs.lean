/-!
# Obfuscation model (`aioslsk/protocol/obfuscation.py`)

`rotate_key`, `encode`, `decode` transcribed on 4-byte little-endian keys held as `BitVec 32`.
-/
namespace AioslskVerif.Obfs

abbrev Bytes := List UInt8

/-- `int.from_bytes(key, 'little')`, truncated to 32 bits (keys are at most 4 bytes) -/
def leNat : Bytes → Nat
  | [] => 0
  | b :: r => b.toNat + 256 * leNat r

def keyToBV (k : Bytes) : BitVec 32 := BitVec.ofNat 32 (leNat k)

/-- `x.to_bytes(4, 'little')` -/
def bvToKey (x : BitVec 32) : Bytes :=
  [UInt8.ofNat (x.toNat % 256), UInt8.ofNat (x.toNat / 256 % 256),
   UInt8.ofNat (x.toNat / 65536 % 256), UInt8.ofNat (x.toNat / 16777216 % 256)]

/-- `(key_i >> rot_bits) | ((key_i << (0x20 - rot_bits)) & 0xFFFFFFFF)` -/
def pyRot (x : BitVec 32) (r : Nat) : BitVec 32 := (x >>> r) ||| (x <<< (32 - r))

def rotateKey (key : Bytes) (r : Nat) : Bytes := bvToKey (pyRot (keyToBV key) r)

/-- the `for idx, byt in enumerate(data)` loop of `encode` -/
def encLoop : Nat → Bytes → Bytes → Bytes
  | _, _, [] => []
  | idx, key, b :: r =>
    let key' := if idx % 4 = 0 then rotateKey key 31 else key
    (key'.getD (idx % 4) 0 ^^^ b) :: encLoop (idx + 1) key' r

/-- `obfuscation.encode(data, key)` for a 4-byte key -/
def encode (key data : Bytes) : Bytes := key ++ encLoop 0 key data

def fullKey (key : Bytes) (ka : Nat) : Bytes :=
  (List.range ka).flatMap (fun j => rotateKey key (31 - j))

def xorAt (fk : Bytes) : Nat → Bytes → Bytes
  | _, [] => []
  | idx, b :: r => (b ^^^ fk.getD (idx % fk.length) 0) :: xorAt fk (idx + 1) r

/-- `obfuscation.decode(data)` -/
def decode (data : Bytes) : Bytes :=
  let key := data.take 4
  let msg := data.drop 4
  let ka := min ((msg.length + 3) / 4) 32
  xorAt (fullKey key ka) 0 msg

end AioslskVerif.Obfs
