import AioslskVerif.Generated.SearchConstants
/-!
Model of the outgoing-search side of `aioslsk/search/manager.py`, of `Timer` (tasks.py:78-111), of the
wishlist `BackgroundTask` as `SearchManager` uses it, and of `utils.ticket_generator`.

The model is of the code **after** the proposed fixes
  * fixes/C18-remove-request-cancels-timer.patch  (`remove_request` cancels the request's timer),
  * fixes/C18-timer-unset-task.patch              (`Timer._unset_task` clears the handle only if it still
                                                   is the finished task),
  * fixes/C02-wishlist-interval.patch             (`_on_wish_list_interval` does not await the cancelled task).

Time is counted in whole seconds (all timeouts of the code are `int`s).  One `Op` is what the code does
between two suspension points: API calls and message handlers run atomically; everything that asyncio defers to
"the next loop iteration" (a cancelled task finishing, a due `sleep` waking its task, done-callbacks) happens in
`settle` (the loop runs until nothing is ready) or, one loop iteration at a time, in `tick`.

Round 6: the loss of the server session and the re-login are ops (`Op.sessionDestroyed`, `Op.sessionInitialized`):
they change `State.session` and nothing else — in particular NOT the ticket generator: requests, their timers and
the ticket counter outlive the session.

Two refinements of that picture are part of the model (round 4):
  * **loop iterations around an expiry** (`Op.tick`).  A `Timer.runner` task (tasks.py:99-101) goes through
    *created* (`create_task` scheduled its first step) → *sleeping* (`asyncio.sleep(timeout)` registered its
    wake-up for `deadline`) → *woken* (the sleep is over, the task's next step is scheduled) → callback.  Every
    phase change takes one loop iteration; `task.cancel()` in ANY phase before the callback makes the task end
    with `CancelledError` at its next step, without running the callback.  Any `Op` may be placed between two
    `tick`s, i.e. in any loop iteration around the expiry.
  * **the set-up of a request** (`Op.gate`, `Op.sendDone`, `Op.cancelCall`).  `search*` and `_wishlist_job` draw
    the ticket, then `await self._network.send_server_messages(...)`, and only when that returns create the
    `SearchRequest`, register it, start its Timer and emit `SearchRequestSentEvent` (manager.py:124-134,
    289-309, 321-331).  While `gated`, the send suspends: the set-up is `pending` until the network lets the send
    return or raise, or until the owning task (the caller, the wishlist task) is cancelled.
-/
namespace AioslskVerif.Search
open AioslskVerif.Generated.Search

/-- utils.py:61-71 — one `next()` of `ticket_generator(initial)` whose local `idx` is `idx`. -/
def nextTicket (initial idx : Nat) : Nat :=
  if idx + 1 > maxTicket then initial else idx + 1

inductive Kind
  | network | room | user | wishlist
deriving Repr, DecidableEq

/-- settings + construction parameters -/
structure Cfg where
  requestTimeout : Int      -- settings.searches.send.request_timeout          (Timer iff > 0, manager.py:318)
  wishlistTimeout : Int     -- settings.searches.send.wishlist_request_timeout (< 0: server interval, :305-313)
  storeResults : Bool       -- settings.searches.send.store_results            (:398)
  initial : Nat             -- ticket_generator(initial)
  items : Nat               -- number of enabled wishlist items                (:279)
deriving Repr

/-- A registered `SearchRequest`. `rid` is the identity of the Python object (ghost: its draw number). -/
structure Req where
  rid : Nat
  ticket : Nat
  kind : Kind
  timeout : Option Nat      -- `request.timer.timeout`; `none` = `request.timer is None`
  handle : Option Nat       -- `request.timer._task` (id of an asyncio task)
  results : Nat             -- `len(request.results)`
deriving Repr, DecidableEq

/-- A pending asyncio task running `Timer.runner` (tasks.py:99-101) for the Timer of request `rid`. -/
structure TTask where
  id : Nat
  rid : Nat
  ticket : Nat              -- `request.ticket` captured by `partial(_timeout_search_request, request)`
  timeout : Nat             -- `Timer.timeout` when the task was created
  deadline : Option Nat     -- loop time at which `asyncio.sleep(timeout)` returns; `none`: the task has not
                            -- taken its first step yet (`create_task` only schedules it)
  cancelled : Bool          -- `task.cancel()` was called; the task finishes at the next loop iteration
  woken : Bool              -- the sleep is over (its future is resolved) and the task's next step is scheduled:
                            -- it goes on to the callback in the next loop iteration (unless cancelled before)
deriving Repr, DecidableEq

/-- A request that is being set up: its ticket is drawn, `send_server_messages` has not handed control back to
`search*` / `_wishlist_job` yet (manager.py:124-128, 289-293).  No `SearchRequest` object exists, nothing is
registered. -/
structure Setup where
  rid : Nat                 -- ghost: draw number (the `rid` of the request it will become)
  ticket : Nat
  kind : Kind               -- `.wishlist`: the owner is the wishlist task; otherwise a caller of `search*`
  outcome : Option Bool     -- `none`: the send is blocked; `some true`: it returned; `some false`: it raised, or
                            -- the owner was cancelled — the owner sees it at its next step (next loop iteration)
deriving Repr, DecidableEq

inductive Obs
  | sent (t rid tk : Nat)                 -- SearchRequestSentEvent
  | removed (t rid tk dl tid : Nat)       -- SearchRequestRemovedEvent, emitted by timer task `tid` (deadline `dl`)
  | result (t rid tk : Nat)               -- SearchResultEvent
  | loopErr (t rid tk tid : Nat)          -- KeyError inside timer task `tid` → loop exception handler
  | callerErr                             -- KeyError raised to the caller of `remove_request`
  | noReq                                 -- harness: no registered request with that ticket (nothing called)
  | noTimer                               -- harness: the request has no Timer (nothing called)
  | noSetup                               -- harness: no such set-up is in progress (nothing called)
  | clobber (old new : Nat)               -- ghost: `requests[ticket] = request` replaced live request `old`
deriving Repr, DecidableEq

structure State where
  cfg : Cfg
  now : Nat
  gen : Nat                  -- `idx` of the ticket generator
  draws : Nat                -- ghost: number of tickets drawn so far
  nextTask : Nat             -- fresh task ids
  requests : List Req        -- `SearchManager.requests` (dict keyed by ticket)
  tasks : List TTask         -- timer tasks that have not finished yet
  wlInterval : Option Nat    -- `self.wishlist_interval`
  wlNext : Option Nat        -- wishlist BackgroundTask: loop time of its next round; `none` = not running, or
                             -- in the middle of a round (`wlRound`)
  wlWoken : Bool             -- the wishlist task's next step is scheduled (just created, or its sleep is over): it
                             -- runs its round in the next loop iteration
  wlRound : Option Nat       -- the wishlist task is inside `_wishlist_job`, suspended in the send of one item
                             -- (a `.wishlist` entry of `pending`); this many enabled items come after it
  gated : Bool               -- environment: `send_server_messages` suspends until the network answers
  pending : List Setup       -- requests being set up (ticket drawn, send not yet returned to its caller)
  session : Bool             -- `self._session is not None` (manager.py:72, 431-435): a server session is initialised
deriving Repr

def init (cfg : Cfg) : State :=
  { cfg := cfg, now := 0, gen := cfg.initial, draws := 0, nextTask := 0, requests := [], tasks := [],
    wlInterval := none, wlNext := none, wlWoken := false, wlRound := none, gated := false, pending := [],
    session := false }

inductive Op
  | search (k : Kind)            -- search / search_room / search_user                       (manager.py:114-183)
  | wlInterval (n : Nat)         -- WishlistInterval.Response(n) from the server             (:405-413)
  | serverClosing                -- ConnectionStateChangedEvent(server, CLOSING)             (:419-424)
  | remove (tk : Nat)            -- remove_request(tk)                                       (:104-112)
  | reply (tk : Nat)             -- PeerSearchReply.Request(ticket = tk)                     (:380-403)
  | timerCancel (tk : Nat)       -- requests[tk].timer.cancel()                              (tasks.py:90-97)
  | timerReschedule (tk n : Nat) -- requests[tk].timer.reschedule(n)                         (tasks.py:103-107)
  | jump (d : Nat)               -- the loop clock advances by d while nothing of the library runs
  | settle                       -- the loop runs until nothing is ready or due
  | tick                         -- the loop runs ONE iteration (every scheduled step / due wake-up, once)
  | gate (b : Bool)              -- from now on `send_server_messages` suspends (`true`) / returns at once (`false`)
  | sendDone (tk : Nat) (ok : Bool)  -- the blocked send of the set-up with ticket `tk` returns (`ok`) / raises
  | cancelCall (tk : Nat)        -- the caller's task suspended in `search*` (ticket `tk`) is cancelled
  | sessionDestroyed             -- SessionDestroyedEvent: the server session is lost       (manager.py:434-435)
  | sessionInitialized           -- SessionInitializedEvent: logged in (again)              (manager.py:431-432)
deriving Repr, DecidableEq

/-! ### Timer -/

def setHandle (rs : List Req) (rid : Nat) (h : Option Nat) : List Req :=
  rs.map fun r => if r.rid = rid then { r with handle := h } else r

def setTimeout (rs : List Req) (rid : Nat) (n : Nat) : List Req :=
  rs.map fun r => if r.rid = rid then { r with timeout := some n } else r

/-- `Timer.cancel` (tasks.py:90-97) on the Timer object of request `rid` whose handle is `h`. -/
def timerCancel (s : State) (rid : Nat) (h : Option Nat) : State :=
  match h with
  | none => s
  | some id =>
    { s with tasks := s.tasks.map (fun t => if t.id = id then { t with cancelled := true } else t),
             requests := setHandle s.requests rid none }

/-- `Timer.start` (tasks.py:86-88) for request `rid`/`tk` with `timeout`. -/
def timerStart (s : State) (rid tk timeout : Nat) : State :=
  { s with nextTask := s.nextTask + 1,
           tasks := s.tasks ++ [{ id := s.nextTask, rid := rid, ticket := tk, timeout := timeout,
                                  deadline := none, cancelled := false, woken := false }],
           requests := setHandle s.requests rid (some s.nextTask) }

/-! ### Requests -/

def lookup (s : State) (tk : Nat) : Option Req := s.requests.find? (·.ticket = tk)

/-- Draw a ticket, `self.requests[ticket] = request`, start the Timer when there is a timeout, emit
`SearchRequestSentEvent` (manager.py:122-134, 283-303, 315-325). -/
def newRequest (s : State) (kind : Kind) (timeout : Option Nat) : State × List Obs :=
  let tk := nextTicket s.cfg.initial s.gen
  let rid := s.draws + 1
  let clob := (s.requests.filter (·.ticket = tk)).map (fun r => Obs.clobber r.rid rid)
  let others := s.requests.filter (·.ticket ≠ tk)
  let s1 := { s with gen := tk, draws := rid,
                     requests := others ++ [{ rid := rid, ticket := tk, kind := kind, timeout := timeout,
                                              handle := none, results := 0 }] }
  let s2 := match timeout with
    | none => s1
    | some T => timerStart s1 rid tk T
  (s2, clob ++ [Obs.sent s.now rid tk])

/-- manager.py:318 -/
def requestTimeout (c : Cfg) : Option Nat :=
  if 0 < c.requestTimeout then some c.requestTimeout.toNat else none

/-- `_get_wishlist_request_timeout` + `if timeout` (manager.py:294-297, 305-313) -/
def wishlistTimeout (s : State) : Option Nat :=
  let t : Nat := if s.cfg.wishlistTimeout < 0 then s.wlInterval.getD defaultWishlistInterval
                 else s.cfg.wishlistTimeout.toNat
  if t = 0 then none else some t

/-- `_wishlist_job`: one request per enabled item (manager.py:270-303). -/
def wishlistRound : Nat → State → List Obs → State × List Obs
  | 0, s, o => (s, o)
  | n + 1, s, o =>
    let r := newRequest s .wishlist (wishlistTimeout s)
    wishlistRound n r.1 (o ++ r.2)

/-! ### What the loop does at its next iterations -/

/-- `Timer.runner` after its sleep: `_timeout_search_request(request)` (manager.py:327-329). Only
`requests` changes. -/
def fireTask (s : State) (t : TTask) : State × List Obs :=
  if s.requests.any (·.ticket = t.ticket) then
    ({ s with requests := s.requests.filter (·.ticket ≠ t.ticket) },
     [Obs.removed s.now t.rid t.ticket (t.deadline.getD 0) t.id])
  else (s, [Obs.loopErr s.now t.rid t.ticket t.id])

def fireAll : List TTask → State → List Obs → State × List Obs
  | [], s, o => (s, o)
  | t :: ts, s, o => let r := fireTask s t; fireAll ts r.1 (o ++ r.2)

/-- first step of a `Timer.runner` task: `asyncio.sleep(timeout)` is called *now* (tasks.py:100) -/
def startTask (now : Nat) (t : TTask) : TTask :=
  match t.deadline with
  | none => { t with deadline := some (now + t.timeout) }
  | some _ => t

def reached (now : Nat) (t : TTask) : Bool :=
  match t.deadline with
  | none => false
  | some d => decide (d ≤ now)

def isDue (now : Nat) (t : TTask) : Bool := !t.cancelled && reached now t
def isFinishing (now : Nat) (t : TTask) : Bool := t.cancelled || reached now t

/-- `Timer._unset_task` (FIXED, tasks.py:109-111) for every task of `fin` that finished: the Timer object
of request `t.rid` drops its handle only if the handle still is `t`. -/
def unsetDone (fin : List TTask) (r : Req) : Req :=
  if fin.any (fun t => t.rid = r.rid && r.handle == some t.id) then { r with handle := none } else r

/-- The loop runs the timer tasks: tasks created since the last run take their first step, cancelled tasks
finish, due tasks run their callback and finish, done-callbacks run. -/
def settleTimers (s : State) : State × List Obs :=
  let ts := s.tasks.map (startTask s.now)
  let r := fireAll (ts.filter (isDue s.now)) s []
  ({ r.1 with tasks := ts.filter (fun t => !isFinishing s.now t),
              requests := r.1.requests.map (unsetDone (ts.filter (isFinishing s.now))) }, r.2)

/-! ### The set-up of a request, suspended in `send_server_messages` -/

/-- `ticket = next(self._ticket_generator)`, then the send suspends (manager.py:124-128, 148-152, 172-176,
289-293): nothing but the generator has changed. -/
def beginSetup (s : State) (kind : Kind) : State :=
  { s with gen := nextTicket s.cfg.initial s.gen, draws := s.draws + 1,
           pending := s.pending ++ [{ rid := s.draws + 1, ticket := nextTicket s.cfg.initial s.gen, kind := kind,
                                      outcome := none }] }

/-- the timeout a request of that kind gets when it is registered: `request_timeout` is read in
`_attach_request_timer_and_emit` (manager.py:324); the wishlist job reads its timeout once, before its first item
(:283) — the value cannot change during a round, because `_on_wish_list_interval` cancels the round it interrupts
(:413-418), so evaluating it at registration gives the same number. -/
def kindTimeout (s : State) : Kind → Option Nat
  | .wishlist => wishlistTimeout s
  | _ => requestTimeout s.cfg

/-- The send returned: create the `SearchRequest`, `self.requests[ticket] = request`, start its Timer when there is
a timeout, emit `SearchRequestSentEvent` — one synchronous block (manager.py:129-134 + 321-331; 295-309). -/
def register (s : State) (p : Setup) : State × List Obs :=
  let timeout := kindTimeout s p.kind
  let clob := (s.requests.filter (·.ticket = p.ticket)).map (fun r => Obs.clobber r.rid p.rid)
  let others := s.requests.filter (·.ticket ≠ p.ticket)
  let s1 := { s with requests := others ++ [{ rid := p.rid, ticket := p.ticket, kind := p.kind, timeout := timeout,
                                              handle := none, results := 0 }] }
  let s2 := match timeout with
    | none => s1
    | some T => timerStart s1 p.rid p.ticket T
  (s2, clob ++ [Obs.sent s.now p.rid p.ticket])

/-- `_wishlist_job` returned: `BackgroundTask.runner` sleeps for the interval (tasks.py:73-75) -/
def roundEnd (s : State) : State :=
  { s with wlRound := none, wlWoken := false,
           wlNext := some (s.now + s.wlInterval.getD defaultWishlistInterval) }

/-- `_wishlist_job` goes on with its next `m` enabled items (manager.py:288-309): all of them at once while the
send does not suspend; otherwise the next ticket is drawn and the job is suspended in that item's send. -/
def roundGo (m : Nat) (s : State) (o : List Obs) : State × List Obs :=
  if s.gated then
    match m with
    | 0 => (roundEnd s, o)
    | m + 1 => ({ beginSetup s .wishlist with wlRound := some m, wlNext := none, wlWoken := false }, o)
  else
    let r := wishlistRound m s o
    (roundEnd r.1, r.2)

/-- The owner of the set-up with draw number `rid` takes its next step: nothing if there is no such set-up or its
send is still blocked; if the send returned, the request is registered (and the wishlist job goes on with its next
item); if it raised or the owner was cancelled, the set-up is dropped — the exception leaves `search*` to its
caller, or ends the wishlist task (tasks.py:70-71: `BackgroundTask.runner` does not catch). -/
def completeOne (s : State) (rid : Nat) (o : List Obs) : State × List Obs :=
  match s.pending.find? (·.rid = rid) with
  | none => (s, o)
  | some p =>
    match p.outcome with
    | none => (s, o)
    | some ok =>
      let s0 := { s with pending := s.pending.filter (·.rid ≠ p.rid) }
      if ok then
        let r := register s0 p
        if p.kind = .wishlist then roundGo (s.wlRound.getD 0) r.1 (o ++ r.2) else (r.1, o ++ r.2)
      else if p.kind = .wishlist then ({ s0 with wlRound := none, wlNext := none, wlWoken := false }, o)
      else (s0, o)

def completeAll : List Nat → State → List Obs → State × List Obs
  | [], s, o => (s, o)
  | rid :: rids, s, o => let r := completeOne s rid o; completeAll rids r.1 r.2

/-- every set-up whose send has returned / raised goes on (those that are pending when the iteration begins, in the
order in which their tickets were drawn) -/
def completeSetups (s : State) (o : List Obs) : State × List Obs := completeAll (s.pending.map (·.rid)) s o

/-! ### The loop runs until nothing is ready: `settle` -/

/-- The loop runs the wishlist `BackgroundTask.runner` (tasks.py:65-75) when its sleep is over (or it was just
started): `_wishlist_job`, then `sleep(interval)`. -/
def settleWishlist (s : State) (o : List Obs) : State × List Obs :=
  match s.wlNext with
  | none => (s, o)
  | some w => if w ≤ s.now then roundGo s.cfg.items s o else (s, o)

/-- the timer tasks created during this run take their first step in a later iteration of the same run -/
def startAll (s : State) : State := { s with tasks := s.tasks.map (startTask s.now) }

def settle (s : State) : State × List Obs :=
  let r := settleTimers s
  let r1 := completeSetups r.1 r.2
  let r2 := settleWishlist r1.1 r1.2
  (startAll r2.1, r2.2)

/-! ### One loop iteration: `tick`

Every task whose next step is scheduled takes exactly that step; every wake-up that is due is delivered (which
schedules the sleeper's next step for the following iteration). -/

/-- a task that does not end in this iteration: its first step registers the wake-up (`sleep(0)` just yields: the
next step is scheduled at once, asyncio/tasks.py `sleep`), a due wake-up is delivered -/
def wakeTask (now : Nat) (t : TTask) : TTask :=
  match t.deadline with
  | none => { t with deadline := some (now + t.timeout), woken := t.timeout == 0 }
  | some d => if d ≤ now then { t with woken := true } else t

/-- takes its last step in this iteration: `CancelledError` is thrown into it, or it wakes up after its sleep -/
def endsNow (t : TTask) : Bool := t.cancelled || t.woken
/-- … and that step runs the callback -/
def firesNow (t : TTask) : Bool := !t.cancelled && t.woken

def tickTimers (s : State) : State × List Obs :=
  let r := fireAll (s.tasks.filter firesNow) s []
  ({ r.1 with tasks := (s.tasks.filter (fun t => !endsNow t)).map (wakeTask s.now),
              requests := r.1.requests.map (unsetDone (s.tasks.filter endsNow)) }, r.2)

def tickWishlist (s : State) (o : List Obs) : State × List Obs :=
  match s.wlNext with
  | none => (s, o)
  | some w =>
    if s.wlWoken then roundGo s.cfg.items s o
    else if w ≤ s.now then ({ s with wlWoken := true }, o)
    else (s, o)

def tick (s : State) : State × List Obs :=
  let r := tickTimers s
  let r1 := completeSetups r.1 r.2
  tickWishlist r1.1 r1.2

/-- `BackgroundTask.cancel()` of the wishlist task (tasks.py:52-60): a round in progress is abandoned where it is —
`CancelledError` is thrown into the suspended send, whether or not the network has answered meanwhile. -/
def cancelWishlist (s : State) : State :=
  { s with wlNext := none, wlWoken := false, wlRound := none,
           pending := s.pending.filter (·.kind ≠ .wishlist) }

def setOutcome (ps : List Setup) (rid : Nat) (b : Bool) : List Setup :=
  ps.map fun q => if q.rid = rid then { q with outcome := some b } else q

def step (s : State) : Op → State × List Obs
  | .search k => if s.gated then (beginSetup s k, []) else newRequest s k (requestTimeout s.cfg)
  | .wlInterval n =>
    -- `self._wishlist_task.cancel()`, new interval, `self._wishlist_task.start()`  (manager.py:413-418)
    ({ cancelWishlist s with wlInterval := some n, wlNext := some s.now, wlWoken := true }, [])
  | .serverClosing => (cancelWishlist s, [])
  | .remove tk =>
    match lookup s tk with
    | none => (s, [Obs.callerErr])
    | some r =>
      let s1 := { s with requests := s.requests.filter (·.ticket ≠ tk) }
      (match r.timeout with
       | none => s1
       | some _ => timerCancel s1 r.rid r.handle, [])
  | .reply tk =>
    match lookup s tk with
    | none => (s, [])
    | some r =>
      ({ s with requests := if s.cfg.storeResults then
                  s.requests.map (fun q => if q.ticket = tk then { q with results := q.results + 1 } else q)
                else s.requests },
       [Obs.result s.now r.rid tk])
  | .timerCancel tk =>
    match lookup s tk with
    | none => (s, [Obs.noReq])
    | some r =>
      match r.timeout with
      | none => (s, [Obs.noTimer])
      | some _ => (timerCancel s r.rid r.handle, [])
  | .timerReschedule tk n =>
    match lookup s tk with
    | none => (s, [Obs.noReq])
    | some r =>
      match r.timeout with
      | none => (s, [Obs.noTimer])
      | some _ =>
        let s1 := timerCancel s r.rid r.handle
        (timerStart { s1 with requests := setTimeout s1.requests r.rid n } r.rid r.ticket n, [])
  | .jump d => ({ s with now := s.now + d }, [])
  | .settle => settle s
  | .tick => tick s
  | .gate b => ({ s with gated := b }, [])
  | .sendDone tk ok =>
    match s.pending.find? (fun p => p.ticket = tk && p.outcome.isNone) with
    | none => (s, [Obs.noSetup])
    | some p => ({ s with pending := setOutcome s.pending p.rid ok }, [])
  | .cancelCall tk =>
    -- `task.cancel()` on the caller suspended in the send: `CancelledError` at its next step, also when the
    -- network has answered meanwhile (the task's pending cancellation wins over the result of the wait)
    match s.pending.find? (fun p => p.ticket = tk && p.kind != .wishlist) with
    | none => (s, [Obs.noSetup])
    | some p => ({ s with pending := setOutcome s.pending p.rid false }, [])
  -- The loss of the server session and the next login (round 6).  `_on_session_destroyed` / `_on_session_initialized`
  -- (manager.py:431-435) assign `self._session` and NOTHING else: the ticket generator, `self.requests`, the request
  -- Timers, set-ups in progress and `wishlist_interval` all survive a re-login (search results come from peers, not
  -- from the server: a request outlives the session it was made in).  `self._session` is read only by the handlers of
  -- *incoming* searches (:191, :364, :377), which are not part of this model.  The wishlist task is stopped by the
  -- `ConnectionStateChangedEvent(CLOSING)` that precedes the loss (`serverClosing`) and restarted by the
  -- `WishlistInterval` message that follows the login (`wlInterval`) — ops of their own.
  | .sessionDestroyed => ({ s with session := false }, [])
  | .sessionInitialized => ({ s with session := true }, [])

/-- run an op list, collecting the observations (oldest first) -/
def run : State → List Op → State × List Obs
  | s, [] => (s, [])
  | s, op :: ops =>
    let r := step s op
    let r2 := run r.1 ops
    (r2.1, r.2 ++ r2.2)

/-- `asyncio.sleep(d)` seen from outside: the loop serves every whole second up to `now + d`. -/
def sleepOps : Nat → List Op
  | 0 => [.settle]
  | d + 1 => .settle :: .jump 1 :: sleepOps d

/-! ### The removal report: `EventBus.emit(SearchRequestRemovedEvent)` inside the timer task

`_timeout_search_request` (manager.py:333-335) runs inside the request's own `Timer.runner` task: it deletes the
registry entry and then awaits `EventBus.emit` (events.py:156-173), which calls the registered listeners one
after the other and awaits those that are coroutine functions.  A listener may stay suspended for as long as it
likes; meanwhile every other operation can happen.  `task.cancel()` on the reporting task throws `CancelledError`
into the suspended listener (when a task cancels *itself*: into the next listener that really suspends); `emit`
catches `Exception` only, so the listeners after it would never be told.

The layer below keeps the timer task alive while it reports.  `Emission.tid` is that task, `told` the number of
listeners called so far (the last of them may still be suspended), `cancelled` whether `Timer.cancel` hit the
task.  `NOp.resume rid` is one step of the schedule: the suspended listener returns and the next one is called (a
listener that never suspends is one that is resumed at once, so every mix of plain / slow listeners is an op
list).  `Timer.cancel` is called by `remove_request`, by `Timer.reschedule` and by a direct `Timer.cancel` — always
on the Timer of a request found through `SearchManager.requests` (`cancelTarget`; `cancelTarget_marks` /
`cancelTarget_complete` in Proofs/Search.lean tie it to what `step` does to the pending tasks).
`listeners` counts the listeners registered for `SearchRequestRemovedEvent`. -/

structure Emission where
  rid : Nat
  ticket : Nat
  tid : Nat                 -- the `Timer.runner` task that runs `_timeout_search_request`
  told : Nat                -- listeners called so far
  cancelled : Bool          -- `task.cancel()` hit the reporting task
deriving Repr, DecidableEq

structure NState where
  base : State
  listeners : Nat
  reporting : List Emission
deriving Repr

def ninit (cfg : Cfg) (listeners : Nat) : NState :=
  { base := init cfg, listeners := listeners, reporting := [] }

inductive NOp
  | base (op : Op)
  | resume (rid : Nat)      -- the listener that holds the report for request `rid` returns
deriving Repr, DecidableEq

inductive NObs
  | base (o : Obs)
  | told (t rid tk i : Nat)       -- listener `i` (0-based) is called with the removal of request `rid`
  | finished (t rid tk : Nat)     -- `emit` returned, the timer task is done
  | aborted (t rid tk i : Nat)    -- CancelledError inside `emit` after `i` listeners were called: the others never are
  | noEmission                    -- harness: no report for that request is in progress
deriving Repr, DecidableEq

/-- The task on which `op` calls `task.cancel()` (through `Timer.cancel`, tasks.py:90-97): the handle of the Timer
of the registered request with that ticket (manager.py:111-114; tasks.py:103-107). -/
def timerOf (s : State) (tk : Nat) : Option Nat :=
  match lookup s tk with
  | none => none
  | some r =>
    match r.timeout with
    | none => none
    | some _ => r.handle

def cancelTarget (s : State) : Op → Option Nat
  | .remove tk => timerOf s tk
  | .timerCancel tk => timerOf s tk
  | .timerReschedule tk _ => timerOf s tk
  | _ => none

def hit (target : Option Nat) (e : Emission) : Emission :=
  if target = some e.tid then { e with cancelled := true } else e

/-- `_timeout_search_request` reaches `emit`: the first listener is called in the same step. -/
def newEmission : Obs → Option Emission
  | .removed _ rid tk _ tid => some { rid := rid, ticket := tk, tid := tid, told := 1, cancelled := false }
  | _ => none

def firstTold : Obs → Option NObs
  | .removed t rid tk _ _ => some (.told t rid tk 0)
  | _ => none

def bump (rid : Nat) (e : Emission) : Emission := if e.rid = rid then { e with told := e.told + 1 } else e

def nstep (s : NState) : NOp → NState × List NObs
  | .base op =>
    let r := step s.base op
    let rep := s.reporting.map (hit (cancelTarget s.base op))
    if s.listeners = 0 then ({ s with base := r.1, reporting := rep }, r.2.map .base)
    else ({ s with base := r.1, reporting := rep ++ r.2.filterMap newEmission },
          r.2.map .base ++ r.2.filterMap firstTold)
  | .resume rid =>
    match s.reporting.find? (·.rid = rid) with
    | none => (s, [.noEmission])
    | some e =>
      if e.cancelled then
        ({ s with reporting := s.reporting.filter (·.rid ≠ rid) }, [.aborted s.base.now e.rid e.ticket e.told])
      else if e.told < s.listeners then
        ({ s with reporting := s.reporting.map (bump rid) }, [.told s.base.now e.rid e.ticket e.told])
      else
        ({ s with reporting := s.reporting.filter (·.rid ≠ rid) }, [.finished s.base.now e.rid e.ticket])

def nrun : NState → List NOp → NState × List NObs
  | s, [] => (s, [])
  | s, op :: ops =>
    let r := nstep s op
    let r2 := nrun r.1 ops
    (r2.1, r.2 ++ r2.2)

/-- `SearchManager.stop()` (manager.py:437-457) as far as requests are concerned: the wishlist task and the Timer
of every registered request are cancelled (the requests stay registered). A derived op list, like `sleepOps`. -/
def stopOps (s : State) : List Op :=
  (s.requests.filter (·.timeout.isSome)).map (fun r => Op.timerCancel r.ticket) ++ [.serverClosing]

end AioslskVerif.Search
