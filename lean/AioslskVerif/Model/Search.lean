import AioslskVerif.Generated.SearchConstants
/-!
Model of the outgoing-search side of `aioslsk/search/manager.py`, of `Timer` (tasks.py:78-111), of the
wishlist `BackgroundTask` as `SearchManager` uses it, and of `utils.ticket_generator`.

The model is of the code **after** the proposed fixes
  * fixes/C18-remove-request-cancels-timer.patch  (`remove_request` cancels the request's timer),
  * fixes/C18-timer-unset-task.patch              (`Timer._unset_task` clears the handle only if it still
                                                   is the finished task),
  * fixes/C02-wishlist-interval.patch             (`_on_wish_list_interval` does not await the cancelled task).

Time is counted in whole seconds (all timeouts of the code are `int`s).  One `Op` is what the code does
between two suspension points when listeners and the network stub do not suspend: API calls and message
handlers run atomically; everything that asyncio defers to "the next loop iteration" (a cancelled task
finishing, a due `sleep` waking its task, done-callbacks) happens in `settle`.
-/
namespace AioslskVerif.Search
open AioslskVerif.Generated.Search

/-- utils.py:61-71 — one `next()` of `ticket_generator(initial)` whose local `idx` is `idx`. -/
def nextTicket (initial idx : Nat) : Nat :=
  if idx + 1 > maxTicket then initial else idx + 1

inductive Kind
  | network | room | user | wishlist
deriving Repr, DecidableEq

/-- settings + construction parameters -/
structure Cfg where
  requestTimeout : Int      -- settings.searches.send.request_timeout          (Timer iff > 0, manager.py:318)
  wishlistTimeout : Int     -- settings.searches.send.wishlist_request_timeout (< 0: server interval, :305-313)
  storeResults : Bool       -- settings.searches.send.store_results            (:398)
  initial : Nat             -- ticket_generator(initial)
  items : Nat               -- number of enabled wishlist items                (:279)
deriving Repr

/-- A registered `SearchRequest`. `rid` is the identity of the Python object (ghost: its draw number). -/
structure Req where
  rid : Nat
  ticket : Nat
  kind : Kind
  timeout : Option Nat      -- `request.timer.timeout`; `none` = `request.timer is None`
  handle : Option Nat       -- `request.timer._task` (id of an asyncio task)
  results : Nat             -- `len(request.results)`
deriving Repr, DecidableEq

/-- A pending asyncio task running `Timer.runner` (tasks.py:99-101) for the Timer of request `rid`. -/
structure TTask where
  id : Nat
  rid : Nat
  ticket : Nat              -- `request.ticket` captured by `partial(_timeout_search_request, request)`
  timeout : Nat             -- `Timer.timeout` when the task was created
  deadline : Option Nat     -- loop time at which `asyncio.sleep(timeout)` returns; `none`: the task has not
                            -- taken its first step yet (`create_task` only schedules it)
  cancelled : Bool          -- `task.cancel()` was called; the task finishes at the next loop iteration
deriving Repr, DecidableEq

inductive Obs
  | sent (t rid tk : Nat)                 -- SearchRequestSentEvent
  | removed (t rid tk dl tid : Nat)       -- SearchRequestRemovedEvent, emitted by timer task `tid` (deadline `dl`)
  | result (t rid tk : Nat)               -- SearchResultEvent
  | loopErr (t rid tk tid : Nat)          -- KeyError inside timer task `tid` → loop exception handler
  | callerErr                             -- KeyError raised to the caller of `remove_request`
  | noReq                                 -- harness: no registered request with that ticket (nothing called)
  | noTimer                               -- harness: the request has no Timer (nothing called)
  | clobber (old new : Nat)               -- ghost: `requests[ticket] = request` replaced live request `old`
deriving Repr, DecidableEq

structure State where
  cfg : Cfg
  now : Nat
  gen : Nat                  -- `idx` of the ticket generator
  draws : Nat                -- ghost: number of tickets drawn so far
  nextTask : Nat             -- fresh task ids
  requests : List Req        -- `SearchManager.requests` (dict keyed by ticket)
  tasks : List TTask         -- timer tasks that have not finished yet
  wlInterval : Option Nat    -- `self.wishlist_interval`
  wlNext : Option Nat        -- wishlist BackgroundTask: loop time of its next round; `none` = not running
deriving Repr

def init (cfg : Cfg) : State :=
  { cfg := cfg, now := 0, gen := cfg.initial, draws := 0, nextTask := 0, requests := [], tasks := [],
    wlInterval := none, wlNext := none }

inductive Op
  | search (k : Kind)            -- search / search_room / search_user                       (manager.py:114-183)
  | wlInterval (n : Nat)         -- WishlistInterval.Response(n) from the server             (:405-413)
  | serverClosing                -- ConnectionStateChangedEvent(server, CLOSING)             (:419-424)
  | remove (tk : Nat)            -- remove_request(tk)                                       (:104-112)
  | reply (tk : Nat)             -- PeerSearchReply.Request(ticket = tk)                     (:380-403)
  | timerCancel (tk : Nat)       -- requests[tk].timer.cancel()                              (tasks.py:90-97)
  | timerReschedule (tk n : Nat) -- requests[tk].timer.reschedule(n)                         (tasks.py:103-107)
  | jump (d : Nat)               -- the loop clock advances by d while nothing of the library runs
  | settle                       -- the loop runs until nothing is ready or due
deriving Repr, DecidableEq

/-! ### Timer -/

def setHandle (rs : List Req) (rid : Nat) (h : Option Nat) : List Req :=
  rs.map fun r => if r.rid = rid then { r with handle := h } else r

def setTimeout (rs : List Req) (rid : Nat) (n : Nat) : List Req :=
  rs.map fun r => if r.rid = rid then { r with timeout := some n } else r

/-- `Timer.cancel` (tasks.py:90-97) on the Timer object of request `rid` whose handle is `h`. -/
def timerCancel (s : State) (rid : Nat) (h : Option Nat) : State :=
  match h with
  | none => s
  | some id =>
    { s with tasks := s.tasks.map (fun t => if t.id = id then { t with cancelled := true } else t),
             requests := setHandle s.requests rid none }

/-- `Timer.start` (tasks.py:86-88) for request `rid`/`tk` with `timeout`. -/
def timerStart (s : State) (rid tk timeout : Nat) : State :=
  { s with nextTask := s.nextTask + 1,
           tasks := s.tasks ++ [{ id := s.nextTask, rid := rid, ticket := tk, timeout := timeout,
                                  deadline := none, cancelled := false }],
           requests := setHandle s.requests rid (some s.nextTask) }

/-! ### Requests -/

def lookup (s : State) (tk : Nat) : Option Req := s.requests.find? (·.ticket = tk)

/-- Draw a ticket, `self.requests[ticket] = request`, start the Timer when there is a timeout, emit
`SearchRequestSentEvent` (manager.py:122-134, 283-303, 315-325). -/
def newRequest (s : State) (kind : Kind) (timeout : Option Nat) : State × List Obs :=
  let tk := nextTicket s.cfg.initial s.gen
  let rid := s.draws + 1
  let clob := (s.requests.filter (·.ticket = tk)).map (fun r => Obs.clobber r.rid rid)
  let others := s.requests.filter (·.ticket ≠ tk)
  let s1 := { s with gen := tk, draws := rid,
                     requests := others ++ [{ rid := rid, ticket := tk, kind := kind, timeout := timeout,
                                              handle := none, results := 0 }] }
  let s2 := match timeout with
    | none => s1
    | some T => timerStart s1 rid tk T
  (s2, clob ++ [Obs.sent s.now rid tk])

/-- manager.py:318 -/
def requestTimeout (c : Cfg) : Option Nat :=
  if 0 < c.requestTimeout then some c.requestTimeout.toNat else none

/-- `_get_wishlist_request_timeout` + `if timeout` (manager.py:294-297, 305-313) -/
def wishlistTimeout (s : State) : Option Nat :=
  let t : Nat := if s.cfg.wishlistTimeout < 0 then s.wlInterval.getD defaultWishlistInterval
                 else s.cfg.wishlistTimeout.toNat
  if t = 0 then none else some t

/-- `_wishlist_job`: one request per enabled item (manager.py:270-303). -/
def wishlistRound : Nat → State → List Obs → State × List Obs
  | 0, s, o => (s, o)
  | n + 1, s, o =>
    let r := newRequest s .wishlist (wishlistTimeout s)
    wishlistRound n r.1 (o ++ r.2)

/-! ### What the loop does at its next iterations -/

/-- `Timer.runner` after its sleep: `_timeout_search_request(request)` (manager.py:327-329). Only
`requests` changes. -/
def fireTask (s : State) (t : TTask) : State × List Obs :=
  if s.requests.any (·.ticket = t.ticket) then
    ({ s with requests := s.requests.filter (·.ticket ≠ t.ticket) },
     [Obs.removed s.now t.rid t.ticket (t.deadline.getD 0) t.id])
  else (s, [Obs.loopErr s.now t.rid t.ticket t.id])

def fireAll : List TTask → State → List Obs → State × List Obs
  | [], s, o => (s, o)
  | t :: ts, s, o => let r := fireTask s t; fireAll ts r.1 (o ++ r.2)

/-- first step of a `Timer.runner` task: `asyncio.sleep(timeout)` is called *now* (tasks.py:100) -/
def startTask (now : Nat) (t : TTask) : TTask :=
  match t.deadline with
  | none => { t with deadline := some (now + t.timeout) }
  | some _ => t

def reached (now : Nat) (t : TTask) : Bool :=
  match t.deadline with
  | none => false
  | some d => decide (d ≤ now)

def isDue (now : Nat) (t : TTask) : Bool := !t.cancelled && reached now t
def isFinishing (now : Nat) (t : TTask) : Bool := t.cancelled || reached now t

/-- `Timer._unset_task` (FIXED, tasks.py:109-111) for every task of `fin` that finished: the Timer object
of request `t.rid` drops its handle only if the handle still is `t`. -/
def unsetDone (fin : List TTask) (r : Req) : Req :=
  if fin.any (fun t => t.rid = r.rid && r.handle == some t.id) then { r with handle := none } else r

/-- The loop runs the timer tasks: tasks created since the last run take their first step, cancelled tasks
finish, due tasks run their callback and finish, done-callbacks run. -/
def settleTimers (s : State) : State × List Obs :=
  let ts := s.tasks.map (startTask s.now)
  let r := fireAll (ts.filter (isDue s.now)) s []
  ({ r.1 with tasks := ts.filter (fun t => !isFinishing s.now t),
              requests := r.1.requests.map (unsetDone (ts.filter (isFinishing s.now))) }, r.2)

/-- The loop runs the wishlist `BackgroundTask.runner` (tasks.py:65-75) when its sleep is over (or it was just
started): one `_wishlist_job`, then `sleep(interval)`. The timer tasks created by the job take their first
step in the next iteration of this same run. -/
def settleWishlist (s : State) (o : List Obs) : State × List Obs :=
  match s.wlNext with
  | none => (s, o)
  | some w =>
    if w ≤ s.now then
      let r := wishlistRound s.cfg.items s o
      ({ r.1 with wlNext := some (s.now + s.wlInterval.getD defaultWishlistInterval),
                  tasks := r.1.tasks.map (startTask s.now) }, r.2)
    else (s, o)

def settle (s : State) : State × List Obs :=
  let r := settleTimers s
  settleWishlist r.1 r.2

def step (s : State) : Op → State × List Obs
  | .search k => newRequest s k (requestTimeout s.cfg)
  | .wlInterval n => ({ s with wlInterval := some n, wlNext := some s.now }, [])
  | .serverClosing => ({ s with wlNext := none }, [])
  | .remove tk =>
    match lookup s tk with
    | none => (s, [Obs.callerErr])
    | some r =>
      let s1 := { s with requests := s.requests.filter (·.ticket ≠ tk) }
      (match r.timeout with
       | none => s1
       | some _ => timerCancel s1 r.rid r.handle, [])
  | .reply tk =>
    match lookup s tk with
    | none => (s, [])
    | some r =>
      ({ s with requests := if s.cfg.storeResults then
                  s.requests.map (fun q => if q.ticket = tk then { q with results := q.results + 1 } else q)
                else s.requests },
       [Obs.result s.now r.rid tk])
  | .timerCancel tk =>
    match lookup s tk with
    | none => (s, [Obs.noReq])
    | some r =>
      match r.timeout with
      | none => (s, [Obs.noTimer])
      | some _ => (timerCancel s r.rid r.handle, [])
  | .timerReschedule tk n =>
    match lookup s tk with
    | none => (s, [Obs.noReq])
    | some r =>
      match r.timeout with
      | none => (s, [Obs.noTimer])
      | some _ =>
        let s1 := timerCancel s r.rid r.handle
        (timerStart { s1 with requests := setTimeout s1.requests r.rid n } r.rid r.ticket n, [])
  | .jump d => ({ s with now := s.now + d }, [])
  | .settle => settle s

/-- run an op list, collecting the observations (oldest first) -/
def run : State → List Op → State × List Obs
  | s, [] => (s, [])
  | s, op :: ops =>
    let r := step s op
    let r2 := run r.1 ops
    (r2.1, r.2 ++ r2.2)

/-- `asyncio.sleep(d)` seen from outside: the loop serves every whole second up to `now + d`. -/
def sleepOps : Nat → List Op
  | 0 => [.settle]
  | d + 1 => .settle :: .jump 1 :: sleepOps d

/-! ### The removal report: `EventBus.emit(SearchRequestRemovedEvent)` inside the timer task

`_timeout_search_request` (manager.py:333-335) runs inside the request's own `Timer.runner` task: it deletes the
registry entry and then awaits `EventBus.emit` (events.py:156-173), which calls the registered listeners one
after the other and awaits those that are coroutine functions.  A listener may stay suspended for as long as it
likes; meanwhile every other operation can happen.  `task.cancel()` on the reporting task throws `CancelledError`
into the suspended listener (when a task cancels *itself*: into the next listener that really suspends); `emit`
catches `Exception` only, so the listeners after it would never be told.

The layer below keeps the timer task alive while it reports.  `Emission.tid` is that task, `told` the number of
listeners called so far (the last of them may still be suspended), `cancelled` whether `Timer.cancel` hit the
task.  `NOp.resume rid` is one step of the schedule: the suspended listener returns and the next one is called (a
listener that never suspends is one that is resumed at once, so every mix of plain / slow listeners is an op
list).  `Timer.cancel` is called by `remove_request`, by `Timer.reschedule` and by a direct `Timer.cancel` — always
on the Timer of a request found through `SearchManager.requests` (`cancelTarget`; `cancelTarget_marks` /
`cancelTarget_complete` in Proofs/Search.lean tie it to what `step` does to the pending tasks).
`listeners` counts the listeners registered for `SearchRequestRemovedEvent`. -/

structure Emission where
  rid : Nat
  ticket : Nat
  tid : Nat                 -- the `Timer.runner` task that runs `_timeout_search_request`
  told : Nat                -- listeners called so far
  cancelled : Bool          -- `task.cancel()` hit the reporting task
deriving Repr, DecidableEq

structure NState where
  base : State
  listeners : Nat
  reporting : List Emission
deriving Repr

def ninit (cfg : Cfg) (listeners : Nat) : NState :=
  { base := init cfg, listeners := listeners, reporting := [] }

inductive NOp
  | base (op : Op)
  | resume (rid : Nat)      -- the listener that holds the report for request `rid` returns
deriving Repr, DecidableEq

inductive NObs
  | base (o : Obs)
  | told (t rid tk i : Nat)       -- listener `i` (0-based) is called with the removal of request `rid`
  | finished (t rid tk : Nat)     -- `emit` returned, the timer task is done
  | aborted (t rid tk i : Nat)    -- CancelledError inside `emit` after `i` listeners were called: the others never are
  | noEmission                    -- harness: no report for that request is in progress
deriving Repr, DecidableEq

/-- The task on which `op` calls `task.cancel()` (through `Timer.cancel`, tasks.py:90-97): the handle of the Timer
of the registered request with that ticket (manager.py:111-114; tasks.py:103-107). -/
def timerOf (s : State) (tk : Nat) : Option Nat :=
  match lookup s tk with
  | none => none
  | some r =>
    match r.timeout with
    | none => none
    | some _ => r.handle

def cancelTarget (s : State) : Op → Option Nat
  | .remove tk => timerOf s tk
  | .timerCancel tk => timerOf s tk
  | .timerReschedule tk _ => timerOf s tk
  | _ => none

def hit (target : Option Nat) (e : Emission) : Emission :=
  if target = some e.tid then { e with cancelled := true } else e

/-- `_timeout_search_request` reaches `emit`: the first listener is called in the same step. -/
def newEmission : Obs → Option Emission
  | .removed _ rid tk _ tid => some { rid := rid, ticket := tk, tid := tid, told := 1, cancelled := false }
  | _ => none

def firstTold : Obs → Option NObs
  | .removed t rid tk _ _ => some (.told t rid tk 0)
  | _ => none

def bump (rid : Nat) (e : Emission) : Emission := if e.rid = rid then { e with told := e.told + 1 } else e

def nstep (s : NState) : NOp → NState × List NObs
  | .base op =>
    let r := step s.base op
    let rep := s.reporting.map (hit (cancelTarget s.base op))
    if s.listeners = 0 then ({ s with base := r.1, reporting := rep }, r.2.map .base)
    else ({ s with base := r.1, reporting := rep ++ r.2.filterMap newEmission },
          r.2.map .base ++ r.2.filterMap firstTold)
  | .resume rid =>
    match s.reporting.find? (·.rid = rid) with
    | none => (s, [.noEmission])
    | some e =>
      if e.cancelled then
        ({ s with reporting := s.reporting.filter (·.rid ≠ rid) }, [.aborted s.base.now e.rid e.ticket e.told])
      else if e.told < s.listeners then
        ({ s with reporting := s.reporting.map (bump rid) }, [.told s.base.now e.rid e.ticket e.told])
      else
        ({ s with reporting := s.reporting.filter (·.rid ≠ rid) }, [.finished s.base.now e.rid e.ticket])

def nrun : NState → List NOp → NState × List NObs
  | s, [] => (s, [])
  | s, op :: ops =>
    let r := nstep s op
    let r2 := nrun r.1 ops
    (r2.1, r.2 ++ r2.2)

/-- `SearchManager.stop()` (manager.py:437-457) as far as requests are concerned: the wishlist task and the Timer
of every registered request are cancelled (the requests stay registered). A derived op list, like `sleepOps`. -/
def stopOps (s : State) : List Op :=
  (s.requests.filter (·.timeout.isSome)).map (fun r => Op.timerCancel r.ticket) ++ [.serverClosing]

end AioslskVerif.Search
