import AioslskVerif.Generated.RateConstants
/-!
Model of `aioslsk/network/rate_limiter.py` and of `Network.set_*_speed_limit`
(network.py:349-375).

Time is counted in *ticks* of 1/1024 s (the correspondence harness only produces clock
readings on that grid, on which the Python float expression
`(limit_bps - bucket) * time_passed` is exact), tokens are bytes.
-/
namespace AioslskVerif.Rate
open AioslskVerif.Generated.Rate

/-- ticks per second -/
def tps : Nat := 1024

/-- A `LimitedRateLimiter`: `L = limit_kbps * 1024`. -/
structure Lim where
  L : Nat
  bucket : Nat
  last : Nat
deriving Repr, DecidableEq

/-- `add_tokens` -/
def addTokens (s : Lim) (n : Nat) : Lim :=
  if s.bucket + n > s.L then { s with bucket := s.L } else { s with bucket := s.bucket + n }

/-- `is_empty` -/
def isEmpty (s : Lim) : Bool := s.bucket < minBucket

/-- `refill` with `time.monotonic() = now` (rate_limiter.py:84-96). -/
def refill (s : Lim) (now : Nat) : Lim × Bool :=
  if s.L = s.bucket then (s, false)
  else
    let s1 := if s.bucket < s.L then addTokens s ((s.L - s.bucket) * (now - s.last) / tps) else s
    let s2 := { s1 with last := now }
    (s2, isEmpty s2)

/-- one iteration of the `take_tokens` loop: returns the grant (0 = "sleep and poll again"). -/
def poll (s : Lim) (now : Nat) : Lim × Nat :=
  let r := refill s now
  if r.2 then (r.1, 0) else ({ r.1 with bucket := r.1.bucket - minBucket }, minBucket)

/-- The limiter object held by `Network`: unlimited or limited. -/
inductive Limiter
  | unlimited
  | limited (s : Lim)
deriving Repr, DecidableEq

def Limiter.bucket : Limiter → Nat
  | .unlimited => 0
  | .limited s => s.bucket
def Limiter.last : Limiter → Nat
  | .unlimited => 0
  | .limited s => s.last

/-- `RateLimiter.create_limiter(kbps)` followed by `copy_tokens(old)` (network.py:355-358). -/
def setLimit (old : Limiter) (kbps : Nat) : Limiter :=
  if kbps = 0 then .unlimited
  else .limited ({ (addTokens { L := kbps * bytesPerKb, bucket := 0, last := 0 } old.bucket) with last := old.last })

def Limiter.poll : Limiter → Nat → Limiter × Nat
  | .unlimited, _ => (.unlimited, unlimitedGrant)
  | .limited s, now => let r := Rate.poll s now; (.limited r.1, r.2)

/-- Operations of the correspondence: the clock only moves forward. -/
inductive Op
  | poll (dt : Nat)          -- advance the clock by dt ticks, then one poll
  | setLimit (kbps : Nat)
deriving Repr

structure St where
  lim : Limiter
  now : Nat
  granted : Nat              -- ghost: sum of grants of limited limiters
deriving Repr

def step (s : St) : Op → St × Nat
  | .poll dt =>
    let now := s.now + dt
    let r := s.lim.poll now
    ({ lim := r.1, now := now,
       granted := s.granted + (match s.lim with | .unlimited => 0 | .limited _ => r.2) }, r.2)
  | .setLimit k => ({ s with lim := setLimit s.lim k }, 0)

/-! ### The FIFO lock of `LimitedRateLimiter.take_tokens` (rate_limiter.py: `async with self._lock`)

Waiters are served one at a time in order of arrival: the lock holder polls (and sleeps `INTERVAL`
between empty polls) until it is granted tokens, then releases; `asyncio.Lock.release` wakes the
first waiter, which polls at once (same clock reading) — a cascade while the bucket still has tokens. -/

structure LObj where
  lim : Lim
  holder : Option Nat       -- poller inside the `async with` block (asleep between two polls)
  queue : List Nat          -- pollers waiting for the lock, in order of arrival
deriving Repr, DecidableEq

/-- lock released at clock `now`: hand over along the queue while polls succeed; returns the pollers
served, in order -/
def cascade (lim : Lim) (now : Nat) : List Nat → LObj × List Nat
  | [] => ({ lim := lim, holder := none, queue := [] }, [])
  | q :: rest =>
    let r := Rate.poll lim now
    if r.2 = 0 then ({ lim := r.1, holder := some q, queue := rest }, [])
    else
      let c := cascade r.1 now rest
      (c.1, q :: c.2)

/-- the holder's sleep is over (or it just acquired the lock): one poll at clock `now` -/
def LObj.holderPoll (o : LObj) (now : Nat) : LObj × List Nat :=
  match o.holder with
  | none => (o, [])
  | some h =>
    let r := Rate.poll o.lim now
    if r.2 = 0 then ({ o with lim := r.1 }, [])
    else
      let c := cascade r.1 now o.queue
      (c.1, h :: c.2)

/-- poller `p` calls `take_tokens()` at clock `now` -/
def LObj.arrive (o : LObj) (p now : Nat) : LObj × List Nat :=
  match o.holder with
  | none => ({ o with holder := some p }).holderPoll now      -- lock free: acquire and poll at once
  | some _ => ({ o with queue := o.queue ++ [p] }, [])        -- wait for the lock

/-! ### Limiter objects as `Network` and its connections hold them

`set_*_speed_limit` creates a *new* object and re-points every connection at it; a
`take_tokens()` call that is pending (holding or awaiting the old object's lock) stays with the
object it started on. -/

inductive NObj
  | unlimited
  | limited (o : LObj)
deriving Repr

def NObj.limiter : NObj → Limiter
  | .unlimited => .unlimited
  | .limited o => .limited o.lim

structure Net where
  objs : List NObj             -- every limiter object created so far; index = identity
  cur : Nat                    -- the object connections are pointed at
  bound : List (Nat × Nat)     -- (poller, object its pending `take_tokens` belongs to)
  now : Nat
deriving Repr

def Net.objOf (n : Net) (pid : Nat) : Option Nat := (n.bound.find? (·.1 = pid)).map (·.2)

inductive PollStatus | blocked | polled | noObject
deriving Repr, DecidableEq

/-- clock += dt, then poller `pid` is stepped: it starts a `take_tokens()` call on the current
object, or — if it has one pending and is the lock holder — wakes from its sleep and polls.
Returns the served pollers with their grants, the object touched and the status. -/
def Net.poll (n : Net) (pid dt : Nat) : Net × List (Nat × Nat) × Nat × PollStatus :=
  let now := n.now + dt
  match n.objOf pid with
  | some i =>
    match n.objs[i]? with
    | some (.limited o) =>
      if o.holder = some pid then
        let r := o.holderPoll now
        ({ n with objs := n.objs.set i (.limited r.1), now := now,
                  bound := n.bound.filter (fun b => !r.2.contains b.1) },
         r.2.map (·, Generated.Rate.minBucket), i, .polled)
      else ({ n with now := now }, [], i, .blocked)
    | _ => ({ n with now := now }, [], i, .noObject)
  | none =>
    let i := n.cur
    match n.objs[i]? with
    | some .unlimited => ({ n with now := now }, [(pid, Generated.Rate.unlimitedGrant)], i, .polled)
    | some (.limited o) =>
      let r := o.arrive pid now
      let waiting := o.holder.isSome
      ({ n with objs := n.objs.set i (.limited r.1), now := now,
                bound := ((pid, i) :: n.bound).filter (fun b => !r.2.contains b.1) },
       r.2.map (·, Generated.Rate.minBucket), i, if waiting then .blocked else .polled)
    | none => ({ n with now := now }, [], i, .noObject)

def Net.setLimit (n : Net) (kbps : Nat) : Net :=
  match n.objs[n.cur]? with
  | none => n
  | some o =>
    let fresh : NObj := match Rate.setLimit o.limiter kbps with
      | .unlimited => .unlimited
      | .limited l => .limited { lim := l, holder := none, queue := [] }
    { n with objs := n.objs ++ [fresh], cur := n.objs.length }

end AioslskVerif.Rate
