import AioslskVerif.Generated.RateConstants
/-!
Model of `aioslsk/network/rate_limiter.py` and of `Network.set_*_speed_limit`
(network.py:349-375).

Time is counted in *ticks* of 1/1024 s (the correspondence harness only produces clock
readings on that grid, on which the Python float expression
`(limit_bps - bucket) * time_passed` is exact), tokens are bytes.
-/
namespace AioslskVerif.Rate
open AioslskVerif.Generated.Rate

/-- ticks per second -/
def tps : Nat := 1024

/-- A `LimitedRateLimiter`: `L = limit_kbps * 1024`. -/
structure Lim where
  L : Nat
  bucket : Nat
  last : Nat
deriving Repr, DecidableEq

/-- `add_tokens` -/
def addTokens (s : Lim) (n : Nat) : Lim :=
  if s.bucket + n > s.L then { s with bucket := s.L } else { s with bucket := s.bucket + n }

/-- `is_empty` -/
def isEmpty (s : Lim) : Bool := s.bucket < minBucket

/-- `refill` with `time.monotonic() = now` (rate_limiter.py:84-96). -/
def refill (s : Lim) (now : Nat) : Lim × Bool :=
  if s.L = s.bucket then (s, false)
  else
    let s1 := if s.bucket < s.L then addTokens s ((s.L - s.bucket) * (now - s.last) / tps) else s
    let s2 := { s1 with last := now }
    (s2, isEmpty s2)

/-- one iteration of the `take_tokens` loop: returns the grant (0 = "sleep and poll again"). -/
def poll (s : Lim) (now : Nat) : Lim × Nat :=
  let r := refill s now
  if r.2 then (r.1, 0) else ({ r.1 with bucket := r.1.bucket - minBucket }, minBucket)

/-- The limiter object held by `Network`: unlimited or limited. -/
inductive Limiter
  | unlimited
  | limited (s : Lim)
deriving Repr, DecidableEq

def Limiter.bucket : Limiter → Nat
  | .unlimited => 0
  | .limited s => s.bucket
def Limiter.last : Limiter → Nat
  | .unlimited => 0
  | .limited s => s.last

/-- `RateLimiter.create_limiter(kbps)` followed by `copy_tokens(old)` (network.py:355-358). -/
def setLimit (old : Limiter) (kbps : Nat) : Limiter :=
  if kbps = 0 then .unlimited
  else .limited ({ (addTokens { L := kbps * bytesPerKb, bucket := 0, last := 0 } old.bucket) with last := old.last })

def Limiter.poll : Limiter → Nat → Limiter × Nat
  | .unlimited, _ => (.unlimited, unlimitedGrant)
  | .limited s, now => let r := Rate.poll s now; (.limited r.1, r.2)

/-- Operations of the correspondence: the clock only moves forward. -/
inductive Op
  | poll (dt : Nat)          -- advance the clock by dt ticks, then one poll
  | setLimit (kbps : Nat)
deriving Repr

structure St where
  lim : Limiter
  now : Nat
  granted : Nat              -- ghost: sum of grants of limited limiters
deriving Repr

def step (s : St) : Op → St × Nat
  | .poll dt =>
    let now := s.now + dt
    let r := s.lim.poll now
    ({ lim := r.1, now := now,
       granted := s.granted + (match s.lim with | .unlimited => 0 | .limited _ => r.2) }, r.2)
  | .setLimit k => ({ s with lim := setLimit s.lim k }, 0)

/-! ### Limiter objects as `Network` and its connections hold them

`set_*_speed_limit` creates a *new* object and re-points every connection at it; a
`take_tokens()` call that is parked in its `sleep` keeps polling the object it started on. -/

structure Net where
  objs : List Limiter          -- every limiter object created so far; index = identity
  cur : Nat                    -- the object connections are pointed at
  parked : List (Nat × Nat)    -- (poller, object its pending `take_tokens` belongs to)
  now : Nat
deriving Repr

def Net.objOf (n : Net) (pid : Nat) : Nat :=
  match n.parked.find? (·.1 = pid) with
  | some p => p.2
  | none => n.cur

def Net.poll (n : Net) (pid dt : Nat) : Net × Nat × Nat :=
  let now := n.now + dt
  let i := n.objOf pid
  match n.objs[i]? with
  | none => ({ n with now := now }, 0, i)
  | some o =>
    let r := o.poll now
    let parked := n.parked.filter (·.1 ≠ pid)
    ({ n with objs := n.objs.set i r.1, now := now,
              parked := if r.2 = 0 then (pid, i) :: parked else parked }, r.2, i)

def Net.setLimit (n : Net) (kbps : Nat) : Net :=
  match n.objs[n.cur]? with
  | none => n
  | some o => { n with objs := n.objs ++ [Rate.setLimit o kbps], cur := n.objs.length }

end AioslskVerif.Rate
