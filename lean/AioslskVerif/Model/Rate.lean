import AioslskVerif.Generated.RateConstants
/-!
Model of `aioslsk/network/rate_limiter.py` and of `Network.set_*_speed_limit`
(network.py:349-375).

Time is counted in *ticks* of 1/1024 s (the correspondence harness only produces clock
readings on that grid, on which the Python float expression
`(limit_bps - bucket) * time_passed` is exact), tokens are bytes.
-/
namespace AioslskVerif.Rate
open AioslskVerif.Generated.Rate

/-- ticks per second -/
def tps : Nat := 1024

/-- A `LimitedRateLimiter`: `L = limit_kbps * 1024`. -/
structure Lim where
  L : Nat
  bucket : Nat
  last : Nat
deriving Repr, DecidableEq

/-- `add_tokens` -/
def addTokens (s : Lim) (n : Nat) : Lim :=
  if s.bucket + n > s.L then { s with bucket := s.L } else { s with bucket := s.bucket + n }

/-- `is_empty` -/
def isEmpty (s : Lim) : Bool := s.bucket < minBucket

/-- `refill` with `time.monotonic() = now` (rate_limiter.py:84-96). -/
def refill (s : Lim) (now : Nat) : Lim × Bool :=
  if s.L = s.bucket then (s, false)
  else
    let s1 := if s.bucket < s.L then addTokens s ((s.L - s.bucket) * (now - s.last) / tps) else s
    let s2 := { s1 with last := now }
    (s2, isEmpty s2)

/-- one iteration of the `take_tokens` loop: returns the grant (0 = "sleep and poll again"). -/
def poll (s : Lim) (now : Nat) : Lim × Nat :=
  let r := refill s now
  if r.2 then (r.1, 0) else ({ r.1 with bucket := r.1.bucket - minBucket }, minBucket)

/-- The limiter object held by `Network`: unlimited or limited. An unlimited limiter limits
nothing but keeps the bucket and refill clock of the limiter it replaced for the one that replaces
it (`UnlimitedRateLimiter.copy_tokens`, rate_limiter.py:77-82). -/
inductive Limiter
  | unlimited (bucket last : Nat)
  | limited (s : Lim)
deriving Repr, DecidableEq

def Limiter.bucket : Limiter → Nat
  | .unlimited b _ => b
  | .limited s => s.bucket
def Limiter.last : Limiter → Nat
  | .unlimited _ l => l
  | .limited s => s.last

/-- `RateLimiter.create_limiter(kbps)` followed by `copy_tokens(old)` (network.py:357-360). -/
def setLimit (old : Limiter) (kbps : Nat) : Limiter :=
  if kbps = 0 then .unlimited old.bucket old.last
  else .limited ({ (addTokens { L := kbps * bytesPerKb, bucket := 0, last := 0 } old.bucket) with last := old.last })

def Limiter.poll : Limiter → Nat → Limiter × Nat
  | .unlimited b l, _ => (.unlimited b l, unlimitedGrant)
  | .limited s, now => let r := Rate.poll s now; (.limited r.1, r.2)

/-- Operations of the correspondence: the clock only moves forward. -/
inductive Op
  | poll (dt : Nat)          -- advance the clock by dt ticks, then one poll
  | setLimit (kbps : Nat)
deriving Repr

structure St where
  lim : Limiter
  now : Nat
  granted : Nat              -- ghost: sum of grants of limited limiters
deriving Repr

def step (s : St) : Op → St × Nat
  | .poll dt =>
    let now := s.now + dt
    let r := s.lim.poll now
    ({ lim := r.1, now := now,
       granted := s.granted + (match s.lim with | .unlimited _ _ => 0 | .limited _ => r.2) }, r.2)
  | .setLimit k => ({ s with lim := setLimit s.lim k }, 0)

/-! ### The FIFO lock of `LimitedRateLimiter.take_tokens` (rate_limiter.py: `async with self._lock`)

Waiters are served one at a time in order of arrival: the lock holder polls (and sleeps `INTERVAL`
between empty polls) until it is granted tokens, then releases; `asyncio.Lock.release` wakes the
first waiter, which polls at once (same clock reading) — a cascade while the bucket still has tokens. -/

structure LObj where
  lim : Lim
  holder : Option Nat       -- poller inside the `async with` block (asleep between two polls)
  queue : List Nat          -- pollers waiting for the lock, in order of arrival
deriving Repr, DecidableEq

/-- lock released at clock `now`: hand over along the queue while polls succeed; returns the pollers
served, in order -/
def cascade (lim : Lim) (now : Nat) : List Nat → LObj × List Nat
  | [] => ({ lim := lim, holder := none, queue := [] }, [])
  | q :: rest =>
    let r := Rate.poll lim now
    if r.2 = 0 then ({ lim := r.1, holder := some q, queue := rest }, [])
    else
      let c := cascade r.1 now rest
      (c.1, q :: c.2)

/-- the holder's sleep is over (or it just acquired the lock): one poll at clock `now` -/
def LObj.holderPoll (o : LObj) (now : Nat) : LObj × List Nat :=
  match o.holder with
  | none => (o, [])
  | some h =>
    let r := Rate.poll o.lim now
    if r.2 = 0 then ({ o with lim := r.1 }, [])
    else
      let c := cascade r.1 now o.queue
      (c.1, h :: c.2)

/-- poller `p` calls `take_tokens()` at clock `now` -/
def LObj.arrive (o : LObj) (p now : Nat) : LObj × List Nat :=
  match o.holder with
  | none => ({ o with holder := some p }).holderPoll now      -- lock free: acquire and poll at once
  | some _ => ({ o with queue := o.queue ++ [p] }, [])        -- wait for the lock

/-! ### Limiter objects as `Network` and its connections hold them

`set_*_speed_limit` creates a *new* object, copies the tokens and the refill clock of the old one,
makes the new object the old one's `successor` and re-points every connection at it. A replaced
object grants nothing any more: a `take_tokens()` call that is pending on it (asleep as the lock
holder, or waiting for its lock) is handed over to the successor when it next runs — the holder
when its sleep ends, the waiters one after the other as the lock is passed down the queue — and
there it queues up like a new request (rate_limiter.py: `while self.successor is None` /
`return await self.successor.take_tokens()`). Objects form a chain in order of creation: the
successor of object `i` is object `i+1`. -/

inductive NObj
  | unlimited (bucket last : Nat)
  | limited (o : LObj)
deriving Repr

def NObj.limiter : NObj → Limiter
  | .unlimited b l => .unlimited b l
  | .limited o => .limited o.lim

/-- what became of a request -/
inductive Fate
  | granted (n : Nat)
  | asleep                   -- holds the lock of the current object, bucket empty: sleeps `INTERVAL`
  | queued                   -- waits for the lock of a limited object
deriving Repr, DecidableEq

/-- the grant list of one request -/
def fateGrants (p : Nat) : Fate → List (Nat × Nat)
  | .granted g => [(p, g)]
  | _ => []

/-- poller `p` calls `take_tokens()` on the **current** object (the one without a successor) at clock `now` -/
def enterCur (p now : Nat) : NObj → NObj × Fate
  | .unlimited b l => (.unlimited b l, .granted unlimitedGrant)
  | .limited o =>
    match o.holder with
    | some _ => (.limited { o with queue := o.queue ++ [p] }, .queued)        -- wait for the lock
    | none =>
      let r := Rate.poll o.lim now                                             -- lock free: acquire and poll at once
      if r.2 = 0 then (.limited { o with lim := r.1, holder := some p }, .asleep)
      else (.limited { o with lim := r.1 }, .granted r.2)

/-- poller `p` calls `take_tokens()` on the first of the replaced objects `olds` (in order of creation; their chain of
successors ends in the current object `cur`). A limited object whose lock is held makes the request wait there; a replaced
object whose lock is free passes it on to its successor at once. -/
def enterChain (p now : Nat) : List NObj → NObj → List NObj × NObj × Fate
  | [], cur => let r := enterCur p now cur; ([], r.1, r.2)
  | .unlimited b l :: rest, cur =>
    let r := enterChain p now rest cur
    (.unlimited b l :: r.1, r.2.1, r.2.2)
  | .limited o :: rest, cur =>
    match o.holder with
    | some _ => (.limited { o with queue := o.queue ++ [p] } :: rest, cur, .queued)
    | none =>
      let r := enterChain p now rest cur
      (.limited o :: r.1, r.2.1, r.2.2)

/-- the requests `ps` call `take_tokens()` one after the other at clock `now`; returns the grants in order -/
def enterAll (now : Nat) : List Nat → List NObj → NObj → List NObj × NObj × List (Nat × Nat)
  | [], olds, cur => (olds, cur, [])
  | p :: ps, olds, cur =>
    let r := enterChain p now olds cur
    let c := enterAll now ps r.1 r.2.1
    match r.2.2 with
    | .granted n => (c.1, c.2.1, (p, n) :: c.2.2)
    | _ => c

structure Net where
  olds : List NObj             -- replaced limiter objects, in order of creation (index = identity)
  cur : NObj                   -- the object connections are pointed at; identity `olds.length`
  now : Nat
deriving Repr

def Net.objs (n : Net) : List NObj := n.olds ++ [n.cur]

/-- where a pending request is: (object index, is it the lock holder) -/
def findPending (pid : Nat) : List NObj → Nat → Option (Nat × Bool)
  | [], _ => none
  | .unlimited _ _ :: rest, i => findPending pid rest (i + 1)
  | .limited o :: rest, i =>
    if o.holder = some pid then some (i, true)
    else if o.queue.contains pid then some (i, false)
    else findPending pid rest (i + 1)

/-- the sleep of the holder of the **current** object is over: poll; on a grant the lock goes down the queue while
polls succeed -/
def wakeCur (now : Nat) : NObj → NObj × List (Nat × Nat)
  | .limited o => let r := o.holderPoll now; (.limited r.1, r.2.map (·, minBucket))
  | c => (c, [])

/-- the sleep of the holder of the **replaced** object `olds[i]` is over: holder and queue move on to the successor, in
this order, and queue up there like new requests -/
def wakeOld (now i : Nat) (olds : List NObj) (cur : NObj) : List NObj × NObj × List (Nat × Nat) :=
  match olds[i]? with
  | some (.limited o) =>
    let movers := o.holder.toList ++ o.queue
    let r := enterAll now movers (olds.drop (i + 1)) cur
    (olds.take i ++ [.limited { o with holder := none, queue := [] }] ++ r.1, r.2.1, r.2.2)
  | _ => (olds, cur, [])

/-- clock += dt, then poller `pid` is stepped: if it has no request pending it calls `take_tokens()` on the current
object; if it is asleep as a lock holder its sleep ends; if it waits for a lock nothing happens. Returns the grants
made in this step, in order. -/
def Net.poll (n : Net) (pid dt : Nat) : Net × List (Nat × Nat) :=
  let now := n.now + dt
  match findPending pid n.objs 0 with
  | some (i, true) =>
    if i < n.olds.length then
      let r := wakeOld now i n.olds n.cur
      ({ olds := r.1, cur := r.2.1, now := now }, r.2.2)
    else
      let r := wakeCur now n.cur
      ({ n with cur := r.1, now := now }, r.2)
  | some (_, false) => ({ n with now := now }, [])
  | none =>
    let r := enterCur pid now n.cur
    ({ n with cur := r.1, now := now }, fateGrants pid r.2)

/-- `set_*_speed_limit(kbps)`: a new object takes over tokens and clock; the old one becomes a replaced object -/
def Net.setLimit (n : Net) (kbps : Nat) : Net :=
  let fresh : NObj := match Rate.setLimit n.cur.limiter kbps with
    | .unlimited b l => .unlimited b l
    | .limited l => .limited { lim := l, holder := none, queue := [] }
  { n with olds := n.olds ++ [n.cur], cur := fresh }

/-! ### Bytes follow grants — the chunk loops of `send_file` / `receive_file` (connection.py)

`send_file` puts a chunk on the wire in the step in which its tokens were granted. `receive_file` takes its
tokens BEFORE the read (`bytes_to_read = await limiter.take_tokens(); data = await receive_data(bytes_to_read)`):
the bytes move when the peer delivers them, possibly much later and under another limit, and a short read wastes
the rest of the grant. Connections are numbered `0 … k-1`; `holding[c]` = tokens granted to `c` and not used yet. -/

inductive XEv
  | grant (c n : Nat)      -- connection `c` is granted `n` tokens (what was left of its previous grant is wasted)
  | move (c m : Nat)       -- the read of connection `c` returns `m` bytes (at most what it holds moves)
deriving Repr

structure XSt where
  holding : List Nat
  granted : Nat            -- tokens granted so far, all connections together
  moved : Nat              -- bytes moved so far, all connections together
deriving Repr

def xstep (s : XSt) : XEv → XSt
  | .grant c n =>
    if c < s.holding.length then { s with holding := s.holding.set c n, granted := s.granted + n } else s
  | .move c m =>
    if c < s.holding.length then
      { s with holding := s.holding.set c 0, moved := s.moved + min m (s.holding.getD c 0) }
    else s

def xrun (s : XSt) (evs : List XEv) : XSt := evs.foldl xstep s

end AioslskVerif.Rate
