-- This module serves as the root of the `AioslskVerif` library.
-- Import modules here that should be built as part of the library.
import AioslskVerif.Basic
