-- Root of the library (written by tools/mk_manifest.py): the property theorems of every claimed check.
import AioslskVerif.Props.C01
import AioslskVerif.Props.C02
import AioslskVerif.Props.C03
import AioslskVerif.Props.C04
import AioslskVerif.Props.C05
import AioslskVerif.Props.C06
import AioslskVerif.Props.C07
import AioslskVerif.Props.C09
import AioslskVerif.Props.C12
import AioslskVerif.Props.C13
import AioslskVerif.Props.C14
import AioslskVerif.Props.C15
import AioslskVerif.Props.C16
import AioslskVerif.Props.C17
import AioslskVerif.Props.C18
import AioslskVerif.Props.C19
import AioslskVerif.Props.C20
