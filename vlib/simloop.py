"""Deterministic virtual-time asyncio loop used by every concurrency harness.

* `time()` is a virtual clock; when nothing is ready the clock jumps to the next timer.
* `run_in_executor` runs the callable inline (aiofiles, the shares scanner become deterministic).
* `time.time` / `time.monotonic` can be patched to the virtual clock for the duration of a run.
* The ready queue and the callback ordering are CPython's own (FIFO) — only the clock is virtual.
"""
from __future__ import annotations

import asyncio
import heapq
import selectors
import time as _time
from contextlib import contextmanager


class SimLoop(asyncio.SelectorEventLoop):
    def __init__(self, start: float = 1000.0, quantum: float = 0.0, tick: float = 0.0):
        super().__init__(selectors.DefaultSelector())
        self._vt = start
        self._tick = tick      # opt-in: virtual time consumed by one loop iteration (lets a task that spins
                               # on sleep(0) not starve the clock); 0 = exact virtual time
        self.iterations = 0
        self.max_iterations = 2_000_000
        self.exceptions: list[dict] = []
        self.set_exception_handler(self._record_exception)
        self._clock_resolution = 1e-9
        # opt-in: an executor call still runs inline (deterministic), but its result reaches the awaiting task one
        # loop iteration later, as with a real thread pool (`await` on a future that is already done does not
        # suspend, so with the default every `await loop.run_in_executor(...)` is atomic — a window between a check
        # and a claim that straddles such an await cannot open)
        # VERIF_EXSUSP=1: diagnostic knob, turns it on for every harness that does not set it itself (not used by any
        # registered command; some harnesses count loop iterations and report differences that are theirs)
        self.executor_suspends = __import__('os').environ.get('VERIF_EXSUSP') == '1'

    # -- virtual clock ---------------------------------------------------------------------
    def time(self) -> float:
        return self._vt

    def _record_exception(self, loop, context):
        ctx = dict(context)
        exc = ctx.get('exception')
        self.exceptions.append({'message': ctx.get('message'),
                                'exception': repr(exc) if exc is not None else None,
                                'type': type(exc).__name__ if exc is not None else None})

    def _run_once(self):
        self.iterations += 1
        if self.iterations > self.max_iterations:
            raise RuntimeError('SimLoop: iteration budget exhausted (busy loop?)')
        # drop cancelled timer heads, then jump the clock if nothing is ready
        while self._scheduled and self._scheduled[0]._cancelled:
            h = heapq.heappop(self._scheduled)
            h._scheduled = False
            self._timer_cancelled_count = max(0, self._timer_cancelled_count - 1)
        if not self._ready and self._scheduled:
            when = self._scheduled[0]._when
            if when > self._vt:
                self._vt = when
        elif self._tick:
            self._vt += self._tick
        if not self._ready and not self._scheduled and not self._stopping:
            # nothing is ready, no timer is pending and nothing outside the loop can wake it (no threads: the executor
            # runs inline; no real sockets): select() would block for ever. Every task waits for something that cannot
            # happen any more — reported at once instead of after the wall-clock backstop.
            raise WallClockGuard('deadlock: every task waits for something that cannot happen (nothing ready, no timer)')
        super()._run_once()

    def run_in_executor(self, executor, func, *args):
        fut = self.create_future()
        try:
            if getattr(executor, 'pickles', False):
                # what a ProcessPoolExecutor does to the call and to its result: both cross a process boundary as pickles
                # (objects are cloned, not passed by reference) — done in-process so that the run stays deterministic
                import pickle
                func, args = pickle.loads(pickle.dumps((func, args)))
                fut.set_result(pickle.loads(pickle.dumps(func(*args))))
                return fut
            if self.executor_suspends:
                res = func(*args)
                self.call_soon(lambda: fut.cancelled() or fut.set_result(res))
                return fut
            fut.set_result(func(*args))
        except BaseException as e:  # noqa
            if self.executor_suspends:
                self.call_soon(lambda e=e: fut.cancelled() or fut.set_exception(e))
                return fut
            fut.set_exception(e)
        return fut

    # -- helpers -----------------------------------------------------------------------------
    def quiescent(self) -> bool:
        """Nothing ready to run right now (timers may be pending)."""
        return not self._ready

    def next_timer(self):
        for h in sorted(self._scheduled):
            if not h._cancelled:
                return h._when
        return None


class PicklingExecutor:
    """Stand-in for `concurrent.futures.ProcessPoolExecutor` under SimLoop (see `SimLoop.run_in_executor`)."""
    pickles = True

    def shutdown(self, *a, **k):
        pass


class WallClockGuard(BaseException):
    """Raised inside the loop by the wall-clock alarm. A BaseException so that the library's own
    `except Exception` arms cannot swallow it; `run()` converts it to TimeoutError for the caller."""


async def settle(max_iters: int = 10_000):
    """Yield until no callback is ready (does not advance virtual time past the present)."""
    loop = asyncio.get_running_loop()
    for _ in range(max_iters):
        await asyncio.sleep(0)
        # after our own wake-up only our continuation should be ready
        if len(loop._ready) == 0:
            due = [h for h in loop._scheduled if not h._cancelled and h._when <= loop.time()]
            if not due:
                return
    raise RuntimeError('settle: loop does not quiesce')


async def advance(seconds: float):
    """Let `seconds` of virtual time pass (timers due in between fire in order)."""
    await asyncio.sleep(seconds)
    await settle()


@contextmanager
def patched_clock(loop: SimLoop):
    """Make time.time/time.monotonic follow the virtual clock."""
    real_time, real_mono = _time.time, _time.monotonic
    _time.time = lambda: loop.time()
    _time.monotonic = lambda: loop.time()
    try:
        yield
    finally:
        _time.time, _time.monotonic = real_time, real_mono


def run(coro_fn, *args, start: float = 1000.0, patch_clock: bool = True, wall_timeout: float = 60.0,
        tick: float = 0.0):
    """Run `coro_fn(loop, *args)` to completion on a fresh SimLoop; returns (result, loop)."""
    import signal
    loop = SimLoop(start=start, tick=tick)
    asyncio.set_event_loop(loop)

    def on_alarm(signum, frame):
        raise WallClockGuard('wall-clock guard: case took too long')

    # The budget is CPU time of this process (ITIMER_PROF): on a loaded machine a case that needs 2 s of CPU can take a
    # minute of wall time, and a guard that fires then turns load into a false alarm. A busy loop burns CPU and is still
    # caught; a loop that BLOCKS (nothing ready, no timer: select() for ever) burns none — the wall-clock timer stays as a
    # backstop at ten times the budget.
    old = old_prof = None
    try:
        try:
            old = signal.signal(signal.SIGALRM, on_alarm)
            signal.setitimer(signal.ITIMER_REAL, wall_timeout * 10)
            old_prof = signal.signal(signal.SIGPROF, on_alarm)
            signal.setitimer(signal.ITIMER_PROF, wall_timeout)
        except ValueError:
            old = None
        try:
            if patch_clock:
                with patched_clock(loop):
                    res = loop.run_until_complete(coro_fn(loop, *args))
            else:
                res = loop.run_until_complete(coro_fn(loop, *args))
        except WallClockGuard as e:
            raise TimeoutError(str(e)) from None
        return res, loop
    finally:
        try:
            signal.setitimer(signal.ITIMER_REAL, 0)
            signal.setitimer(signal.ITIMER_PROF, 0)
            if old is not None:
                signal.signal(signal.SIGALRM, old)
            if old_prof is not None:
                signal.signal(signal.SIGPROF, old_prof)
        except ValueError:
            pass
        try:
            # cancel what is left so that nothing leaks into the next case
            pending = [t for t in asyncio.all_tasks(loop) if not t.done()]
            for t in pending:
                t.cancel()
            if pending:
                loop.run_until_complete(asyncio.gather(*pending, return_exceptions=True))
        except BaseException:
            pass
        asyncio.set_event_loop(None)
        loop.close()
