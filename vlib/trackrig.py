"""`xferrig.Rig` with the REAL `UserManager` (real `_users` weak dictionary, real `UserTrackingManager`, real
tracking tasks) in place of `StubUsers`, and a simulated server for the user-related traffic.

What the transfer scheduler knows about a user is whatever `UserManager.get_user_object()` returns at the
instant of the decision; a `User` object lives only as long as the tracking manager's `TrackedUser` holds it.
With the stub the status could never be lost; here it is kept exactly as long as the real bookkeeping
(`TransferManager.manage_user_tracking` -> `UserManager.track_user/untrack_user` -> tracking task ->
`AddUser` / `RemoveUser`) keeps it.

`SimServer` plays the server as far as users are concerned:
  * truth per user: status ('UNKNOWN' = no such account: `AddUser.Response(exists=False)`, never reported) and
    privileged flag, changed by the schedule;
  * watch list: users the client asked to watch (`AddUser.Request`) and did not let go (`RemoveUser.Request`);
  * every `AddUser.Request` is answered with the truth at that instant; a change of a watched user is reported
    with `GetUserStatus.Response`; a user who is not watched is not reported (the server has no reason to);
  * the server -> client channel is FIFO: a report for a user whose `AddUser` answer is still in flight is
    delivered behind that answer;
  * every message is delivered the way `Network.on_message_received` delivers it: `MessageReceivedEvent` on
    the event bus first (user manager, then transfer manager, as registered by `SoulSeekClient`), waiting
    request second.
`reply_delay` = 0: the answer arrives in the step in which the request is made (tracking settles within the
step: exact correspondence with `Model/Sched.lean`); > 0: after that virtual delay; None: never (time-out).

Log entries added to `rig.log` (see xferrig):
    ('srv', 'AddUser'|'RemoveUser'|..., username)     client -> server
    ('told', kind, username, status|None, priv|None)  server -> client, kind in 'reply' | 'status'
    ('privlist', [usernames])                         server -> client PrivilegedUsers
    ('friend', username, bool)
and `cycle_info()` gains `inflight` (QUEUED uploads whose initialize task, created by an earlier decision,
has not taken its first step).
"""
from __future__ import annotations

import asyncio
import gc
from typing import Optional

from vlib.xferrig import Rig

def park_heap():
    """Full collections are run between the steps of a case; park everything that exists now (modules, the
    interpreter's own structures, the results of earlier cases) in the permanent generation so that each of them
    only looks at what the running case created."""
    gc.collect()
    gc.freeze()


class _ServerConn:
    """stands for the server connection in `MessageReceivedEvent.connection`"""
    hostname = 'server'
    port = 2416


class SimServer:
    def __init__(self, rig, reply_delay: Optional[float] = 0.0):
        self.rig = rig
        self.reply_delay = reply_delay
        self.truth: dict[str, list] = {}          # username -> [status name, privileged]
        self.watch: set[str] = set()
        self.asked: dict[str, list] = {}          # username -> truth snapshots of AddUser requests not answered yet
        self.behind: dict[str, list] = {}         # username -> messages waiting behind an answer in flight
        self.conn = _ServerConn()

    def status_of(self, username: str) -> list:
        return self.truth.get(username, ['UNKNOWN', False])

    # -- client -> server -------------------------------------------------------------------------------
    async def send_server_messages(self, *messages, raise_on_error: bool = True):
        for m in messages:
            cls = type(m).__qualname__.split('.')[0]
            username = getattr(m, 'username', None)
            self.rig.log.append(('srv', cls, username))
            if cls == 'AddUser':
                self.watch.add(username)
                self.asked.setdefault(username, []).append(list(self.status_of(username)))
            elif cls == 'RemoveUser':
                self.watch.discard(username)
        if not raise_on_error:
            return [(m, None) for m in messages]
        return None

    async def wait_for_server_message(self, message_class, fields=None, timeout: float = 10):
        from aioslsk.protocol.messages import AddUser
        from aioslsk.user.model import UserStatus
        if message_class is not AddUser.Response:
            await asyncio.sleep(timeout)
            raise TimeoutError()
        username = (fields or {})['username']
        snaps = self.asked.get(username) or [list(self.status_of(username))]
        status, _priv = snaps.pop(0)
        if self.reply_delay is None:
            await asyncio.sleep(timeout)
            raise TimeoutError()
        if self.reply_delay > 0:
            self.behind.setdefault(username, [])
            try:
                await asyncio.sleep(self.reply_delay)
            except BaseException:
                # the waiter went away (tracking task cancelled): the answer still arrives on the wire, nobody
                # waits for it; what queued behind it is dropped with the case
                self.behind.pop(username, None)
                raise
        if status == 'UNKNOWN':
            resp = AddUser.Response(username, exists=False)
            await self.deliver('reply', username, None, None, resp)
        else:
            resp = AddUser.Response(username, exists=True, status=UserStatus[status].value, user_stats=None,
                                    country_code='BE')
            await self.deliver('reply', username, status, None, resp)
        for later in self.behind.pop(username, []):
            await self.deliver(*later)
        return resp

    # -- server -> client -------------------------------------------------------------------------------
    async def deliver(self, kind, username, status, priv, message):
        from aioslsk.events import MessageReceivedEvent
        self.rig.log.append(('told', kind, username, status, priv))
        await self.rig.bus.emit(MessageReceivedEvent(message, self.conn))

    async def set_user(self, username: str, status: str, priv: bool):
        """The schedule changes the truth; a watched user is reported."""
        from aioslsk.protocol.messages import GetUserStatus
        from aioslsk.user.model import UserStatus
        self.truth[username] = [status, bool(priv)]
        if username not in self.watch or status == 'UNKNOWN':
            return False
        msg = GetUserStatus.Response(username, UserStatus[status].value, bool(priv))
        if username in self.behind:
            self.behind[username].append(('status', username, status, bool(priv), msg))
            return True
        await self.deliver('status', username, status, bool(priv), msg)
        return True

    async def nudge(self, username: str):
        """A message about `username` that changes nothing (the truth once more): requests a management cycle."""
        from aioslsk.protocol.messages import AddUser
        status, priv = self.status_of(username)
        if status != 'UNKNOWN' and username in self.watch:
            return await self.set_user(username, status, priv)
        await self.deliver('reply', username, None, None, AddUser.Response(username, exists=False))
        return True

    async def privileged_list(self, usernames: list):
        from aioslsk.protocol.messages import PrivilegedUsers
        from aioslsk.events import MessageReceivedEvent
        for u, t in self.truth.items():
            t[1] = u in usernames
        for u in usernames:
            self.truth.setdefault(u, ['UNKNOWN', True])
        self.rig.log.append(('privlist', list(usernames)))
        await self.rig.bus.emit(MessageReceivedEvent(PrivilegedUsers.Response(users=list(usernames)), self.conn))


class TimedLog(list):
    """`rig.log` that also notes the virtual time of every entry (`.times`, same indices)"""

    def __init__(self, loop):
        super().__init__()
        self.loop = loop
        self.times: list[float] = []

    def append(self, entry):
        super().append(entry)
        self.times.append(self.loop.time())


class TrackedRig(Rig):
    def __init__(self, loop, slots: int = 2, teardown: int = 0, reply_delay: Optional[float] = 0.0):
        super().__init__(loop, slots, teardown)
        self.log = TimedLog(loop)
        from aioslsk.events import MessageReceivedEvent
        from aioslsk.user.manager import UserManager
        park_heap()
        self.server = SimServer(self, reply_delay)
        # the stub network gains the two coroutines the tracking code uses
        self.net.send_server_messages = self.server.send_server_messages
        self.net.wait_for_server_message = self.server.wait_for_server_message
        self.stub_users = self.users
        self.users = UserManager(self.settings, self.bus, self.net)      # strong ref: the bus holds listeners weakly
        self.mgr._user_manager = self.users
        # SoulSeekClient creates the user manager before the transfer manager: its listener runs first
        self.bus.unregister(MessageReceivedEvent, self.mgr._on_message_received)
        self.bus.register(MessageReceivedEvent, self.mgr._on_message_received)
        self._wrap_tracking()

    def _wrap_tracking(self):
        mgr = self.mgr
        orig = mgr.manage_user_tracking

        async def wrapped():
            gc.collect()          # whatever nothing refers to any more is gone before the cycle looks
            return await orig()

        mgr.manage_user_tracking = wrapped

    def cycle_info(self) -> dict:
        for t in self.mgr.transfers:       # a decision taken before the schedule registered a new transfer still sees it
            self.adopt(t)
        info = super().cycle_info()
        info['inflight'] = [self.k_of(t) for t in self.mgr.transfers
                            if t.is_upload() and t.state.VALUE.name == 'QUEUED'
                            and t._transfer_task is not None and not t._transfer_task.done()]
        return info

    def held(self) -> dict:
        """`User` objects the user manager holds right now: username -> [status, privileged]"""
        gc.collect()
        return {name: [u.status.name, bool(u.privileged)] for name, u in self.users.users.items()}

    async def stop(self):
        tasks = await self.mgr.stop()
        tasks += await self.users.stop()
        await asyncio.gather(*tasks, return_exceptions=True)
