"""Glue between the real message dataclasses and the Lean wire model's value notation.

Val notation (see lean/AioslskVerif/Driver/C01.lean):
  N n | I i | B 0/1 | S k cp.. | Y hex|- | P a b c d | A k v.. | R k v.. | _
"""
from __future__ import annotations

import dataclasses
import random
import zlib
from typing import Any, Optional


def hexs(b: bytes) -> str:
    return b.hex() if b else '-'


# ------------------------------------------------------------------------------------------------
# value generation (type-directed, boundary biased, in-domain)
# ------------------------------------------------------------------------------------------------

BOUNDS = {'u8': 8, 'u16': 16, 'u32': 32, 'u64': 64, 'ticket': 32}
STR_POOL = ['', 'a', 'abc', 'user name', 'Ünï', '\u00e9', '\u4e2d\u6587', '\U0001F600', 'a\x00b', 'x' * 40,
            'C:\\dir\\file.mp3', '@@abc\\f\\g.flac', '\u20ac\u201a', '\x7f\x80', '\ud7ff\ue000', '\uffff', '\U0010ffff',
            # characters a "helpful" decoder / encoder may eat, fold or replace (byte-order mark and signature handling,
            # stripping, case folding, unicode normalisation, replacement on error, newline translation, mojibake repair)
            '\ufeff', '\ufeffabc', 'abc\ufeff', '\ufeff\ufeff', '\ufffe', '\ufffd', 'a\ufffdb', ' lead', 'trail ', '\ttab\t',
            ' ', '\n', 'a\r\nb', '\r', '\x85', '\u2028\u2029', '\x00', '\x00lead', 'trail\x00', '\x1a', '\u0130\u0131', '\u00df', 'SS',
            'e\u0301', '\u00e9', '\u212b', '\u00c5', '\uff21\uff22', '\u00c3\u00a9', '\u00e2\u20ac\u2122', '\x81\x8d\x8f\x90\x9d',
            '\u200b', '\u200e\u202e', '\u00a0', '\u00ad']


def gen_int(rng: random.Random, bits: int) -> int:
    r = rng.random()
    top = (1 << bits) - 1
    if r < 0.15:
        return 0
    if r < 0.25:
        return 1
    if r < 0.40:
        return top
    if r < 0.55:
        k = rng.randrange(1, bits)
        return rng.choice([(1 << k) - 1, 1 << k, (1 << k) + 1]) & top
    if r < 0.7:
        return rng.randrange(0, 256)
    return rng.randrange(0, top + 1)


def gen_str(rng: random.Random) -> str:
    r = rng.random()
    if r < 0.6:
        return rng.choice(STR_POOL)
    n = rng.choice([1, 2, 3, 5, 17])
    out = []
    for _ in range(n):
        c = rng.choice([rng.randrange(0x20, 0x7f), rng.randrange(0x80, 0x800), rng.randrange(0x800, 0xd800),
                        rng.randrange(0xe000, 0x10000), rng.randrange(0x10000, 0x110000), 0, 0x7f, 0x80, 0x7ff,
                        0x800, 0xffff, 0x10000, 0xfeff, 0xfffd, 0xfffe, 0x20, 0x09, 0x0a, 0x0d, 0x85, 0xa0, 0x2028, 0x130, 0xdf, 0x301])
        out.append(chr(c))
    return ''.join(out)


def gen_val(rng: random.Random, ty: dict, depth: int = 0):
    """Returns a python-side structure: ('N', n) ('I', i) ('B', b) ('S', str) ('Y', bytes) ('P', (a,b,c,d))
    ('A', [..]) ('R', name, [..])"""
    if 'prim' in ty:
        p = ty['prim']
        if p in BOUNDS:
            return ('N', gen_int(rng, BOUNDS[p]))
        if p == 'i32':
            v = rng.choice([0, 1, -1, 2 ** 31 - 1, -2 ** 31, -2 ** 31 + 1, 255, -256, rng.randrange(-2 ** 31, 2 ** 31)])
            return ('I', v)
        if p == 'bool':
            return ('B', rng.random() < 0.5)
        if p == 'str':
            return ('S', gen_str(rng))
        if p == 'bytes':
            n = rng.choice([0, 1, 4, 5, 31])
            return ('Y', bytes(rng.randrange(256) for _ in range(n)))
        if p == 'ip':
            return ('P', tuple(rng.choice([0, 1, 127, 192, 255, rng.randrange(256)]) for _ in range(4)))
        raise ValueError(p)
    if 'arr' in ty:
        n = rng.choice([0, 0, 1, 1, 2, 3]) if depth else rng.choice([0, 1, 1, 2, 3, 5])
        return ('A', [gen_val(rng, ty['arr'], depth + 1) for _ in range(n)])
    return ('R', ty['record'], [gen_val(rng, f['ty'], depth + 1) for f in ty['fields']])


def gen_message(rng: random.Random, schema: dict) -> list:
    """In-domain field values for a schema: list aligned with schema['fields'], None = absent."""
    fields = schema['fields']
    vals: list = [None] * len(fields)
    # first pass: unconditional non-optional (guards refer to these)
    for i, f in enumerate(fields):
        if f['cond'][0] == 'always' and not f['optional']:
            vals[i] = gen_val(rng, f['ty'])

    def active(f):
        c = f['cond']
        if c[0] == 'always':
            return True
        g = vals[c[1]]
        truth = bool(g[1]) if g is not None else False
        return truth if c[0] == 'if_true' else not truth

    opt_active = [i for i, f in enumerate(fields) if f['optional'] and active(f)]
    # present-prefix: optional fields up to `cut` are present
    cut = rng.choice(range(len(opt_active) + 1)) if opt_active else 0
    if rng.random() < 0.5:
        cut = len(opt_active)
    # an optional field whose default is not None must be present (None would decode to the default)
    for k, i in enumerate(opt_active):
        if fields[i]['dflt'][0] not in ('none',) and k >= cut:
            cut = k + 1
    present_opt = set(opt_active[:cut])
    for i, f in enumerate(fields):
        if vals[i] is not None:
            continue
        if not active(f):
            vals[i] = None
        elif f['optional']:
            vals[i] = gen_val(rng, f['ty']) if i in present_opt else None
        else:
            vals[i] = gen_val(rng, f['ty'])
    return vals


# ------------------------------------------------------------------------------------------------
# notation
# ------------------------------------------------------------------------------------------------

def show(v) -> str:
    if v is None:
        return '_'
    t = v[0]
    if t == 'N':
        return f'N {v[1]}'
    if t == 'I':
        return f'I {v[1]}'
    if t == 'B':
        return 'B 1' if v[1] else 'B 0'
    if t == 'S':
        cps = [ord(c) for c in v[1]]
        return ' '.join([f'S {len(cps)}'] + [str(c) for c in cps])
    if t == 'Y':
        return f'Y {hexs(v[1])}'
    if t == 'P':
        return 'P ' + ' '.join(str(x) for x in v[1])
    if t == 'A':
        return ' '.join([f'A {len(v[1])}'] + [show(x) for x in v[1]])
    if t == 'R':
        return ' '.join([f'R {len(v[2])}'] + [show(x) for x in v[2]])
    raise ValueError(v)


def show_message(vals: list) -> str:
    return ' '.join([str(len(vals))] + [show(v) for v in vals])


# ------------------------------------------------------------------------------------------------
# python objects
# ------------------------------------------------------------------------------------------------

def to_py(v, prims):
    if v is None:
        return None
    t = v[0]
    if t in ('N', 'I', 'B', 'S', 'Y'):
        return v[1]
    if t == 'P':
        return '.'.join(str(x) for x in v[1])
    if t == 'A':
        return [to_py(x, prims) for x in v[1]]
    if t == 'R':
        cls = getattr(prims, v[1])
        names = [f.name for f in dataclasses.fields(cls)]
        return cls(**{n: to_py(x, prims) for n, x in zip(names, v[2])})
    raise ValueError(v)


def msg_class(messages_mod, schema: dict):
    return getattr(getattr(messages_mod, schema['name']), schema['dir'].capitalize())


def build(messages_mod, prims, schema: dict, vals: list):
    cls = msg_class(messages_mod, schema)
    kwargs = {}
    for f, v in zip(schema['fields'], vals):
        kwargs[f['name']] = to_py(v, prims)
    return cls(**kwargs)


def from_py(x, ty: dict):
    """Canonical Val structure of a decoded python value, directed by the schema type."""
    if x is None:
        return None
    if 'prim' in ty:
        p = ty['prim']
        if p == 'bool':
            return ('B', bool(x))
        if p == 'i32':
            return ('I', int(x))
        if p in BOUNDS:
            return ('N', int(x))
        if p == 'str':
            return ('S', x)
        if p == 'bytes':
            return ('Y', bytes(x))
        if p == 'ip':
            return ('P', tuple(int(k) for k in x.split('.')))
        raise ValueError(p)
    if 'arr' in ty:
        return ('A', [from_py(e, ty['arr']) for e in x])
    return ('R', ty['record'], [from_py(getattr(x, f['name']), f['ty']) for f in ty['fields']])


def canon_message(obj, schema: dict) -> str:
    vals = [from_py(getattr(obj, f['name']), f['ty']) for f in schema['fields']]
    return show_message(vals)


def schema_index(table: list, obj) -> Optional[int]:
    qn = type(obj).__qualname__          # e.g. Login.Request
    name, direction = qn.split('.')
    fam = None
    for base in type(obj).__mro__:
        pass
    for i, s in enumerate(table):
        if s['name'] == name and s['dir'] == direction.lower():
            return i
    return None


FAMILY_DISPATCH = {
    ('server', 'request'): ('ServerMessage', 'deserialize_request'),
    ('server', 'response'): ('ServerMessage', 'deserialize_response'),
    ('peerinit', 'request'): ('PeerInitializationMessage', 'deserialize_request'),
    ('peer', 'request'): ('PeerMessage', 'deserialize_request'),
    ('distributed', 'request'): ('DistributedMessage', 'deserialize_request'),
}
ID_WIDTH = {'server': 4, 'peer': 4, 'peerinit': 1, 'distributed': 1}


def inflate_arg(frame: bytes, fam: str) -> str:
    try:
        return hexs(zlib.decompress(frame[4 + ID_WIDTH[fam]:]))
    except Exception:
        return '!'


def impl_decode(messages_mod, table: list, fam: str, direction: str, frame: bytes) -> str:
    """Real dispatcher on a frame → canonical line comparable with the driver's `dec` output."""
    clsname, meth = FAMILY_DISPATCH[(fam, direction)]
    try:
        obj = getattr(getattr(messages_mod, clsname), meth)(frame)
    except Exception as e:  # noqa: BLE001 — every Exception subclass is "rejected"
        return 'err ' + classify_exc(e)
    except BaseException as e:  # not an Exception: would kill the reader
        return 'fatal ' + type(e).__name__
    i = schema_index(table, obj)
    if i is None:
        return 'err no-such-class'
    return f'ok {i} ' + canon_message(obj, table[i])


def classify_exc(e: BaseException) -> str:
    import struct
    n = type(e).__name__
    if isinstance(e, struct.error):
        return 'struct'
    if isinstance(e, UnicodeDecodeError):
        return 'unicode'
    if n == 'UnknownMessageError':
        return 'unknown'
    if isinstance(e, zlib.error):
        return 'zlib'
    if isinstance(e, ValueError):
        return 'idmismatch'
    if isinstance(e, (TypeError, KeyError)):
        return 'ctor'
    if type(e) is Exception:
        return 'strlen'
    return 'other:' + n


def parse_message(text: str, schema: dict) -> list:
    """Inverse of show_message, directed by the schema (records need their class name)."""
    toks = text.split()
    pos = 1

    def val(ty):
        nonlocal pos
        t = toks[pos]
        pos += 1
        if t == '_':
            return None
        if t in ('N', 'I'):
            pos += 1
            return (t, int(toks[pos - 1]))
        if t == 'B':
            pos += 1
            return ('B', toks[pos - 1] == '1')
        if t == 'S':
            k = int(toks[pos])
            cps = toks[pos + 1:pos + 1 + k]
            pos += 1 + k
            return ('S', ''.join(chr(int(c)) for c in cps))
        if t == 'Y':
            pos += 1
            h = toks[pos - 1]
            return ('Y', b'' if h == '-' else bytes.fromhex(h))
        if t == 'P':
            pos += 4
            return ('P', tuple(int(x) for x in toks[pos - 4:pos]))
        if t == 'A':
            k = int(toks[pos])
            pos += 1
            return ('A', [val(ty['arr']) for _ in range(k)])
        if t == 'R':
            k = int(toks[pos])
            pos += 1
            return ('R', ty['record'], [val(f['ty']) for f in ty['fields'][:k]])
        raise ValueError(t)
    n = int(toks[0])
    return [val(schema['fields'][i]['ty']) for i in range(n)]
