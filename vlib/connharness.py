"""Shared pieces of the connection harnesses (C10, C11): a FakeNet whose every real suspension point
is a gate the test schedule releases, and helpers to observe a real `Network`.

Real suspension points of network/connection.py and how the schedule controls them:

* `asyncio.open_connection`  -> parked on a future per (host, port); `release_connect(addr, 'ok'|'refuse')`
* `StreamWriter.drain`       -> returns at once (as a real, un-paused transport does) unless the writer
                                has `drain_block` set: then it parks until `release_drain()` / the socket closes
* `StreamWriter.wait_closed` -> returns at once unless `close_block` is set: parks until `release_close()`
* reads                      -> parked until the remote side writes / closes / resets
* timers (`async_timeout`)   -> `fire_timer(loop, conn, kind)` makes exactly one pending timer due now

Nothing here sleeps; virtual time only moves when a schedule asks for it.
"""
from __future__ import annotations

import asyncio
from typing import Optional

from vlib.fakenet import FakeNet, FakeWriter, FakeServerObj  # noqa: F401


class GatedWriter(FakeWriter):
    def __init__(self, *a, **k):
        super().__init__(*a, **k)
        self.drain_block = False
        self.close_block = False
        self._drain_waiters: list[asyncio.Future] = []
        self._close_waiters: list[asyncio.Future] = []
        self.writes: list[bytes] = []       # every write() that reached the wire (in order)
        # (additive, C10 round 4) a transport whose peer has stopped reading while output is still queued: `close()`
        # only marks it closing — it stays alive, still takes writes (a real selector transport appends to its
        # buffer as long as the connection is not lost) and `wait_closed()` does not return before `unstall()`
        self.stall = False
        self.closing_stalled = False
        self.close_exc: Optional[BaseException] = None   # what wait_closed() raises (connection_lost(exc))

    def write(self, data):
        n = len(self.sent)
        try:
            super().write(data)
        finally:
            if len(self.sent) > n:
                self.writes.append(bytes(self.sent[n:]))

    async def drain(self):
        if self._closed:
            raise ConnectionResetError('drain on closed fake socket')
        if self.drain_block:
            fut = asyncio.get_running_loop().create_future()
            self._drain_waiters.append(fut)
            try:
                await fut
            finally:
                if fut in self._drain_waiters:
                    self._drain_waiters.remove(fut)

    def release_drain(self):
        self.drain_block = False
        for f in list(self._drain_waiters):
            if not f.done():
                f.set_result(None)

    def _wake_drain_closed(self):
        for f in list(self._drain_waiters):
            if not f.done():
                f.set_exception(ConnectionResetError('connection lost (fake)'))

    def close(self):
        if self.stall and not self._closed:
            self.closing_stalled = True       # told to close; the queued output keeps the transport alive
            return
        # a graceful close of one side (FIN) does not wake the other side's drain waiters
        was = self._closed
        super().close()
        if not was:
            self._wake_drain_closed()

    def reset(self):
        was = self._closed
        super().reset()
        if not was:
            self._wake_drain_closed()
            if self.peer is not None and isinstance(self.peer, GatedWriter):
                self.peer._wake_drain_closed()

    def is_closing(self):
        return self._closed or self.closing_stalled

    def unstall(self):
        """the peer reads again: the queued output goes out, the transport finishes closing"""
        self.stall = False
        if self.closing_stalled:
            self.closing_stalled = False
            self.close()
        self.release_close()

    async def wait_closed(self):
        if self.close_block or self.closing_stalled:
            fut = asyncio.get_running_loop().create_future()
            self._close_waiters.append(fut)
            try:
                await fut
            finally:
                if fut in self._close_waiters:
                    self._close_waiters.remove(fut)
        elif self.close_exc is not None:
            raise self.close_exc

    def release_close(self, exc: Optional[BaseException] = None):
        self.close_block = False
        for f in list(self._close_waiters):
            if not f.done():
                if exc is not None:
                    f.set_exception(exc)
                else:
                    f.set_result(None)

    def close_parked(self) -> bool:
        return any(not f.done() for f in self._close_waiters)

    def drain_parked(self) -> bool:
        return any(not f.done() for f in self._drain_waiters)


class GatedNet(FakeNet):
    """open_connection parks every attempt until the schedule releases it."""

    def __init__(self):
        super().__init__()
        self.pending: dict = {}          # (host, port) -> future of a parked connect attempt
        self.lib_writers: dict = {}      # (host, port) -> library-side writer of the established pair
        self.rem: dict = {}              # (host, port) -> (remote reader, remote writer)
        self.auto: dict = {}             # (host, port) -> 'ok' | 'refuse'  (attempts that are not parked)
        self.writer_setup: dict = {}     # (host, port) -> callable(lib_writer) run when the pair is made
        self.accept_tasks: dict = {}     # remote addr -> task running ListeningConnection.accept
        # per-object bookkeeping (additive; C10's per-object monitor): every open_connection call with the library
        # object that made it, and every library-side socket with the object it belongs to
        self.attempt_log: list = []      # {'key', 'task', 'owner', 'fut', 'writer'}  (owner: the connection object whose
                                         #  connect() called open_connection, found on the call stack; None if unknown)
        self.incoming_log: list = []     # {'key': remote addr, 'writer', 'owner': None until somebody claims it}

    @staticmethod
    def _calling_connection():
        """The library connection object whose method (transitively) awaits the running open_connection call."""
        import sys
        fr = sys._getframe(2)
        n = 0
        while fr is not None and n < 64:
            n += 1
            obj = fr.f_locals.get('self')
            if obj is not None and hasattr(obj, 'set_state') and hasattr(obj, '_writer') and hasattr(obj, 'hostname'):
                return obj
            fr = fr.f_back
        return None

    def writers_of(self, obj) -> list:
        """library-side writers of every socket that was opened by / handed to `obj`"""
        return ([a['writer'] for a in self.attempt_log if a['owner'] is obj and a['writer'] is not None]
                + [a['writer'] for a in self.incoming_log if a['owner'] is obj])

    def opening_by(self, obj) -> bool:
        """an open_connection call of `obj` is parked and the task that made it is still running"""
        return any(a['owner'] is obj and a['fut'] is not None and not a['fut'].done() and a['task'] is not None
                   and not a['task'].done() for a in self.attempt_log)

    async def start_server(self, cb, host=None, port=None, **kw):
        if port in self.listeners or port in self.bind_fail_ports:
            raise OSError(98, 'address in use (fake)')
        self.listeners[port] = cb
        return FakeServerObj(self, port)

    def _pair(self, lib_peername, lib_sockname, key):
        a_reader, b_reader = asyncio.StreamReader(), asyncio.StreamReader()
        a_writer = GatedWriter(self, a_reader, b_reader, lib_peername, lib_sockname, 'lib')
        b_writer = GatedWriter(self, b_reader, a_reader, lib_sockname, lib_peername, 'remote')
        a_writer.peer, b_writer.peer = b_writer, a_writer
        self.pairs.append((a_writer, b_writer))
        self.lib_writers[key] = a_writer
        self.rem[key] = (b_reader, b_writer)
        setup = self.writer_setup.get(key)
        if setup is not None:
            setup(a_writer)
        return a_reader, a_writer

    async def open_connection(self, host=None, port=None, **kw):
        key = (host, port)
        self.attempts.append(key)
        rec = {'key': key, 'task': asyncio.current_task(), 'owner': self._calling_connection(), 'fut': None,
               'writer': None}
        self.attempt_log.append(rec)
        how = self.auto.get(key)
        if how is None:
            fut = asyncio.get_running_loop().create_future()
            rec['fut'] = fut
            self.pending[key] = fut
            try:
                how = await fut
            finally:
                if self.pending.get(key) is fut:
                    del self.pending[key]
        if how == 'overflow':
            raise OverflowError('bind(): port must be 0-65535. (fake)')
        if how != 'ok':
            raise ConnectionRefusedError(f'{host}:{port} refused (fake)')
        self._port += 1
        reader, writer = self._pair(key, (self.client_ip, self._port), key)
        rec['writer'] = writer
        return reader, writer

    def release_connect(self, key, how: str):
        fut = self.pending.get(key)
        if fut is None or fut.done():
            raise KeyError(f'no parked connect attempt for {key}')
        fut.set_result(how)

    def connect_parked(self, key) -> bool:
        f = self.pending.get(key)
        return f is not None and not f.done()

    def incoming(self, port, remote_addr):
        """A remote peer connects to a listening port of the library (no suspension on our side).
        Returns the remote (reader, writer); the accept callback runs as its own task like in asyncio."""
        cb = self.listeners.get(port)
        if cb is None:
            raise ConnectionRefusedError(f'nothing listens on {port}')
        lib_reader, lib_writer = self._pair(remote_addr, ('0.0.0.0', port), remote_addr)
        self.incoming_log.append({'key': remote_addr, 'writer': lib_writer, 'owner': None})
        self.accept_tasks[remote_addr] = asyncio.ensure_future(cb(lib_reader, lib_writer))
        return self.rem[remote_addr]


# ------------------------------------------------------------------------------------------------
# timers
# ------------------------------------------------------------------------------------------------

def _frames_of(task: asyncio.Task):
    """(function name, frame locals) along the await chain of a suspended task, outermost first."""
    res = []
    co = task.get_coro()
    seen = 0
    while co is not None and seen < 64:
        seen += 1
        fr = getattr(co, 'cr_frame', None) or getattr(co, 'gi_frame', None) or getattr(co, 'ag_frame', None)
        if fr is not None:
            res.append((fr.f_code.co_name, fr.f_locals))
        co = getattr(co, 'cr_await', None) or getattr(co, 'gi_yieldfrom', None) or getattr(co, 'ag_await', None)
    return res


def pending_timers(loop) -> list:
    """[(Timeout object, task, [function names on the task's await chain], [self objects])]."""
    import asyncio.timeouts as at
    out = []
    for h in list(loop._scheduled):
        if h._cancelled:
            continue
        cb = h._callback
        owner = getattr(cb, '__self__', None)
        if isinstance(owner, at.Timeout) and getattr(owner, '_task', None) is not None:
            task = owner._task
            if task.done():
                continue
            frames = _frames_of(task)
            out.append((owner, task, [n for n, _ in frames], [loc.get('self') for _, loc in frames]))
    return out


def fire_timer(loop, conn, kind: str, task=None) -> bool:
    """Make the pending `async_timeout` of `conn` of the given kind due now.
    kind: 'connect' (DataConnection.connect), 'read' (DataConnection._read), 'send' (DataConnection._send),
    'close' (DataConnection.disconnect waiting for wait_closed)."""
    tm = find_timer(loop, conn, kind, task)
    if tm is None:
        return False
    tm.reschedule(loop.time())
    return True


_TIMER_FN = {'connect': 'connect', '_read': 'read', '_send': 'send', 'disconnect': 'close'}


def find_timer(loop, conn, kind: str, task=None):
    """The pending timer of `conn` whose innermost connection frame is the one `kind` names."""
    for tm, t, names, selfs in pending_timers(loop):
        if task is not None and t is not task:
            continue
        inner = None
        for n, s in zip(names, selfs):
            if s is conn and n in _TIMER_FN:
                inner = _TIMER_FN[n]
        if inner == kind:
            return tm
    return None


def fire_wait_timeout(loop, task: asyncio.Task, fn_name: str) -> bool:
    """`asyncio.wait(..., timeout=)` inside `fn_name` of `task`: make its timer due now."""
    names = [n for n, _ in _frames_of(task)]
    if fn_name not in names:
        return False
    for h in list(loop._scheduled):
        if h._cancelled:
            continue
        cb = h._callback
        # asyncio.tasks._wait -> loop.call_later(timeout, _release_waiter, waiter)
        if getattr(cb, '__name__', '') == '_release_waiter' and h._args and h._args[0] is getattr(task, '_fut_waiter', None):
            args = tuple(h._args)
            h.cancel()
            loop.call_soon(cb, *args)
            return True
    return False


# ------------------------------------------------------------------------------------------------
# a real Network on the gated net
# ------------------------------------------------------------------------------------------------

SERVER_ADDR = ('server.fake', 2416)
CLEAR_PORT = 60000
OBFS_PORT = 60001


def make_settings(connect_mode: str = 'fallback', obfuscate: bool = False, clear_port: int = CLEAR_PORT,
                  obfs_port: int = OBFS_PORT):
    from aioslsk.settings import Settings
    s = Settings(credentials={'username': 'me', 'password': 'pw'})
    s.network.server.hostname, s.network.server.port = SERVER_ADDR
    s.network.server.reconnect.auto = False
    s.network.listening.port = clear_port
    s.network.listening.obfuscated_port = obfs_port
    s.network.upnp.enabled = False
    s.network.peer.obfuscate = obfuscate
    from aioslsk.network.network import PeerConnectMode
    s.network.peer.connect_mode = PeerConnectMode(connect_mode)
    return s


class Observer:
    """Strong-referenced EventBus listeners recording what the properties observe."""

    def __init__(self, bus, name_of):
        from aioslsk.events import ConnectionStateChangedEvent, MessageReceivedEvent, PeerInitializedEvent
        self.name_of = name_of
        self.events: list = []           # (name, kind, detail) in emission order
        self._l1, self._l2, self._l3 = self.on_state, self.on_message, self.on_init
        bus.register(ConnectionStateChangedEvent, self._l1)
        bus.register(MessageReceivedEvent, self._l2)
        bus.register(PeerInitializedEvent, self._l3)

    def on_state(self, ev):
        self.events.append((self.name_of(ev.connection), 'state', ev.state.name, ev.close_reason.name))

    def on_message(self, ev):
        self.events.append((self.name_of(ev.connection), 'msg', type(ev.message).__qualname__, ''))

    def on_init(self, ev):
        self.events.append((self.name_of(ev.connection), 'init', 'req' if ev.requested else 'unreq', ''))


async def start_network(loop, net_fake: GatedNet, settings, server=None):
    """Create a real Network: listening ports bound, server connection connected to a SimServer."""
    from aioslsk.events import EventBus
    from aioslsk.network.network import Network
    from vlib.simserver import SimServer
    bus = EventBus()
    network = Network(settings, bus)
    server = server or SimServer()
    net_fake.auto[SERVER_ADDR] = 'ok'
    await network.connect_listening_ports()
    await network.connect_server()
    # the server connection has no reader task until login; start it so that server messages are handled
    network.server_connection.start_reader_task()
    rr, rw = net_fake.rem[SERVER_ADDR]
    srv_task = asyncio.ensure_future(server.handler(rr, rw))
    from vlib.simloop import settle
    await settle()
    return bus, network, server, srv_task


# ------------------------------------------------------------------------------------------------
# await-site audit (DESIGN.md section 2, "How all schedules becomes all op sequences")
# ------------------------------------------------------------------------------------------------

class SiteAudit:
    """After every loop iteration record, for each suspended task, the innermost frame inside
    aioslsk/network/{connection,network}.py and what it awaits: `file:function>awaited`.
    The models name every suspension point of the anchored code; a site that is not in the check's known list
    (e.g. an `await` added in the middle of a critical section) is reported as a correspondence break of kind
    `granularity`, whether or not a generated schedule happens to exploit it."""

    FILES = ('aioslsk/network/connection.py', 'aioslsk/network/network.py')

    def __init__(self, loop):
        self.loop = loop
        self.sites: set = set()
        self.callers: dict = {}          # site -> {`file:function` of the anchored frames above the innermost one}
        orig = loop._run_once

        def run_once():
            orig()
            self.scan()
        loop._run_once = run_once

    def close(self):
        """Undo the hook (and the loop <-> audit reference cycle)."""
        try:
            del self.loop._run_once
        except AttributeError:
            pass
        self.loop = None

    def scan(self):
        if self.loop is None:
            return
        for t in asyncio.all_tasks(self.loop):
            if t.done():
                continue
            co = t.get_coro()
            site, n = None, 0
            chain: list = []
            while co is not None and n < 64:
                n += 1
                code = getattr(co, 'cr_code', None) or getattr(co, 'gi_code', None) or getattr(co, 'ag_code', None)
                nxt = getattr(co, 'cr_await', None) or getattr(co, 'gi_yieldfrom', None) or getattr(co, 'ag_await', None)
                if code is not None and code.co_filename.replace('\\', '/').endswith(self.FILES):
                    ncode = (getattr(nxt, 'cr_code', None) or getattr(nxt, 'gi_code', None)
                             or getattr(nxt, 'ag_code', None)) if nxt is not None else None
                    awaited = ncode.co_name if ncode is not None else ('future' if nxt is not None else 'start')
                    site = f"{code.co_filename.replace(chr(92), '/').rsplit('/', 1)[-1]}:{code.co_name}>{awaited}"
                    chain.append(site.split('>', 1)[0])
                co = nxt
            if site is not None:
                self.sites.add(site)
                self.callers.setdefault(site, set()).update(chain[:-1])
