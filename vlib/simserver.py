"""Scripted protocol endpoints (server / peer) built on the repo's own message classes.

They only use encode/decode of the library; everything they receive is recorded.
"""
from __future__ import annotations

import asyncio
import struct
from typing import Callable, Optional


async def read_frame(reader: asyncio.StreamReader) -> Optional[bytes]:
    """Returns header+body of the next frame, or None on EOF."""
    try:
        hdr = await reader.readexactly(4)
        (n,) = struct.unpack('<I', hdr)
        body = await reader.readexactly(n)
        return hdr + body
    except (asyncio.IncompleteReadError, ConnectionError):
        return None


class SimServer:
    """Minimal SoulSeek server: answers Login, records every request it can decode."""

    def __init__(self, login_ok: bool = True, login_reply: Optional[bytes] = None):
        from aioslsk.protocol import messages as m
        self.m = m
        self.login_ok = login_ok
        self.login_reply = login_reply        # raw bytes to send instead of a proper Login.Response
        self.received: list = []              # decoded request objects (or ('undecodable', bytes))
        self.sessions: list = []              # (reader, writer) per accepted connection
        self.on_request: Optional[Callable] = None   # hook(server, writer, msg)
        self.closed = False

    async def handler(self, reader: asyncio.StreamReader, writer):
        self.sessions.append((reader, writer))
        m = self.m
        while True:
            frame = await read_frame(reader)
            if frame is None:
                return
            try:
                msg = m.ServerMessage.deserialize_request(frame)
            except Exception:
                self.received.append(('undecodable', frame))
                continue
            self.received.append(msg)
            if isinstance(msg, m.Login.Request):
                if self.login_reply is not None:
                    writer.write(self.login_reply)
                elif self.login_ok:
                    writer.write(m.Login.Response(
                        success=True, greeting='hello', ip='1.2.3.4',
                        md5hash='0' * 32, privileged=False).serialize())
                else:
                    writer.write(m.Login.Response(success=False, reason='INVALIDPASS').serialize())
            if self.on_request is not None:
                r = self.on_request(self, writer, msg)
                if asyncio.iscoroutine(r):
                    await r

    def send(self, msg, session: int = -1):
        data = msg if isinstance(msg, (bytes, bytearray)) else msg.serialize()
        self.sessions[session][1].write(data)

    def close(self, session: int = -1):
        self.sessions[session][1].close()

    def requests_of(self, cls) -> list:
        return [r for r in self.received if isinstance(r, cls)]
