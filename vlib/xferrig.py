"""Rig that runs the REAL `TransferManager` (with its real management BackgroundTask, real `Transfer`
objects and state classes, real `Settings` / `EventBus`) against scripted collaborators:

* `StubUsers`   — `get_user_object`, `track_user`, `untrack_user` (real `User` dataclass objects)
* `StubShares`  — every requested file exists (one small real file on disk)
* `StubNetwork` — `send_peer_messages`, `create_peer_response_future`, `create_peer_connection`,
  `queue_server_messages`; every network step a transfer task takes is a *gate* the schedule decides:
  succeed / fail / hang (incl. the file connection of a download: `deliver_file_connection`, offset, file data).  Everything is logged in order (`rig.log`):
      ('connect', k, att, cls)      a peer connection is requested on behalf of transfer k
      ('frame', k, att, cls)        a protocol message about transfer k left
      ('fileconn', k, att, task)    a file connection is requested for transfer k
      ('state', k, old, new)        TransferStateListener event
      ('cycle', [k...], info)       manage_transfers ran and created tasks for these transfers
  Used by props/c05.py and props/c06.py.

Opt-in knobs (defaults keep the behaviour every user of the rig had before): `Rig(..., teardown=n)` — a CANCELLED network
step needs n more loop iterations to unwind (a real connection attempt closes its socket first); `rig.unshared` — remote
paths the shares stub no longer finds (`find_shared_item`, `find_shared_item_cache`); `Rig(..., aux_gates=True)` — every
OTHER peer message that names a transfer's file (PeerUploadFailed, PeerPlaceInQueueRequest, ...) is a gate as well
(attempt id 'aux<n>': the connection for it is slow until the schedule lets it through or fails it, `rig.release_aux`);
`Rig(..., share_delay=n)` — `find_shared_item` / `get_shared_item` take n loop iterations (the real ones ask the file
system through the executor).  'connect' / 'frame' entries carry the name of the task that sent them as a 5th element
and 'peer-conn' as a 6th when the message was written to the connection the peer's own message came in on (a reply).
"""
from __future__ import annotations

import asyncio
import os
import tempfile
from typing import Any, Optional

FILE_SIZE = 10
_tmp_path: Optional[str] = None


def shared_file() -> str:
    """One small real file that every upload serves (idempotent, recreated when missing)."""
    global _tmp_path
    if _tmp_path is None:
        _tmp_path = os.path.join(tempfile.gettempdir(), 'verif-xfer-shared.bin')
    try:
        ok = os.path.getsize(_tmp_path) == FILE_SIZE
    except OSError:
        ok = False
    if not ok:
        tmp = f'{_tmp_path}.{os.getpid()}'
        with open(tmp, 'wb') as f:
            f.write(b'x' * FILE_SIZE)
        os.replace(tmp, _tmp_path)
    return _tmp_path


def _sender() -> Optional[str]:
    """name of the task that is sending (None outside a task)"""
    try:
        t = asyncio.current_task()
    except RuntimeError:
        return None
    return None if t is None else t.get_name()


class Gate:
    """Outcomes of the network steps of one attempt (one task) of one transfer."""

    def __init__(self, loop, teardown: int = 0):
        self.loop = loop
        self.outcomes: dict[str, str] = {}
        self.waiters: dict[str, asyncio.Future] = {}
        self.reached: list[str] = []
        self.teardown = teardown     # loop iterations a CANCELLED network step needs to unwind (connection tear-down)

    async def wait(self, stage: str) -> str:
        self.reached.append(stage)
        if stage in self.outcomes:
            return self.outcomes[stage]
        fut = self.loop.create_future()
        self.waiters[stage] = fut
        try:
            return await fut
        except asyncio.CancelledError:
            # opt-in: the cancelled step does not end at once (a real connection attempt closes its socket first);
            # widens the window between `Task.cancel()` and the end of the task
            for _ in range(self.teardown):
                try:
                    await asyncio.sleep(0)
                except asyncio.CancelledError:
                    break
            raise
        finally:
            if self.waiters.get(stage) is fut:
                del self.waiters[stage]

    def set(self, stage: str, outcome: str):
        self.outcomes[stage] = outcome
        w = self.waiters.get(stage)
        if w is not None and not w.done():
            w.set_result(outcome)

    def blocked_at(self) -> Optional[str]:
        for st, w in self.waiters.items():
            if not w.done():
                return st
        return None


class _Item:
    def __init__(self, path):
        self.path = path

    def get_absolute_path(self):
        return self.path


class StubShares:
    def __init__(self, rig):
        self.rig = rig

    async def _delay(self):
        for _ in range(self.rig.share_delay):
            await asyncio.sleep(0)

    async def get_shared_item(self, remote_path, username=None):
        await self._delay()
        return _Item(shared_file())

    async def get_filesize(self, item):
        return FILE_SIZE

    async def find_shared_item(self, remote_path, username=None):
        await self._delay()
        if remote_path in self.rig.unshared:
            return None
        return _Item(shared_file())

    def find_shared_item_cache(self, remote_path, username=None):
        if remote_path in self.rig.unshared:
            return None
        return _Item(shared_file())

    def calculate_download_path(self, remote_path):
        return self.rig.download_dir, remote_path.replace('\\', '_')

    async def create_directory(self, path):
        os.makedirs(path, exist_ok=True)


class StubUsers:
    def __init__(self):
        from aioslsk.user.model import User
        self._User = User
        self.users: dict[str, Any] = {}
        self.tracked: set = set()

    def get_user_object(self, username: str):
        if username not in self.users:
            self.users[username] = self._User(name=username)
        return self.users[username]

    async def track_user(self, username, flag):
        self.tracked.add(username)

    async def untrack_user(self, username, flag):
        self.tracked.discard(username)


class FakeConn:
    """Stands for the peer / file connection of one attempt."""

    def __init__(self, rig, username, k=None, att=None):
        self.rig = rig
        self.username = username
        self.k = k
        self.att = att
        self.hostname = '10.0.0.2'
        self.port = 2234
        self.queued: list = []
        self.closed = False
        self.connection_type = 'P'
        self.ticket = None

    def _ctx(self):
        if self.k is not None:
            return self.k, self.att
        return self.rig.ctx_of_task()

    def queue_message(self, message):
        self.queued.append(message)
        self.rig.log_frame_for_message(self.username, message, queued=True)

    async def send_message(self, message):
        rig = self.rig
        from aioslsk.exceptions import ConnectionWriteError
        if isinstance(message, (bytes, bytearray)):
            k, att = self._ctx()
            stage = 'ticket' if len(message) == 4 else 'offsetmsg'
            out = await rig.gate(k, att).wait(stage)
            if out != 'ok':
                raise ConnectionWriteError('scripted')
            rig.log.append(('frame', k, att, stage))
            return
        k = rig.k_of_message(self.username, message)
        cls = type(message).__qualname__.split('.')[0]
        if cls == 'PeerTransferReply' and k is None:
            k = rig.dl_ticket.get(getattr(message, 'ticket', None))      # registered by the schedule's peer request
        if cls == 'PeerTransferReply' and k is not None and getattr(message, 'allowed', False):
            # our answer to the uploader's PeerTransferRequest: first network step of initialize-download
            att = rig.begin_attempt(k, 'dl-init', ticket=message.ticket)
            out = await rig.gate(k, att).wait('dreply')
            if out != 'ok':
                raise ConnectionWriteError('scripted')
            rig.log.append(('frame', k, att, cls, _sender()))
            return
        rig.log.append(('frame', k, None, cls, _sender(), 'peer-conn'))

    async def receive_transfer_ticket(self):
        return self.ticket

    async def receive_transfer_offset(self):
        from aioslsk.exceptions import ConnectionReadError
        k, att = self._ctx()
        out = await self.rig.gate(k, att).wait('offset')
        if out != 'ok':
            raise ConnectionReadError('scripted')
        return 0

    def set_connection_state(self, state):
        pass

    async def send_file(self, handle, callback):
        from aioslsk.exceptions import ConnectionWriteError
        k, att = self._ctx()
        out = await self.rig.gate(k, att).wait('file')
        if out != 'ok':
            raise ConnectionWriteError('scripted')
        data = await handle.read()
        callback(data)
        self.rig.log.append(('frame', k, att, 'filedata'))

    async def receive_until_eof(self, raise_exception=True):
        return None

    async def receive_file(self, handle, size, callback):
        from aioslsk.exceptions import ConnectionReadError
        k, att = self._ctx()
        out = await self.rig.gate(k, att).wait('file')
        if out != 'ok':
            raise ConnectionReadError('scripted')
        data = b'y' * size
        await handle.write(data)
        callback(data)

    async def disconnect(self, reason=None):
        self.closed = True


class StubNetwork:
    def __init__(self, rig):
        self.rig = rig
        self.server_messages: list = []

    async def send_peer_messages(self, username, *messages, raise_on_error=True):
        from aioslsk.exceptions import ConnectionWriteError, PeerConnectionError
        rig = self.rig
        for message in messages:
            cls = type(message).__qualname__.split('.')[0]
            k = rig.k_of_message(username, message)
            if cls == 'PeerTransferRequest' and k is not None:
                att = rig.begin_attempt(k, 'ul-init', ticket=message.ticket)
                stage = 'send'
            elif cls == 'PeerTransferQueue' and k is not None:
                att = rig.begin_attempt(k, 'queue-remotely')
                stage = 'send'
            elif rig.aux_gates and k is not None:
                # any other message about a transfer's file: the connection it needs is slow as well
                att = rig.begin_aux(k, cls)
                stage = 'send'
            else:
                rig.log.append(('connect', k, None, cls, _sender()))
                rig.log.append(('frame', k, None, cls, _sender()))
                continue
            rig.log.append(('connect', k, att, cls, _sender()))
            try:
                out = await rig.gate(k, att).wait(stage)
            finally:
                rig.end_aux(k, att)
            if out == 'fail-conn':
                raise PeerConnectionError('scripted')
            if out == 'fail-write':
                raise ConnectionWriteError('scripted')
            rig.log.append(('frame', k, att, cls, _sender()))

    def create_peer_response_future(self, peer, message_class, fields=None):
        rig = self.rig
        ticket = (fields or {}).get('ticket')
        if ticket not in rig.by_ticket:
            # a response nobody scripted (e.g. PeerPlaceInQueueReply): it never arrives, the caller's own timeout ends the wait
            return rig.loop.create_future()
        k, att = rig.by_ticket[ticket]
        fut = rig.loop.create_future()
        g = rig.gate(k, att)
        g.reached.append('reply')

        def resolve(outcome):
            if fut.done():
                return
            from aioslsk.protocol.messages import PeerTransferReply
            if outcome == 'allow':
                fut.set_result((FakeConn(rig, peer, k, att), PeerTransferReply.Request(ticket=ticket, allowed=True)))
            elif outcome == 'deny':
                fut.set_result((FakeConn(rig, peer, k, att),
                                PeerTransferReply.Request(ticket=ticket, allowed=False, reason='Cancelled')))
            # 'timeout': never resolved

        if 'reply' in g.outcomes:
            resolve(g.outcomes['reply'])
        else:
            w = rig.loop.create_future()
            g.waiters['reply'] = w
            w.add_done_callback(lambda f: (not f.cancelled()) and resolve(f.result()))
            fut.add_done_callback(lambda f: (w.cancel() if not w.done() else None,
                                             g.waiters.pop('reply', None) if g.waiters.get('reply') is w else None))
        return fut

    async def create_peer_connection(self, username, typ, **kw):
        from aioslsk.exceptions import PeerConnectionError
        rig = self.rig
        k, att = rig.ctx_of_task()
        rig.log.append(('fileconn', k, att, _sender()))
        out = await rig.gate(k, att).wait('conn')
        if out != 'ok':
            raise PeerConnectionError('scripted')
        return FakeConn(rig, username, k, att)

    def queue_server_messages(self, *messages):
        self.server_messages += list(messages)
        return []


class Rig:
    def __init__(self, loop, slots: int = 2, teardown: int = 0, aux_gates: bool = False, share_delay: int = 0):
        import logging
        logging.getLogger('aioslsk').setLevel(logging.CRITICAL)
        from aioslsk.settings import Settings
        from aioslsk.events import EventBus
        from aioslsk.transfer.manager import TransferManager
        self.loop = loop
        self.settings = Settings(credentials={'username': 'me', 'password': 'pw'})
        self.settings.transfers.limits.upload_slots = slots
        self.bus = EventBus()
        self.users = StubUsers()
        self.shares = StubShares(self)
        self.net = StubNetwork(self)
        self.mgr = TransferManager(self.settings, self.bus, self.users, self.shares, self.net)
        self.log: list = []
        self.transfers: list = []                  # index k -> Transfer
        self.gates: dict = {}                      # (k, att) -> Gate
        self.attempts: dict[int, int] = {}         # k -> number of attempts begun
        self.attempt_kind: dict = {}               # (k, att) -> 'ul-init' | 'dl-init' | 'queue-remotely'
        self.by_ticket: dict = {}
        self.task_ctx: dict = {}                   # task -> (k, att)
        self.dl_ticket: dict = {}                  # ticket of a scripted PeerTransferRequest -> download index
        self.attempt_ticket: dict = {}             # (k, att) -> ticket
        self.teardown = teardown                   # see Gate.teardown (0 = a cancelled step ends at once)
        self.unshared: set = set()                 # remote paths the shares stub no longer finds (opt-in, default none)
        self.aux_gates = aux_gates                 # other messages naming a transfer's file are gates too (opt-in)
        self.share_delay = share_delay             # loop iterations find_shared_item / get_shared_item take (opt-in)
        self._deliveries: list = []                # strong refs to the event emissions of deliver_file_connection
        self.aux_count: dict[int, int] = {}        # k -> number of aux messages begun
        self.aux_pending: dict[int, list] = {}     # k -> [(att, cls)] aux messages whose connection is still pending
        # downloads are written below a per-process directory that every run starts (and ends) without
        self.download_dir = os.path.join(tempfile.gettempdir(), f'verif-xfer-dl-{os.getpid()}')
        self.cleanup()
        self.cycles = 0
        self.granularity: list = []                # broken scheduling assumptions seen by the cycle wrapper
        self._wrap_cycle()

    # -- bookkeeping -------------------------------------------------------------------------------
    def k_of(self, transfer) -> Optional[int]:
        for i, t in enumerate(self.transfers):
            if t is transfer:
                return i
        return None

    def k_of_message(self, username, message) -> Optional[int]:
        fn = getattr(message, 'filename', None)
        if fn is None:
            return None
        first = None
        for i, t in enumerate(self.transfers):
            if t.username == username and t.remote_path == fn:
                # a file that was removed and queued again has two entries: the message is about the one in the list
                if any(x is t for x in self.mgr._transfers):
                    return i
                if first is None:
                    first = i
        return first

    def begin_attempt(self, k, kind, ticket=None) -> int:
        att = self.attempts.get(k, 0) + 1
        self.attempts[k] = att
        self.attempt_kind[(k, att)] = kind
        if ticket is not None:
            self.by_ticket[ticket] = (k, att)
            self.attempt_ticket[(k, att)] = ticket
        self.task_ctx[asyncio.current_task()] = (k, att)
        return att

    def begin_aux(self, k, cls) -> str:
        n = self.aux_count.get(k, 0) + 1
        self.aux_count[k] = n
        att = f'aux{n}'
        self.aux_pending.setdefault(k, []).append((att, cls))
        return att

    def end_aux(self, k, att):
        if isinstance(att, str):
            self.aux_pending[k] = [x for x in self.aux_pending.get(k, []) if x[0] != att]

    def release_aux(self, k, outcome: str = 'ok') -> Optional[str]:
        """The connection needed by the oldest pending aux message of transfer k is established ('ok') or fails
        ('fail-conn'); returns the message class or None when nothing is pending."""
        pend = self.aux_pending.get(k) or []
        if not pend:
            return None
        att, cls = pend[0]
        self.gate(k, att).set('send', outcome)
        return cls

    def cleanup(self):
        import shutil
        shutil.rmtree(self.download_dir, ignore_errors=True)

    def deliver_file_connection(self, k) -> bool:
        """The uploader opens the file connection for the current initialize-download attempt of download k and sends the
        ticket: a `PeerInitializedEvent` for a file connection the peer opened, emitted on the event bus like the network
        does (the manager reads the ticket from it and hands the connection to the attempt that waits for it).  The
        event is handled in the next loop iteration."""
        att = self.attempts.get(k)
        ticket = self.attempt_ticket.get((k, att))
        if ticket is None:
            return False
        from aioslsk.events import PeerInitializedEvent
        from aioslsk.network.connection import PeerConnectionType
        conn = FakeConn(self, self.transfers[k].username, k, att)
        conn.connection_type = PeerConnectionType.FILE
        conn.ticket = ticket
        self._deliveries.append(asyncio.ensure_future(self.bus.emit(PeerInitializedEvent(conn, requested=False))))
        return True

    def ctx_of_task(self):
        return self.task_ctx.get(asyncio.current_task(), (None, None))

    def gate(self, k, att) -> Gate:
        g = self.gates.get((k, att))
        if g is None:
            g = self.gates[(k, att)] = Gate(self.loop, self.teardown)
        return g

    def current_gate(self, k) -> Optional[Gate]:
        att = self.attempts.get(k)
        return None if att is None else self.gate(k, att)

    def log_frame_for_message(self, username, message, queued=False):
        cls = type(message).__qualname__.split('.')[0]
        k = self.k_of_message(username, message)
        if k is None and cls == 'PeerTransferReply':
            k = self.dl_ticket.get(getattr(message, 'ticket', None))
        self.log.append(('frame', k, None, cls, _sender(), 'peer-conn'))

    # -- TransferStateListener ------------------------------------------------------------------------
    async def on_transfer_state_changed(self, transfer, old, new):
        self.log.append(('state', self.k_of(transfer), old.name, new.name))

    def adopt(self, transfer):
        """Register a transfer created by the manager (keeps index = creation order)."""
        if self.k_of(transfer) is None:
            self.transfers.append(transfer)
            transfer.state_listeners.append(self)

    # -- cycle wrapper ----------------------------------------------------------------------------------
    def _wrap_cycle(self):
        mgr = self.mgr
        orig = mgr.manage_transfers

        def wrapped():
            before = {id(t): (t._transfer_task, t._remotely_queue_task) for t in mgr.transfers}
            for t in mgr.transfers:
                tt = t._transfer_task
                if t.is_upload() and t.state.VALUE.name == 'QUEUED' and tt is not None and not tt.done():
                    self.granularity.append(('init-task-of-queued-upload-running-at-cycle', self.k_of(t)))
            info = self.cycle_info()
            orig()
            started = []
            for t in mgr.transfers:
                b = before.get(id(t), (None, None))
                if t._transfer_task is not None and t._transfer_task is not b[0]:
                    started.append((t._transfer_task.get_name(), 'T', self.k_of(t)))
                if t._remotely_queue_task is not None and t._remotely_queue_task is not b[1]:
                    started.append((t._remotely_queue_task.get_name(), 'Q', self.k_of(t)))
            started.sort(key=lambda x: int(x[0].rsplit('-', 1)[1]))
            self.cycles += 1
            self.log.append(('cycle', [(kind, k) for _n, kind, k in started], info))

        mgr.manage_transfers = wrapped

    def cycle_info(self) -> dict:
        """What the property statement needs to know about the instant of a scheduling decision."""
        friends = self.settings.users.friends
        us = {}
        for t in self.mgr.transfers:
            u = self.users.get_user_object(t.username)
            us[t.username] = [u.status.name, t.username in friends, bool(u.privileged)]
        return {'slots': self.mgr.get_upload_slots(), 'time': self.loop.time(),
                'xs': [[self.k_of(t), t.username, 'U' if t.is_upload() else 'D', t.state.VALUE.name]
                       for t in self.mgr.transfers],
                'users': us}

    def states(self) -> list[str]:
        return [t.state.VALUE.name for t in self.transfers]

    def pending(self) -> bool:
        return self.mgr._management_queue.qsize() > 0
