"""A slow file system for `vlib.simloop.SimLoop`.

`SimLoop.run_in_executor` runs the callable inline and hands back a future that is already done: `await`ing it does
not even suspend the caller.  In the running client every `aiofiles` / `aiofiles.os` call (`exists`, `getsize`,
`open`, `read`, `close`, `remove`, ...) and everything else that goes through the default executor is a real
suspension of unbounded length (busy executor — e.g. a shares scan —, slow / network / spun-down disk): whatever
the caller has decided but not yet recorded stays unrecorded for that long, and everything else keeps running.

`SlowDisk(loop, delays).install()` replaces `loop.run_in_executor` on that ONE loop instance: the i-th call
completes `delays[i % len(delays)]` seconds of virtual time after it was made (0 = in the next loop iteration: the
shortest real suspension); the callable itself runs at the moment of completion (the executor got round to it
then), and not at all when the waiting future was cancelled before (the job was still queued in the pool).
Nothing in the library is patched; loops without an installed `SlowDisk` behave as before.
"""
from __future__ import annotations

from typing import Sequence


class SlowDisk:
    def __init__(self, loop, delays: Sequence[float]):
        if not delays:
            raise ValueError('SlowDisk: at least one delay')
        self.loop = loop
        self.delays = list(delays)
        self.calls = 0            # executor calls made
        self.pending = 0          # ... whose result has not been handed over (or dropped) yet
        self._orig = None

    def install(self) -> 'SlowDisk':
        self._orig = self.loop.run_in_executor
        self.loop.run_in_executor = self.run_in_executor
        return self

    def uninstall(self):
        if self._orig is not None:
            del self.loop.run_in_executor          # the instance attribute: the class's method shows again
            self._orig = None

    def run_in_executor(self, executor, func, *args):
        loop = self.loop
        fut = loop.create_future()
        d = self.delays[self.calls % len(self.delays)]
        self.calls += 1
        self.pending += 1

        def complete():
            self.pending -= 1
            if fut.done():                          # the waiter was cancelled: the job never left the pool's queue
                return
            try:
                res = func(*args)
            except BaseException as e:  # noqa
                fut.set_exception(e)
            else:
                fut.set_result(res)

        if d and d > 0:
            loop.call_later(d, complete)
        else:
            loop.call_soon(complete)
        return fut
