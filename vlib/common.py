"""Shared machinery for every property check.

Flow of one check (see DESIGN.md section 1):

    regenerate Generated/*.lean from /repo   (translators; optional per property)
    lake build Driver + Props                (obligations = theorems of Props/Cxx.lean)
    audit                                    (forbidden tokens, #print axioms)
    correspondence K                         (model driver vs. real code on generated cases)
    monitor M                                (property statement evaluated on the real traces)
    verdict / evidence / replay

Exit codes: 0 held, 1 violation (VIOLATION line printed), 2 infrastructure problem/timeout.
"""
from __future__ import annotations

import fcntl
import hashlib
import json
import os
import random
import re
import subprocess
import sys
import time
import traceback
from dataclasses import dataclass, field
from pathlib import Path
from typing import Any, Callable, Iterable, Optional

VERIF = Path(__file__).resolve().parent.parent
LEAN = Path(os.environ.get('VERIF_LEAN_DIR') or (VERIF / 'lean'))     # seed trials use a private copy (tools/verify_seed.py)
REPO = Path(os.environ.get('VERIF_REPO', '/repo'))
EVIDENCE = Path(os.environ.get('VERIF_EVIDENCE_DIR') or (VERIF / 'evidence'))   # (seed trials write elsewhere)
REPLAYS = VERIF / 'replays'
CORPUS = VERIF / 'corpus'
KNOWN_FINDINGS = VERIF / 'known_findings.json'

ALLOWED_AXIOMS = {'propext', 'Classical.choice', 'Quot.sound'}
FORBIDDEN = re.compile(
    r'\b(sorry|admit|native_decide|bv_decide|implemented_by|unsafe)\b|^\s*axiom\s|maxHeartbeats\s+0\b',
    re.M)

TRUSTED_BASE = [
    "Lean 4.33.0 kernel (lake build; thorough tier re-checks the .olean files with leanchecker)",
    "axioms: subset of {propext, Classical.choice, Quot.sound} as printed by #print axioms per theorem; "
    "no sorry/admit/native_decide/bv_decide/own axioms (grep + axiom audit on every run)",
    "translators under /verif/translate (regenerate Generated/*.lean from /repo's working tree on every run)",
    "correspondence harness under /verif/props + /verif/vlib (runs the real code and the Lean model's "
    "executable definitions on the same generated cases and diffs canonical observations)",
    "CPython 3.12 / asyncio semantics, struct, zlib, re, os.path, pickle/shelve are exercised, not modelled",
]


def env_seed() -> int:
    try:
        return int(os.environ.get('VERIF_SEED', '0'))
    except ValueError:
        return 0


def sha(obj: Any) -> str:
    return hashlib.sha256(json.dumps(obj, sort_keys=True, default=str).encode()).hexdigest()[:16]


# --------------------------------------------------------------------------------------------
# Lean side
# --------------------------------------------------------------------------------------------

class LeanError(Exception):
    pass


def _lean_env() -> dict:
    env = dict(os.environ)
    env.pop('LEAN_PATH', None)
    return env


class lean_lock:
    """Exclusive lock around regenerate+build so that parallel checks do not race on .lake/."""

    def __enter__(self):
        self.f = open(LEAN / '.lock', 'w')
        fcntl.flock(self.f, fcntl.LOCK_EX)
        return self

    def __exit__(self, *a):
        fcntl.flock(self.f, fcntl.LOCK_UN)
        self.f.close()


def lake_build(modules: list[str], timeout: int = 1500) -> tuple[bool, str]:
    """Build the given modules. Returns (ok, combined output)."""
    cmd = ['lake', 'build'] + modules
    try:
        p = subprocess.run(cmd, cwd=LEAN, capture_output=True, text=True, timeout=timeout,
                           env=_lean_env())
    except subprocess.TimeoutExpired as e:
        raise LeanError(f'lake build timed out after {timeout}s: {modules}') from e
    except FileNotFoundError as e:
        raise LeanError('lake not found on PATH') from e
    return p.returncode == 0, (p.stdout or '') + (p.stderr or '')


_DECL_RE = re.compile(r'^\s*(?:@\[[^\]]*\]\s*)?(?:private\s+|protected\s+)?(theorem|lemma|def|example|instance|abbrev)\s+([^\s:({\[]+)?', re.M)


def module_path(module: str) -> Path:
    return LEAN / (module.replace('.', '/') + '.lean')


def theorems_of(module: str) -> list[str]:
    """Fully qualified theorem names declared in a Props module (namespace-aware, simple)."""
    text = strip_comments(module_path(module).read_text())
    names = []
    ns: list[str] = []
    for line in text.splitlines():
        m = re.match(r'^\s*namespace\s+(\S+)', line)
        if m:
            ns.append(m.group(1))
            continue
        m = re.match(r'^\s*end\s+(\S+)\s*$', line)
        if m and ns and ns[-1] == m.group(1):
            ns.pop()
            continue
        m = re.match(r'^\s*(?:@\[[^\]]*\]\s*)?theorem\s+([^\s:({\[]+)', line)
        if m:
            names.append('.'.join(ns + [m.group(1)]))
    return names


def strip_comments(text: str) -> str:
    """Remove Lean block and line comments (block comments may nest)."""
    out = []
    i, depth, n = 0, 0, len(text)
    while i < n:
        if text.startswith('/-', i):
            depth += 1
            i += 2
            continue
        if depth and text.startswith('-/', i):
            depth -= 1
            i += 2
            continue
        if depth:
            if text[i] == '\n':
                out.append('\n')
            i += 1
            continue
        if text.startswith('--', i):
            j = text.find('\n', i)
            if j < 0:
                break
            i = j
            continue
        out.append(text[i])
        i += 1
    return ''.join(out)


def failing_decls(build_output: str) -> list[dict]:
    """Map `error:` locations of a failed build to the enclosing declaration."""
    res = []
    seen = set()
    for m in re.finditer(r'error: ([^\s:]+\.lean):(\d+):(\d+):?\s*(.*)', build_output):
        rel, line, _col, msg = m.group(1), int(m.group(2)), m.group(3), m.group(4)
        p = (LEAN / rel) if not os.path.isabs(rel) else Path(rel)
        decl = None
        try:
            lines = p.read_text().splitlines()
            for k in range(min(line, len(lines)) - 1, -1, -1):
                mm = _DECL_RE.match(lines[k])
                if mm:
                    decl = f'{mm.group(1)} {mm.group(2) or "<anonymous>"}'
                    break
        except OSError:
            pass
        key = (rel, decl)
        if key in seen:
            continue
        seen.add(key)
        res.append({'file': rel, 'line': line, 'decl': decl, 'message': msg[:300]})
    return res


def forbidden_tokens(modules_files: Iterable[Path]) -> list[str]:
    hits = []
    for p in modules_files:
        try:
            txt = strip_comments(p.read_text())
        except OSError:
            continue
        for m in FORBIDDEN.finditer(txt):
            ln = txt.count('\n', 0, m.start()) + 1
            hits.append(f'{p.relative_to(LEAN)}:{ln}: {m.group(0).strip()}')
    return hits


def transitive_files(module: str) -> list[Path]:
    """Project-local files imported (transitively) by a module."""
    seen: dict[str, Path] = {}
    todo = [module]
    while todo:
        m = todo.pop()
        if m in seen:
            continue
        p = module_path(m)
        if not p.exists():
            continue
        seen[m] = p
        for mm in re.finditer(r'^\s*(?:public\s+)?import\s+(AioslskVerif\.\S+)', p.read_text(), re.M):
            todo.append(mm.group(1))
    return list(seen.values())


def print_axioms(module: str, theorems: list[str], timeout: int = 600) -> dict[str, list[str]]:
    """Run `#print axioms` for every theorem; returns name -> axiom list."""
    src = f'import {module}\n' + ''.join(f'#print axioms {t}\n' for t in theorems)
    p = subprocess.run(['lake', 'env', 'lean', '--stdin'], cwd=LEAN, input=src, capture_output=True,
                       text=True, timeout=timeout, env=_lean_env())
    out = p.stdout + p.stderr
    res: dict[str, list[str]] = {}
    # "'name' depends on axioms: [a, b]"  |  "'name' does not depend on any axioms"
    for m in re.finditer(r"'([^']+)' depends on axioms: \[([^\]]*)\]", out, re.S):
        res[m.group(1)] = [a.strip() for a in m.group(2).replace('\n', ' ').split(',') if a.strip()]
    for m in re.finditer(r"'([^']+)' does not depend on any axioms", out):
        res[m.group(1)] = []
    if p.returncode != 0 and not res:
        raise LeanError('axiom audit failed: ' + out[-2000:])
    return res


def run_driver(driver_file: str, lines: list[str], timeout: int = 900) -> list[str]:
    """Pipe lines through `lake env lean --run <driver>` and return the output lines."""
    data = '\n'.join(lines) + '\n'
    p = subprocess.run(['lake', 'env', 'lean', '--run', driver_file], cwd=LEAN, input=data,
                       capture_output=True, text=True, timeout=timeout, env=_lean_env())
    if p.returncode != 0:
        raise LeanError(f'driver {driver_file} failed rc={p.returncode}: {(p.stderr or p.stdout)[-2000:]}')
    return p.stdout.splitlines()


# --------------------------------------------------------------------------------------------
# Known findings
# --------------------------------------------------------------------------------------------

def load_known_findings(prop: str) -> tuple[list[dict], list[dict]]:
    """Returns (known, fixed) entries for the property. Never written at run time."""
    try:
        data = json.loads(KNOWN_FINDINGS.read_text())
    except (OSError, ValueError):
        return [], []
    ents = [e for e in data.get('findings', []) if e.get('property') == prop]
    return ([e for e in ents if e.get('status') == 'known'],
            [e for e in ents if e.get('status') == 'fixed'])


# --------------------------------------------------------------------------------------------
# Results
# --------------------------------------------------------------------------------------------

@dataclass
class Violation:
    """A concrete failure of the property statement on the real code."""
    signature: str            # classification key, matched against known_findings.json
    what: str                 # human-readable: what failed
    case: Any                 # the input / op sequence (JSON-serialisable)
    observed: Any = None
    required: Any = None


@dataclass
class Disagreement:
    """Model and implementation differ on a case."""
    case: Any
    impl: Any
    model: Any
    where: str = ''


@dataclass
class KResult:
    """Outcome of a correspondence + monitor run."""
    evaluations: int = 0
    nontrivial_keys: set = field(default_factory=set)
    disagreements: list = field(default_factory=list)
    violations: list = field(default_factory=list)
    samples: list = field(default_factory=list)
    distribution: dict = field(default_factory=dict)
    traces_validated: int = 0
    notes: list = field(default_factory=list)
    model_available: bool = True

    def count(self, key: str, n: int = 1):
        self.distribution[key] = self.distribution.get(key, 0) + n

    def merge(self, other: 'KResult'):
        self.evaluations += other.evaluations
        self.nontrivial_keys |= other.nontrivial_keys
        self.disagreements += other.disagreements
        self.violations += other.violations
        if len(self.samples) < 6:
            self.samples += other.samples[: 6 - len(self.samples)]
        for k, v in other.distribution.items():
            self.count(k, v)
        self.traces_validated += other.traces_validated
        self.notes += other.notes
        self.model_available = self.model_available and other.model_available


class Property:
    """Base class; one subclass per property in /verif/props/cXX.py."""
    id = 'C00'
    props_module = ''            # AioslskVerif.Props.Cxx
    driver_module = ''           # AioslskVerif.Driver.Cxx
    rule = ''                    # how cases are generated and what makes one non-trivial
    assumptions: list[str] = []
    modelled: str = ''

    # --- translators: (re)write Generated/*.lean from REPO; raise on unknown constructs
    def regenerate(self) -> list[str]:
        return []

    # --- correspondence + monitor. model_ok False => Lean driver could not be built:
    #     run the implementation side and the monitor only.
    def correspondence(self, seed: int, tier: str, model_ok: bool, widen: int = 1) -> KResult:
        raise NotImplementedError

    # --- replay a stored case on the real code; returns violations
    def replay(self, case: Any) -> list[Violation]:
        raise NotImplementedError

    # --- witnesses of known findings, replayed on the real code on every run
    def known_witnesses(self) -> list[tuple[str, Any]]:
        return []

    @property
    def driver_file(self) -> str:
        return self.driver_module.replace('.', '/') + '.lean'


def write_replay(prop: str, payload: dict) -> Path:
    REPLAYS.mkdir(exist_ok=True)
    payload = dict(payload)
    payload.setdefault('property', prop)
    payload.setdefault('replay_cmd', f'./check {prop} --replay <this file>')
    name = f'{prop}-{sha(payload)}.json'
    p = REPLAYS / name
    p.write_text(json.dumps(payload, indent=1, default=str))
    return p


def matches_known(v: Violation, known: list[dict]) -> Optional[dict]:
    for k in known:
        if k.get('signature') == v.signature:
            return k
    return None


def _demote_harness_errors(kres: KResult) -> None:
    """An exception while DRIVING the implementation (signature `…impl-error`) is not a failure of the property statement on
    a concrete input: it may come from the harness's own coupling to private names (a harmless refactoring breaks it) as well
    as from the code. It means the correspondence no longer checks — reported as such (`no-failing-input-found` unless the
    monitor finds a real failing input elsewhere), never as a violation with that case as its "failing input"."""
    infra = [v for v in kres.violations if str(v.signature).endswith('impl-error')]
    if not infra:
        return
    kres.violations = [v for v in kres.violations if v not in infra]
    for v in infra[:20]:
        kres.disagreements.append(Disagreement(v.case, f'{v.signature}: {v.what}'[:400],
                                               '(the harness could not drive the implementation on this case)', 'harness'))
    kres.notes.append(f'{len(infra)} case(s) could not be driven (exception in harness or implementation): '
                      f'{infra[0].signature}: {infra[0].what}'[:300])


def run_check(prop: Property, tier: str, seed: int) -> int:
    t0 = time.time()
    tier = 'thorough' if tier == 'thorough' else 'quick'
    known, fixed = load_known_findings(prop.id)
    obligations: list[dict] = []
    broken: list[str] = []          # names of obligations / correspondences that do not check
    notes: list[str] = []
    checker_cmd = (f'cd lean && lake build {prop.driver_module} {prop.props_module} && '
                   f'lake env lean --stdin <<< "import {prop.props_module}\\n#print axioms <each theorem>"')
    axioms: dict[str, list[str]] = {}
    model_ok = True
    theorems: list[str] = []

    try:
        with lean_lock():
            # 1. translators
            try:
                gen = prop.regenerate()
                if gen:
                    notes.append('regenerated: ' + ', '.join(gen))
                obligations.append({'name': 'generated-tables-regenerated', 'ok': True})
            except Exception as e:  # translator does not understand the source any more
                obligations.append({'name': 'generated-tables-regenerated', 'ok': False,
                                    'detail': f'{type(e).__name__}: {e}'[:500]})
                broken.append('generated-tables-regenerated')
            # 2. build driver (model) and props (theorems) separately
            ok_d, out_d = lake_build([prop.driver_module])
            if not ok_d:
                model_ok = False
                broken.append('model-builds')
                obligations.append({'name': 'model-builds', 'ok': False, 'detail': failing_decls(out_d)[:5]})
            else:
                obligations.append({'name': 'model-builds', 'ok': True})
            ok_p, out_p = lake_build([prop.props_module])
            theorems = theorems_of(prop.props_module)
            failed = failing_decls(out_p) if not ok_p else []
            props_name = module_path(prop.props_module).name
            in_props = {(d['decl'] or '').split(' ', 1)[-1] for d in failed
                        if d['file'].endswith(props_name) and '/Props/' in '/' + d['file']}
            outside = [d for d in failed if not (d['file'].endswith(props_name) and '/Props/' in '/' + d['file'])]
            for t in theorems:
                short = t.split('.')[-1]
                okt = ok_p or (bool(in_props) and not outside and short not in in_props)
                obligations.append({'name': t, 'ok': bool(okt)})
                if not okt:
                    broken.append(t)
            if not ok_p and not theorems:
                broken.append('props-module-builds')
                obligations.append({'name': 'props-module-builds', 'ok': False})
            if outside:
                notes.append('build failed outside Props: ' + json.dumps(outside[:3]))
            if not ok_p:
                notes.append('lake build output (tail): ' + out_p[-1500:])
            # 3. audit
            files = transitive_files(prop.props_module)
            hits = forbidden_tokens(files)
            obligations.append({'name': 'no-sorry-no-added-axioms (grep)', 'ok': not hits, 'detail': hits[:10]})
            if hits:
                broken.append('audit-grep')
            if ok_p and theorems:
                axioms = print_axioms(prop.props_module, theorems)
                bad = {t: a for t, a in axioms.items() if not set(a) <= ALLOWED_AXIOMS}
                missing = [t for t in theorems if t not in axioms]
                obligations.append({'name': 'axioms ⊆ {propext, Classical.choice, Quot.sound}',
                                    'ok': not bad and not missing,
                                    'detail': {'bad': bad, 'missing': missing}})
                if bad or missing:
                    broken.append('audit-axioms')
            if tier == 'thorough' and ok_p:
                try:
                    p = subprocess.run(['lake', 'env', 'leanchecker', prop.props_module], cwd=LEAN,
                                       capture_output=True, text=True, timeout=1500, env=_lean_env())
                    okc = p.returncode == 0
                    obligations.append({'name': 'leanchecker re-check', 'ok': okc,
                                        'detail': (p.stdout + p.stderr)[-300:]})
                    if not okc:
                        broken.append('leanchecker')
                except subprocess.TimeoutExpired:
                    notes.append('leanchecker timed out (not counted)')
    except LeanError as e:
        print(f'INFRA-ERROR: {e}', file=sys.stderr)
        return 2

    # 4. correspondence + monitor
    try:
        kres = prop.correspondence(seed, tier, model_ok)
    except LeanError as e:
        print(f'INFRA-ERROR: {e}', file=sys.stderr)
        return 2
    except RuntimeError as e:
        if 'CASE-TIMEOUT' not in str(e):
            raise
        # the real code (or the harness on it) does not terminate on some generated case: nothing was compared
        kres = KResult()
        kres.model_available = model_ok
        kres.disagreements.append(Disagreement({'timeout': str(e)[:800]}, 'does not terminate', '(terminates)', 'case-timeout'))
        kres.notes.append(str(e)[:800])
    _demote_harness_errors(kres)
    if kres.disagreements:
        broken.append('correspondence')
    obligations.append({'name': f'correspondence K_{prop.id} (model = implementation on generated cases)',
                        'ok': not kres.disagreements and kres.model_available,
                        'detail': f'{len(kres.disagreements)} disagreements / {kres.evaluations} cases'})

    # 5. failing-input search when something broke and the monitor has not yet found an input
    unknown = [v for v in kres.violations if not matches_known(v, known)]
    if broken and not unknown:
        try:
            extra = prop.correspondence(seed + 7919, tier, model_ok, widen=4)
            kres.notes.append(f'widened search: {extra.evaluations} more cases')
            _demote_harness_errors(extra)
            kres.violations += extra.violations
            kres.evaluations += extra.evaluations
            kres.nontrivial_keys |= extra.nontrivial_keys
            unknown = [v for v in kres.violations if not matches_known(v, known)]
        except Exception as e:  # search is best-effort
            kres.notes.append(f'widened search failed: {e!r}')

    # 6. known-finding witnesses replayed on the real code
    known_lines = []
    seen_known = set()
    for v in kres.violations:
        k = matches_known(v, known)
        if k:
            seen_known.add(k['signature'])
    for sig, case in prop.known_witnesses():
        if any(k['signature'] == sig for k in known):
            try:
                vs = prop.replay(case)
            except Exception as e:
                vs = []
                notes.append(f'known witness {sig} replay error: {e!r}')
            if any(v.signature == sig for v in vs):
                seen_known.add(sig)
            for v in vs:
                if not matches_known(v, known) and v.signature != sig:
                    unknown.append(v)
    for k in known:
        if k['signature'] in seen_known:
            known_lines.append(f"KNOWN-FINDING: property={prop.id} {k['what']}")
        else:
            notes.append(f"known finding not reproduced this run (stale entry?): {k['signature']}")

    # 7. verdict
    rc = 0
    out_lines = []
    if unknown:
        v = min(unknown, key=lambda x: len(json.dumps(x.case, default=str)))
        rp = write_replay(prop.id, {
            'kind': 'failing-input', 'signature': v.signature, 'what': v.what, 'case': v.case,
            'observed': v.observed, 'required': v.required, 'seed': seed, 'tier': tier,
            'broken': broken, 'other_violations': len(unknown) - 1})
        out_lines.append(f'VIOLATION property={prop.id} replay={rp}')
        rc = 1
    elif broken:
        d = kres.disagreements[0] if kres.disagreements else None
        rp = write_replay(prop.id, {
            'kind': 'no-failing-input-found',
            'no_longer_checks': broken,
            'obligation_details': [o for o in obligations if not o['ok']],
            'first_disagreement': None if d is None else
            {'case': d.case, 'impl': d.impl, 'model': d.model, 'where': d.where},
            'seed': seed, 'tier': tier, 'notes': notes[-3:]})
        out_lines.append(f'VIOLATION property={prop.id} replay={rp} no-failing-input-found')
        rc = 1

    # 8. evidence
    n_obl = len(obligations)
    n_ok = sum(1 for o in obligations if o['ok'])
    ev = {
        'property_id': prop.id, 'tier': tier, 'seed': seed, 'level': 'proof',
        'coverage': {
            'obligations': n_obl, 'discharged': n_ok, 'checker_cmd': checker_cmd,
            'trusted_base': TRUSTED_BASE,
            'obligation_list': obligations,
            'theorems': [{'name': t, 'axioms': axioms.get(t)} for t in theorems],
            'evaluations': kres.evaluations,
            'distinct_nontrivial': len(kres.nontrivial_keys),
            'rule': prop.rule,
            'samples': kres.samples[:6],
            'traces_validated_against_impl': kres.traces_validated,
            'disagreements': len(kres.disagreements),
            'generator_distribution': kres.distribution,
            'model_available': kres.model_available and model_ok,
            'modelled': prop.modelled,
            'known_findings_reproduced': sorted(seen_known),
            'fixed_findings': [f"fixed: property={prop.id} {f.get('commit', '?')} {f.get('what', '')}" for f in fixed],
            'notes': notes + kres.notes,
        },
        'assumptions': prop.assumptions,
        'wall_s': round(time.time() - t0, 2),
        'violations': len(unknown) + (1 if (broken and not unknown) else 0),
    }
    EVIDENCE.mkdir(exist_ok=True)
    (EVIDENCE / f'{prop.id}.json').write_text(json.dumps(ev, indent=1, default=str))

    for l in known_lines:
        print(l)
    for l in out_lines:
        print(l)
    print(f'{prop.id} {tier} seed={seed}: obligations {n_ok}/{n_obl}, K cases {kres.evaluations} '
          f'({len(kres.nontrivial_keys)} distinct non-trivial), disagreements {len(kres.disagreements)}, '
          f'violations {len(unknown)}, known {len(seen_known)}, {ev["wall_s"]}s')
    return rc


def run_replay(prop: Property, path: str) -> int:
    payload = json.loads(Path(path).read_text())
    known, _ = load_known_findings(prop.id)
    if payload.get('kind') == 'no-failing-input-found':
        print('replay file names obligations that no longer check:', payload.get('no_longer_checks'))
        d = payload.get('first_disagreement')
        if d:
            vs = prop.replay(d['case'])
            print('re-ran first disagreeing case on the implementation; monitor violations:', len(vs))
        return 1
    vs = prop.replay(payload['case'])
    rc = 0
    for v in vs:
        k = matches_known(v, known)
        if k:
            print(f"KNOWN-FINDING: property={prop.id} {k['what']}")
        else:
            print(f'VIOLATION property={prop.id} replay={path}')
            print('  ', v.what, '| observed:', json.dumps(v.observed, default=str)[:400],
                  '| required:', json.dumps(v.required, default=str)[:400])
            rc = 1
    if not vs:
        print('replay: property holds on this case')
    return rc


class CaseTimeout(BaseException):
    """One case of a correspondence run did not return within the wall-clock guard (a BaseException so that the library's
    and the harness's own `except Exception` arms cannot swallow it)."""


class _Guarded:
    """Picklable wrapper: runs fn(item) under a wall-clock alarm. (Harness code that installs its own ITIMER_REAL guard —
    vlib/simloop.run — replaces this one for the duration of its run; those cases are bounded by that guard.)"""

    def __init__(self, fn, seconds):
        self.fn, self.seconds = fn, seconds

    def __call__(self, item):
        import signal

        def on_alarm(_sig, _frm):
            raise CaseTimeout(f'case did not terminate within {self.seconds:.0f} s')
        try:
            old = signal.signal(signal.SIGALRM, on_alarm)
        except ValueError:          # not in the main thread
            return self.fn(item)
        signal.setitimer(signal.ITIMER_REAL, self.seconds)
        try:
            return self.fn(item)
        except CaseTimeout as e:
            raise RuntimeError(f'CASE-TIMEOUT: {e}; case: {json.dumps(item, default=str)[:600]}') from None
        finally:
            signal.setitimer(signal.ITIMER_REAL, 0)
            signal.signal(signal.SIGALRM, old)


def parallel_map(fn: Callable, items: list, workers: Optional[int] = None, chunksize: int = 8,
                 item_timeout: Optional[float] = 300.0) -> list:
    """Run fn over items in a fork pool (fn must be a module-level function). Every item runs under a wall-clock guard: a
    case on which the real code does not terminate ends the run with RuntimeError('CASE-TIMEOUT …'), which `run_check` reports
    as a correspondence that no longer checks (not as a hung check)."""
    import multiprocessing as mp
    if item_timeout:
        fn = _Guarded(fn, item_timeout)
    if workers is None:
        workers = min(16, os.cpu_count() or 4)
    if len(items) < 16 or workers <= 1 or os.environ.get('VERIF_SERIAL'):
        return [fn(x) for x in items]
    ctx = mp.get_context('fork')
    with ctx.Pool(workers) as pool:
        return pool.map(fn, items, chunksize=chunksize)
