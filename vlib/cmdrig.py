"""Real `SoulSeekClient` + scripted server + scripted peers, executing the commands of `aioslsk/commands.py`.

Used by C12 (command family): every command class that expects a response is executed through the REAL
`SoulSeekClient.execute(command, response=True, timeout=T)` on `vlib.simloop.SimLoop` with `vlib.fakenet` sockets,
against a server / peer that answers the request *it received on the wire* the way the protocol says (the reply echoes the
identifying fields of the request: user name, room, item, ticket, directory …), possibly over another connection than the
one the request went out on, possibly never.

Nothing in here reads `build_expected_response`: what "answers" a request is decided from the bytes the client sent.

* `command_inventory()`            every `BaseCommand` subclass of the module, by introspection (never a hand-kept list)
* `make_command(name)`             an instance with canonical arguments (unknown constructor parameter -> InventoryError)
* `REPLIES` / `reply_for(req, me)` request class seen on the wire -> the protocol's reply to it (unknown -> InventoryError)
* `run_case(case)`                 one scenario; returns plain observations (no judgement)
"""
from __future__ import annotations

import asyncio
import dataclasses
import inspect
import logging
import typing
from typing import Any, Optional

from vlib import fakenet, simloop, simserver

# (mixed case, blanks, a non-ASCII letter: a request and its reply agree on the exact string)
ME = 'Me Myself'
PEER = 'User0 \u00e9'
OTHER = 'user0 \u00e9'
SERVER_ADDR = ('srv', 2416)
LISTEN_PORT = 60000
PEER_ADDR = {PEER: ('10.1.0.1', 5001), OTHER: ('10.1.0.2', 5002)}
PIERCE_TICKET = 424242


class InventoryError(Exception):
    """the command module contains something this rig has no recipe for (never skipped silently)"""


# --------------------------------------------------------------------------------------------
# inventory of command classes (introspection of the module as it is now)
# --------------------------------------------------------------------------------------------

# canonical constructor arguments by parameter name
ARGS = {
    'username': PEER, 'usernames': [PEER, OTHER], 'room': 'Room 0', 'private': False, 'item': 'Item 0',
    'interest': 'Item 0', 'hated_interest': 'Item 1', 'message': ' Hello  World ', 'ticker': 'Tick 0 ',
    'directory': 'Music\\Dir 0',
    'enable': True, 'query': 'abc', 'password': 'pw2', 'days': 1,
}


def command_inventory() -> list[dict]:
    """[{name, expects (overrides build_expected_response), params}] for every concrete BaseCommand subclass"""
    from aioslsk import commands
    out = []
    for name, cls in sorted(vars(commands).items()):
        if not (inspect.isclass(cls) and issubclass(cls, commands.BaseCommand)) or cls is commands.BaseCommand:
            continue
        if cls.__module__ != commands.__name__ or inspect.isabstract(cls):
            continue
        params = [p for p in list(inspect.signature(cls.__init__).parameters.values())[1:]
                  if p.kind in (p.POSITIONAL_OR_KEYWORD, p.KEYWORD_ONLY)]
        out.append({'name': name,
                    'expects': cls.build_expected_response is not commands.BaseCommand.build_expected_response,
                    'params': [p.name for p in params]})
    return out


def make_command(name: str):
    from aioslsk import commands
    from aioslsk.user.model import UserStatus
    cls = getattr(commands, name)
    kwargs = {}
    for p in list(inspect.signature(cls.__init__).parameters.values())[1:]:
        if p.kind not in (p.POSITIONAL_OR_KEYWORD, p.KEYWORD_ONLY):
            continue
        if p.name == 'status':
            kwargs[p.name] = UserStatus.ONLINE
        elif p.name in ARGS:
            kwargs[p.name] = ARGS[p.name]
        elif p.default is not p.empty:
            continue
        else:
            raise InventoryError(f'{name}.__init__: no canonical value for parameter {p.name!r}')
    return cls(**kwargs)


# --------------------------------------------------------------------------------------------
# the protocol's replies
# --------------------------------------------------------------------------------------------

def _default(tp) -> Any:
    from aioslsk.protocol import primitives
    origin = typing.get_origin(tp)
    if origin is typing.Union:
        return None                      # Optional[...]
    if origin in (list, typing.List):
        return []
    if tp is str:
        return ''
    if tp is bool:
        return False
    if tp is int:
        return 0
    if tp is bytes:
        return b''
    if tp is primitives.UserStats:
        return primitives.UserStats(0, 0, 0, 0)
    raise InventoryError(f'no default for a message field of type {tp!r}')


def _stats():
    from aioslsk.protocol import primitives
    return primitives.UserStats(0, 0, 0, 0)


def _echo(reply_cls, req, **over):
    """an instance of reply_cls: fields of the same name as in the request are echoed, `over` is set, the rest defaulted"""
    hints = typing.get_type_hints(reply_cls)
    kwargs = {}
    for f in dataclasses.fields(reply_cls):
        if not f.init or f.name == 'MESSAGE_ID':
            continue
        if f.name in over:
            kwargs[f.name] = over[f.name]
        elif hasattr(req, f.name):
            kwargs[f.name] = getattr(req, f.name)
        elif f.default is not dataclasses.MISSING or f.default_factory is not dataclasses.MISSING:
            continue
        else:
            kwargs[f.name] = _default(hints[f.name])
    return reply_cls(**kwargs)


def _replies() -> dict:
    """request class (as received by the server / the peer) -> function(request, me) -> reply object"""
    from aioslsk.protocol import messages as m

    def same(ns, **over):
        return (lambda req, me: _echo(ns.Response, req, **over))

    table = {
        m.GetUserStatus.Request: same(m.GetUserStatus, status=2),
        m.GetUserStats.Request: same(m.GetUserStats),
        m.RoomList.Request: lambda req, me: _echo(m.RoomList.Response, req, rooms=['Room 0'], rooms_user_count=[1]),
        m.JoinRoom.Request: lambda req, me: _echo(m.JoinRoom.Response, req),
        m.LeaveRoom.Request: same(m.LeaveRoom),
        m.PrivateRoomGrantMembership.Request: same(m.PrivateRoomGrantMembership),
        m.PrivateRoomRevokeMembership.Request: same(m.PrivateRoomRevokeMembership),
        m.PrivateRoomDropMembership.Request: lambda req, me: _echo(m.PrivateRoomMembershipRevoked.Response, req),
        m.GetItemRecommendations.Request: same(m.GetItemRecommendations),
        m.GetRecommendations.Request: same(m.GetRecommendations),
        m.GetGlobalRecommendations.Request: same(m.GetGlobalRecommendations),
        m.GetItemSimilarUsers.Request: same(m.GetItemSimilarUsers),
        m.GetSimilarUsers.Request: same(m.GetSimilarUsers),
        m.PrivateRoomGrantOperator.Request: same(m.PrivateRoomGrantOperator),
        m.PrivateRoomRevokeOperator.Request: same(m.PrivateRoomRevokeOperator),
        m.TogglePrivateRoomInvites.Request: lambda req, me: m.TogglePrivateRoomInvites.Response(enabled=req.enable),
        # the server distributes a room message / ticker to the room, the sender included, under the sender's name
        m.RoomChatMessage.Request: lambda req, me: _echo(m.RoomChatMessage.Response, req, username=me),
        m.SetRoomTicker.Request: lambda req, me: _echo(m.RoomTickerAdded.Response, req, username=me),
        m.GetUserInterests.Request: same(m.GetUserInterests),
        m.CheckPrivileges.Request: same(m.CheckPrivileges, time_left=3600),
        m.AddUser.Request: lambda req, me: _echo(m.AddUser.Response, req, exists=True, status=2, user_stats=_stats(),
                                                 country_code='BE'),
        m.GetPeerAddress.Request: lambda req, me: _echo(m.GetPeerAddress.Response, req, ip=PEER_ADDR[PEER][0],
                                                        port=PEER_ADDR[PEER][1], obfuscated_port_amount=0,
                                                        obfuscated_port=0),
        # peer messages (both directions are `.Request` classes)
        m.PeerUserInfoRequest.Request: lambda req, me: _echo(m.PeerUserInfoReply.Request, req, description='d'),
        m.PeerSharesRequest.Request: lambda req, me: _echo(m.PeerSharesReply.Request, req),
        m.PeerDirectoryContentsRequest.Request: lambda req, me: _echo(m.PeerDirectoryContentsReply.Request, req),
    }
    return table


def reply_for(req, me: str = ME):
    table = _replies()
    fn = table.get(type(req))
    if fn is None:
        raise InventoryError(f'no reply known for request {type(req).__module__}.{type(req).__qualname__}')
    return fn(req, me)


def decoy_for(reply):
    """a message of the reply's class that does NOT answer the request: one echoed identifying field differs — slightly
    (next ticket, other letter case, a trailing blank); None when the reply carries no identifying field"""
    for name in ('ticket', 'username', 'room', 'item', 'directory'):
        if hasattr(reply, name):
            val = getattr(reply, name)
            if name == 'ticket':
                other = (val or 0) + 1
            else:
                other = val.swapcase() if val.swapcase() != val else val + ' '
            return dataclasses.replace(reply, **{name: other})
    return None


# --------------------------------------------------------------------------------------------
# one scenario
# --------------------------------------------------------------------------------------------

class _Quiet:
    def __enter__(self):
        self.saved = []
        for name in ('aioslsk', 'asyncio'):
            lg = logging.getLogger(name)
            self.saved.append((lg, lg.level, lg.propagate, list(lg.handlers)))
            lg.handlers = [logging.NullHandler()]
            lg.propagate = False
        return self

    def __exit__(self, *a):
        for lg, level, propagate, handlers in self.saved:
            lg.setLevel(level)
            lg.propagate = propagate
            lg.handlers = handlers


def run_case(case: dict) -> dict:
    """case = {'cmd': class name, 'timeout': seconds,
               'connect': 'direct' | 'indirect' | 'pre'      (peer commands) how the connection the request goes out on comes
                          about: we connect / the peer is firewalled and pierces through / the peer had connected before
               'hangup': None | 'eof' | 'reset'              (peer commands) what the peer does with the connection the
                          request came in on once it has read the request
               'second': bool                                (peer commands) the peer holds a second connection throughout
               'via': None | 'same' | 'second' | 'new-in' | 'new-pierce'   how the reply comes back; None: never
               'delay': seconds between request and reply (split over the steps of the delivery)
               'decoy': bool    a message of the same class that does not answer the request arrives first
               'stranger': bool  (peer commands) the same reply, from ANOTHER peer, arrives first
               'server_drop': bool  the server connection is lost after the request (no reply possible: server commands)}"""
    with _Quiet():
        (obs, loop) = simloop.run(lambda lp: _scenario(lp, case), wall_timeout=60.0)
    return obs


async def _scenario(loop, case: dict) -> dict:
    from aioslsk.client import SoulSeekClient
    from aioslsk.settings import Settings
    from aioslsk.protocol import messages as m

    obs: dict = {'events': []}
    t_start = loop.time()

    def note(kind, *a):
        obs['events'].append([round(loop.time() - t_start, 6), kind] + [str(x) for x in a])

    net = fakenet.FakeNet().install()
    keep: list = []
    rig_errors: list = []

    def later(d, fn):
        def run():
            try:
                fn()
            except BaseException as e:  # noqa   (an error of the scripted remote end is a rig error, never a finding)
                rig_errors.append(f'{type(e).__name__}: {e}')
        loop.call_later(d, run)

    def spawn(coro):
        t = loop.create_task(coro)
        keep.append(t)
        t.add_done_callback(lambda t: (not t.cancelled() and t.exception() is not None and
                                       rig_errors.append(f'{type(t.exception()).__name__}: {t.exception()}')))
        return t
    try:
        server = simserver.SimServer()
        net.endpoints[SERVER_ADDR] = fakenet.Endpoint('accept', server.handler)
        peers: dict[str, '_Peer'] = {}
        cmd = make_command(case['cmd'])
        is_peer_cmd = type(cmd).__name__.startswith('Peer')
        delay = float(case.get('delay') or 0.0)
        via = case.get('via')
        state = {'request': None, 'reply': None, 'reply_sent_at': None, 'request_at': None, 'answered': False}

        def deliver_reply(write, request):
            """send (optionally a decoy first, then) the answering reply through `write`"""
            reply = reply_for(request, ME)
            back = (m.PeerMessage.deserialize_request if is_peer_cmd else m.ServerMessage.deserialize_response)(reply.serialize())
            if back != reply:
                raise InventoryError(f'the scripted reply does not survive the wire: {reply!r} -> {back!r}')
            if case.get('decoy'):
                d = decoy_for(reply)
                if d is not None:
                    note('decoy-sent', type(d).__qualname__)
                    write(d.serialize())
                    state['decoy'] = d
            state['reply'] = reply
            state['reply_sent_at'] = loop.time()
            note('reply-sent', type(reply).__qualname__)
            write(reply.serialize())

        # ---- the server ------------------------------------------------------------------------
        def on_request(srv, writer, msg):
            if isinstance(msg, m.GetPeerAddress.Request) and not case['cmd'] == 'GetPeerAddressCommand':
                ip, port = PEER_ADDR.get(msg.username, ('0.0.0.0', 0))
                writer.write(m.GetPeerAddress.Response(msg.username, ip=ip, port=port, obfuscated_port_amount=0,
                                                       obfuscated_port=0).serialize())
                return
            if isinstance(msg, m.ConnectToPeer.Request):
                # we could not reach the peer directly: the peer is told and pierces through to our listening port
                p = peers.get(msg.username)
                if p is not None:
                    later(0.05, lambda: spawn(p.connect_in(pierce=msg.ticket)))
                return
            # (everything the client sends on its own account during start-up and login is over before `armed`)
            if is_peer_cmd or state['request'] is not None or not state.get('armed'):
                return
            try:
                reply_for(msg, ME)
            except InventoryError:
                if type(msg) in _housekeeping(m):
                    return
                raise
            state['request'] = msg
            state['request_at'] = loop.time()
            note('request-seen', type(msg).__qualname__)
            if case.get('server_drop'):
                later(min(delay, 0.5) if delay else 0.1, lambda: (note('server-drops'), writer.close()))
            if via is not None:
                later(delay, lambda: deliver_reply(writer.write, msg))

        def on_request_guarded(srv, writer, msg):
            try:
                return on_request(srv, writer, msg)
            except BaseException as e:  # noqa
                rig_errors.append(f'{type(e).__name__}: {e}')
        server.on_request = on_request_guarded

        # ---- the peers -------------------------------------------------------------------------
        class _Peer:
            def __init__(self, name):
                self.name = name
                self.writers: list = []

            async def handler(self, reader, writer, first=None):
                """remote end of one connection between us and this peer"""
                self.writers.append(writer)
                init = None
                while True:
                    frame = await simserver.read_frame(reader)
                    if frame is None:
                        return
                    if init is None and first is None:
                        init = m.PeerInitializationMessage.deserialize_request(frame)
                        note('peer-init', self.name, type(init).__qualname__)
                        if isinstance(init, m.PeerPierceFirewall.Request) and init.ticket == PIERCE_TICKET and \
                                self.name == PEER and state['request'] is not None and via == 'new-pierce':
                            # the connection we asked for through the server: the reply goes over it
                            later(delay / 2, lambda w=writer: deliver_reply(w.write, state['request']))
                        continue
                    init = init or first
                    try:
                        msg = m.PeerMessage.deserialize_request(frame)
                    except Exception:
                        continue
                    self.on_message(msg, writer)

            def on_message(self, msg, writer):
                if self.name != PEER or state['request'] is not None or not state.get('armed'):
                    return
                reply_for(msg, ME)       # (InventoryError when unknown)
                state['request'] = msg
                state['request_at'] = loop.time()
                note('request-seen', type(msg).__qualname__)
                hangup = case.get('hangup')
                if case.get('stranger'):
                    async def stranger():
                        rd, wr = await peers[OTHER].connect_in()
                        note('stranger-reply-sent')
                        wr.write(reply_for(msg, ME).serialize())
                    later(delay / 4, lambda: spawn(stranger()))
                if via == 'same':
                    def go():
                        deliver_reply(writer.write, msg)
                        if hangup:
                            self.hang_up(writer, hangup)
                    later(delay, go)
                    return
                if hangup:
                    later(0.0, lambda: self.hang_up(writer, hangup))
                if via == 'second':
                    w2 = next(w for w in self.writers if w is not writer and not w.is_closing())
                    later(delay, lambda: deliver_reply(w2.write, msg))
                elif via == 'new-in':
                    async def again():
                        rd, wr = await self.connect_in()
                        await asyncio.sleep(delay / 2)
                        deliver_reply(wr.write, msg)
                    later(delay / 2, lambda: spawn(again()))
                elif via == 'new-pierce':
                    ip, port = PEER_ADDR[self.name]
                    later(delay / 2, lambda: server.send(m.ConnectToPeer.Response(
                        self.name, 'P', ip, port, ticket=PIERCE_TICKET, privileged=False, obfuscated_port_amount=0,
                        obfuscated_port=0)))

            def hang_up(self, writer, how):
                note('peer-hangs-up', how)
                if how == 'reset':
                    writer.reset()
                else:
                    writer.close()

            async def connect_in(self, pierce: Optional[int] = None):
                """this peer opens a connection to our listening port"""
                rd, wr = await net.connect_in(LISTEN_PORT, remote_addr=(PEER_ADDR[self.name][0], 40000 + len(self.writers)))
                if pierce is None:
                    first = m.PeerInit.Request(self.name, 'P', 0)
                else:
                    first = m.PeerPierceFirewall.Request(pierce)
                wr.write(first.serialize())
                spawn(self.handler(rd, wr, first=first))
                return rd, wr

        for name in (PEER, OTHER):
            peers[name] = _Peer(name)
            if name == PEER and case.get('connect') == 'indirect':
                net.endpoints[PEER_ADDR[name]] = fakenet.Endpoint('refuse')
            else:
                net.endpoints[PEER_ADDR[name]] = fakenet.Endpoint('accept', peers[name].handler)

        # ---- the client ------------------------------------------------------------------------
        settings = Settings(
            credentials={'username': ME, 'password': 'pw'},
            network={'server': {'hostname': SERVER_ADDR[0], 'port': SERVER_ADDR[1], 'reconnect': {'auto': False}},
                     'listening': {'port': LISTEN_PORT, 'obfuscated_port': LISTEN_PORT + 1},
                     'upnp': {'enabled': False}},
            shares={'scan_on_start': False},
        )
        client = SoulSeekClient(settings)
        await client.start()
        await client.login()
        await simloop.settle()
        if is_peer_cmd and (case.get('connect') == 'pre' or case.get('second')):
            n = (1 if case.get('connect') == 'pre' else 0) + (1 if case.get('second') and case.get('connect') == 'pre' else 0)
            for _ in range(max(n, 1)):
                await peers[PEER].connect_in()
            await simloop.settle()

        # the request of this execution = the object the command's `build_expected_response` hands to `execute` (the
        # command API; however the client registers it), listed when `send` begins
        registered: list = []
        built: list = []
        orig_build = cmd.build_expected_response

        def build(c):
            fut = orig_build(c)
            built.append(fut)
            return fut
        cmd.build_expected_response = build
        sent_at: list = []
        orig_send = cmd.send

        async def send(c):
            registered.extend(f for f in built if f is not None and
                              any(f is x for x in client.network._expected_response_futures))
            try:
                return await orig_send(c)
            finally:
                sent_at.append(loop.time())
        cmd.send = send

        state['armed'] = True
        timeout = float(case['timeout'])
        t0 = loop.time()
        note('execute')
        task = loop.create_task(client.execute(cmd, response=True, timeout=timeout))
        if is_peer_cmd and case.get('second') and case.get('connect') != 'pre':
            # the second connection comes about while the request is under way
            await asyncio.sleep(0)
            await peers[PEER].connect_in()
        done, _ = await asyncio.wait([task], timeout=timeout + delay + 30)
        obs['t_end'] = loop.time() - t0
        if not done:
            obs['outcome'] = 'hangs'
            task.cancel()
            await asyncio.wait([task])
        elif task.cancelled():
            obs['outcome'] = 'cancelled'
        elif task.exception() is not None:
            e = task.exception()
            obs['outcome'] = 'timeout' if isinstance(e, TimeoutError) else f'error:{type(e).__name__}'
            obs['error'] = repr(e)[:200]
        else:
            obs['outcome'] = 'result'
        obs['sent_after'] = (sent_at[0] - t0) if sent_at else None
        obs['request_seen'] = state['request'] is not None
        obs['request'] = repr(state['request'])[:200]
        obs['reply_sent_after'] = None if state['reply_sent_at'] is None else state['reply_sent_at'] - t0
        obs['registered'] = len(registered)
        if registered:
            f = registered[0]
            if not f.done():
                obs['fut'] = 'P'
            elif f.cancelled():
                obs['fut'] = 'C'
            elif f.exception() is not None:
                obs['fut'] = 'X'
            else:
                got = f.result()[1]
                obs['fut'] = 'R'
                obs['fut_is_reply'] = state['reply'] is not None and got == state['reply']
                obs['fut_is_decoy'] = state.get('decoy') is not None and got == state['decoy']
                obs['fut_conn_user'] = getattr(f.result()[0], 'username', None)
        await asyncio.sleep(0)
        await asyncio.sleep(0)
        obs['residue'] = sum(1 for f in client.network._expected_response_futures if f.done())
        obs['still_listed'] = sum(1 for f in registered if f in client.network._expected_response_futures)
        await client.stop()
        keep.append((client, server, peers))
        if rig_errors:
            raise RuntimeError('cmdrig: scripted remote end failed: ' + '; '.join(rig_errors[:3]))
        return obs
    finally:
        net.uninstall()


def _housekeeping(m) -> tuple:
    """requests the client sends on its own after login (not the command's request)"""
    names = ('SetListenPort', 'SetStatus', 'SharedFoldersFiles', 'CheckPrivileges', 'AddUser', 'ToggleParentSearch',
             'BranchRoot', 'BranchLevel', 'AcceptChildren', 'TogglePrivateRoomInvites', 'JoinRoom', 'AddInterest',
             'AddHatedInterest', 'Ping', 'PrivateRoomToggle', 'RoomList', 'GetUserStatus', 'GetUserStats')
    return tuple(getattr(getattr(m, n), 'Request') for n in names if hasattr(m, n) and hasattr(getattr(m, n), 'Request'))
