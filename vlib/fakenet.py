"""In-memory replacement for asyncio.open_connection / asyncio.start_server.

Real `asyncio.StreamReader`s are used on both ends; writers and connect outcomes are scripted by
the test schedule. `close()` on a writer feeds EOF to BOTH readers, as `connection_lost` does on a
real transport.
"""
from __future__ import annotations

import asyncio
from typing import Callable, Optional


class FakeWriter:
    def __init__(self, net: 'FakeNet', own_reader: asyncio.StreamReader, peer_reader: asyncio.StreamReader,
                 peername, sockname, label: str = ''):
        self.net = net
        self.own_reader = own_reader
        self.peer_reader = peer_reader
        self.peername = peername
        self.sockname = sockname
        self.label = label
        self._closed = False
        self.peer: Optional['FakeWriter'] = None
        self.sent = bytearray()          # everything written on this side
        self.fail_after: Optional[int] = None   # raise ConnectionResetError once this many bytes were written
        self.hold = False                # keep written bytes back until release()
        self._held = bytearray()
        self.drain_gate: Optional[asyncio.Event] = None   # when set: drain() waits for it
        self.on_write: Optional[Callable[[bytes], None]] = None

    # -- StreamWriter API used by the library ---------------------------------------------
    def write(self, data):
        data = bytes(data)
        if self._closed:
            raise ConnectionResetError('write on closed fake socket')
        if self.fail_after is not None and len(self.sent) + len(data) > self.fail_after:
            keep = max(0, self.fail_after - len(self.sent))
            self._deliver(data[:keep])
            self.sent += data[:keep]
            self.reset()
            raise ConnectionResetError('scripted reset')
        self.sent += data
        if self.on_write:
            self.on_write(data)
        self._deliver(data)

    def _deliver(self, data: bytes):
        if not data:
            return
        if self.hold:
            self._held += data
        elif self.peer is None or not self.peer._closed:
            try:
                self.peer_reader.feed_data(data)
            except Exception:
                pass

    def release(self, n: Optional[int] = None):
        """Deliver n held bytes (all when None)."""
        n = len(self._held) if n is None else min(n, len(self._held))
        chunk, self._held = bytes(self._held[:n]), self._held[n:]
        if chunk and (self.peer is None or not self.peer._closed):
            self.peer_reader.feed_data(chunk)

    async def drain(self):
        if self.drain_gate is not None:
            # a drain waiter blocked when the connection is closed CLEANLY is woken with a normal return
            # (asyncio FlowControlMixin.connection_lost(None)); only an abortive close makes it raise
            was_closed = self._closed
            await self.drain_gate.wait()
            if was_closed or getattr(self, '_was_reset', False):
                raise ConnectionResetError('drain on closed fake socket')
            return
        await asyncio.sleep(0)
        if self._closed:
            raise ConnectionResetError('drain on closed fake socket')

    def close(self):
        if self._closed:
            return
        self._closed = True
        if self.hold and self._held:
            self.release()
        for r in (self.peer_reader, self.own_reader):
            try:
                if not r.at_eof():
                    r.feed_eof()
            except Exception:
                pass
        if self.peer is not None:
            self.peer._closed_by_peer()
        self.net.closed_count += 1

    def _closed_by_peer(self):
        # remote side went away: further writes fail, own reader has EOF already
        self._peer_gone = True

    def reset(self):
        """Abortive close: both readers see a ConnectionResetError."""
        if self._closed:
            return
        self._closed = True
        self._was_reset = True
        for r in (self.peer_reader, self.own_reader):
            try:
                if r.exception() is None and not r.at_eof():
                    r.set_exception(ConnectionResetError('scripted reset'))
            except Exception:
                pass
        if self.peer is not None:
            self.peer._closed = True
        self.net.closed_count += 1

    def is_closing(self):
        return self._closed

    async def wait_closed(self):
        await asyncio.sleep(0)

    def get_extra_info(self, key, default=None):
        return {'peername': self.peername, 'sockname': self.sockname}.get(key, default)

    def can_write_eof(self):
        return False

    @property
    def transport(self):
        return self


class FakeServerObj:
    def __init__(self, net: 'FakeNet', key):
        self.net = net
        self.key = key
        self._serving = True

    def is_serving(self):
        return self._serving

    def close(self):
        self._serving = False
        self.net.listeners.pop(self.key, None)

    async def wait_closed(self):
        await asyncio.sleep(0)


class Endpoint:
    """Scripted remote end for connections the library opens.

    behaviour: 'accept' (handler(reader, writer) is started), 'refuse', 'hang' (never completes),
    'delay' (completes after `delay` virtual seconds, then as 'accept').
    """

    def __init__(self, behaviour='accept', handler=None, delay=0.0):
        self.behaviour = behaviour
        self.handler = handler
        self.delay = delay


class FakeNet:
    def __init__(self):
        self.listeners: dict = {}             # port -> accept callback (library side listening)
        self.endpoints: dict = {}             # (host, port) or port -> Endpoint
        self.attempts: list = []              # every open_connection call (host, port)
        self.pairs: list = []                 # (lib_writer, remote_writer) of every established pair
        self.closed_count = 0
        self.client_ip = '10.0.0.1'
        self._port = 50000
        self._saved = None
        self.bind_fail_ports: set = set()

    # -- patched entry points ------------------------------------------------------------------
    async def start_server(self, cb, host=None, port=None, **kw):
        if port in self.listeners or port in self.bind_fail_ports:
            raise OSError(98, 'address in use (fake)')
        self.listeners[port] = cb
        return FakeServerObj(self, port)

    async def open_connection(self, host=None, port=None, **kw):
        self.attempts.append((host, port))
        ep = self.endpoints.get((host, port)) or self.endpoints.get(port)
        await asyncio.sleep(0)
        if ep is None:
            cb = self.listeners.get(port)
            if cb is None:
                raise ConnectionRefusedError(f'{host}:{port} refused (fake)')
            ep = Endpoint('accept', cb)
        if ep.behaviour == 'refuse':
            raise ConnectionRefusedError(f'{host}:{port} refused (fake)')
        if ep.behaviour == 'hang':
            await asyncio.get_running_loop().create_future()
        if ep.behaviour == 'delay' or ep.delay:
            await asyncio.sleep(ep.delay)
        lib_reader, lib_writer, rem_reader, rem_writer = self.make_pair((host, port))
        if ep.handler is not None:
            asyncio.ensure_future(ep.handler(rem_reader, rem_writer))
        return lib_reader, lib_writer

    def make_pair(self, remote_addr):
        self._port += 1
        local = (self.client_ip, self._port)
        a_reader, b_reader = asyncio.StreamReader(), asyncio.StreamReader()
        a_writer = FakeWriter(self, a_reader, b_reader, remote_addr, local, 'lib')
        b_writer = FakeWriter(self, b_reader, a_reader, local, remote_addr, 'remote')
        a_writer.peer, b_writer.peer = b_writer, a_writer
        self.pairs.append((a_writer, b_writer))
        return a_reader, a_writer, b_reader, b_writer

    async def connect_in(self, port, remote_addr=('10.0.0.9', 40000)):
        """A remote peer connects to one of the library's listening ports.
        Returns the remote side's (reader, writer)."""
        cb = self.listeners.get(port)
        if cb is None:
            raise ConnectionRefusedError(f'nothing listens on {port}')
        self._port += 1
        lib_reader, rem_reader = asyncio.StreamReader(), asyncio.StreamReader()
        lib_writer = FakeWriter(self, lib_reader, rem_reader, remote_addr, ('0.0.0.0', port), 'lib-in')
        rem_writer = FakeWriter(self, rem_reader, lib_reader, ('0.0.0.0', port), remote_addr, 'remote-in')
        lib_writer.peer, rem_writer.peer = rem_writer, lib_writer
        self.pairs.append((lib_writer, rem_writer))
        asyncio.ensure_future(cb(lib_reader, lib_writer))
        return rem_reader, rem_writer

    def open_sockets(self) -> int:
        return sum(1 for a, b in self.pairs if not a._closed)

    # -- install / uninstall ---------------------------------------------------------------------
    def install(self):
        self._saved = (asyncio.open_connection, asyncio.start_server)
        asyncio.open_connection = self.open_connection
        asyncio.start_server = self.start_server
        return self

    def uninstall(self):
        if self._saved:
            asyncio.open_connection, asyncio.start_server = self._saved
            self._saved = None

    def __enter__(self):
        return self.install()

    def __exit__(self, *a):
        self.uninstall()
