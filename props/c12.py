"""C12 — a reply completes exactly the requests it answers; a timeout is a timeout.

Correspondence K_C12 + monitor (DESIGN.md, C12).

The real `Network` (plus the real `SoulSeekClient.execute` body, the real connection objects'
`_perform_message_callback`) runs on `vlib.simloop.SimLoop`. One *driving task* D executes the
script: every round it performs a batch of synchronous operations inside ONE task step (creating
raw futures, spawning caller tasks, delivering messages "buffered back-to-back", cancelling) and
then yields with `asyncio.sleep(0)`; caller timeouts are made due by moving the virtual clock so
that they fire at the end of a chosen loop iteration.  The Lean driver mirrors asyncio's ready
queue (FIFO `call_soon`) and executes the same script with the model's primitive ops.

case = {'rounds': [{'batch': [op...], 'fire': [tag...]}...], 'kind': str, 'readers': bool, 'extra': int}
  op = ['raw', tag, matcher] | ['wait', tag, matcher] | ['exec', tag, mode, matcher]
       (mode: 0 send ok, 1 send raises, 2 send suspends once then ok, 3 suspends once then raises,
        4 send waits for ever — only cancelling the task ends it)
     | ['msg', conn, cls, [[field, val]...], progs?]    D itself awaits `_perform_message_callback` (programs must not suspend)
     | ['feed', conn, cls, [[field, val]...], progs]    the message goes into the connection's stream: the connection's
                                                        REAL `_message_reader_loop` (one task per connection, message
                                                        source stubbed) takes it when it is free and not closing
     | ['open', gate] | ['cancelfut', tag] | ['canceltask', tag]
  progs = [prog of MessageReceivedEvent listener 0, prog of listener 1, ...]  — what the handlers of THIS message do
          between its arrival and the completion of its waiters; prog = [act...]
  act = ['sleep', k] (k loop iterations) | ['gate', g] | ['close', conn] (await conn.disconnect())
      | ['raw'|'wait', tag, matcher] | ['exec', tag, mode 0|1, matcher]   a new request (own caller task)
      | ['nwait'|'nexec', tag, matcher]   the listener awaits wait_for_*_message / execute(response=True) INLINE
      | ['cancelfut', tag] | ['canceltask', tag] | ['raise']
  matcher = {'cls': 's'|'p', 'msg': 0|1, 'peer': None|int, 'fields': [[field, exp]...]}
  exp = 'cN' | 'c<k>' | 'pT' | 'pF' | 'pN' | 'pnn' | 'pge<k>' | 'peq<k>'
  conn = 's' | 'pN' | 'p<k>' | 'q<k>' (a second connection of user k)
  'fire' of round r: the timeouts of these callers fire at the end of the loop iteration in which
  D runs batch r (after everything that was ready when the iteration began, before the callbacks it
  scheduled) — when the caller computed its timeout while that deadline was still ahead.
"""
from __future__ import annotations

import asyncio
import logging
import random
import types
from typing import Any, Optional

from vlib import common, simloop
from vlib.common import KResult, Violation, Disagreement, Property

FIELD_NAMES = ['ticket', 'allowed', 'filesize', 'reason', 'username', 'status', 'privileged', 'nosuch']
CLASS_FIELDS = {0: [0, 1, 2, 3], 1: [4, 5, 6]}      # message class -> attribute (field index) list
EXTRA_ROUNDS = 3
FAR = 10 ** 6


# --------------------------------------------------------------------------------------------
# helpers shared by implementation runner, model lines and monitor
# --------------------------------------------------------------------------------------------

def _pred(exp: str):
    if exp == 'pT':
        return lambda v: True
    if exp == 'pF':
        return lambda v: False
    if exp == 'pN':
        return lambda v: v is None
    if exp == 'pnn':
        return lambda v: v is not None
    if exp.startswith('pge'):
        k = int(exp[3:])
        return lambda v: v is not None and v >= k
    if exp.startswith('peq'):
        k = int(exp[3:])
        return lambda v: v == k
    raise ValueError(f'bad predicate {exp!r}')


def _const(exp: str):
    assert exp[0] == 'c'
    return None if exp == 'cN' else int(exp[1:])


def _py_fields(matcher: dict) -> dict:
    return {FIELD_NAMES[f]: (_pred(e) if e[0] == 'p' else _const(e)) for f, e in matcher['fields']}


def _validate(case: dict):
    """Script constraints that keep the harness' schedule well defined (a violated constraint is a
    harness error, never a finding)."""
    spawned: dict[int, tuple[int, str, int]] = {}
    fired = set()
    for r, rnd in enumerate(case['rounds']):
        for op in rnd['batch']:
            if op[0] in ('raw', 'wait', 'exec'):
                tag = op[1]
                assert tag not in spawned, 'tag reused'
                mode = op[2] if op[0] == 'exec' else 0
                assert 0 <= mode <= 4, 'exec mode'
                spawned[tag] = (r, op[0], mode)
                m = op[-1]
                names = [f for f, _ in m['fields']]
                assert len(names) == len(set(names)), 'duplicate field in matcher (dict keys are unique)'
                if op[0] != 'exec':
                    assert (m['cls'] == 's') == (m['peer'] is None), 'raw/wait: peer given iff peer connection'
            elif op[0] in ('cancelfut', 'canceltask'):
                tag = op[1]
                assert tag in spawned, 'cancel of unknown waiter'
                sr, kd, mode = spawned[tag]
                # the caller task runs its first step one iteration after it was spawned
                need = 0 if (op[0] == 'cancelfut' and kd == 'raw') else 1
                assert r >= sr + need, 'cancel before the caller task (and its future) exists'
        for tag in rnd['fire']:
            assert tag in spawned and tag not in fired, 'fire of unknown waiter / twice'
            fired.add(tag)
            sr, kd, mode = spawned[tag]
            assert not (kd == 'exec' and mode == 4), 'mode 4 never arms its timeout'
            need = 3 if (kd == 'exec' and mode >= 2) else 2
            assert r >= sr + need, 'timeout scheduled before the caller armed it'


def _deadlines(case: dict) -> dict[int, float]:
    d = {}
    for r, rnd in enumerate(case['rounds']):
        for p, tag in enumerate(rnd['fire']):
            assert p < 8
            d[tag] = r + p / 16.0
    return d


def _spec_match(m: dict, conn: str, cls: int, attrs: list) -> bool:
    """The property's reading of "the message answers the request" — written independently of
    ExpectedResponse.matches and of the Lean model."""
    is_peer = conn != 's'
    if (m['cls'] == 'p') != is_peer:
        return False
    if m['msg'] != cls:
        return False
    if m['peer'] is not None and is_peer:
        if conn == 'pN' or int(conn[1:]) != m['peer']:
            return False
    have = {f: v for f, v in attrs}
    for f, e in m['fields']:
        if e[0] == 'p':
            if f not in have or not _pred(e)(have[f]):
                return False
        else:
            if have.get(f) != _const(e):
                return False
    return True


# --------------------------------------------------------------------------------------------
# implementation side
# --------------------------------------------------------------------------------------------

class _SendFail(Exception):
    pass


class _LogCounter(logging.Handler):
    def __init__(self):
        super().__init__(level=logging.DEBUG)
        self.errors = 0

    def emit(self, record):
        try:
            msg = record.getMessage()
        except Exception:
            msg = str(record.msg)
        if 'error during callback' in msg:
            self.errors += 1


def _run_impl(case: dict) -> dict:
    """Returns {'snaps': [canonical state after every script line], 'marks': [...]}"""
    _validate(case)
    from aioslsk.network.network import Network, ExpectedResponse
    from aioslsk.network.connection import PeerConnection, ServerConnection
    from aioslsk.client import SoulSeekClient
    from aioslsk.settings import Settings
    from aioslsk.events import EventBus
    from aioslsk.protocol.messages import PeerTransferReply, GetUserStatus
    from async_timeout import timeout as atimeout

    msg_classes = {0: PeerTransferReply.Request, 1: GetUserStatus.Response}
    deadlines = _deadlines(case)
    counter = _LogCounter()
    lg = logging.getLogger('aioslsk.network.connection')
    saved = (lg.level, lg.propagate, list(lg.handlers))
    lg.handlers = [counter]
    lg.propagate = False
    lg.setLevel(logging.DEBUG)

    async def main(loop):
        bus = EventBus()
        net = Network(Settings(credentials={'username': 'u', 'password': 'p'}), bus)
        T0 = loop.time()
        conns: dict[str, Any] = {'s': net.server_connection}

        def conn_of(c: str):
            if c not in conns:
                user = None if c == 'pN' else f'user{c[1:]}'
                conns[c] = PeerConnection('10.0.0.1', 2000 + len(conns), net, username=user)
            return conns[c]

        futs: dict[int, Any] = {}        # tag -> ExpectedResponse
        tasks: dict[int, asyncio.Task] = {}
        tag_of_fut: dict[int, int] = {}
        msgs: list = []                  # delivered message objects, index = message number
        current = {'tag': None}

        def record(f):
            tag = current['tag']
            if tag is not None and tag not in futs:
                futs[tag] = f
                tag_of_fut[id(f)] = tag
            current['tag'] = None
            return f

        orig_s, orig_p = net.create_server_response_future, net.create_peer_response_future
        net.create_server_response_future = lambda *a, **k: record(orig_s(*a, **k))
        net.create_peer_response_future = lambda *a, **k: record(orig_p(*a, **k))

        def timeout_of(tag):
            return (T0 + deadlines[tag] if tag in deadlines else T0 + FAR) - loop.time()

        def create(tag, m):
            current['tag'] = tag
            if m['cls'] == 's':
                return net.create_server_response_future(msg_classes[m['msg']], fields=_py_fields(m))
            return net.create_peer_response_future(f"user{m['peer']}", msg_classes[m['msg']], fields=_py_fields(m))

        async def raw_caller(tag, fut):
            # the way transfer/manager.py:748-755, 908-915 await such a future
            async with atimeout(timeout_of(tag)):
                _, response = await fut
            return response

        async def wait_caller(tag, m):
            current['tag'] = tag      # consumed by the create_*_response_future call in the coroutine's first step
            if m['cls'] == 's':
                co = net.wait_for_server_message(msg_classes[m['msg']], fields=_py_fields(m), timeout=timeout_of(tag))
            else:
                co = net.wait_for_peer_message(f"user{m['peer']}", msg_classes[m['msg']], fields=_py_fields(m),
                                               timeout=timeout_of(tag))
            return await co

        class StubCommand:
            def __init__(self, tag, mode, m):
                self.tag, self.mode, self.m = tag, mode, m

            def build_expected_response(self, client):
                m = self.m
                f = ExpectedResponse(ServerConnection if m['cls'] == 's' else PeerConnection, msg_classes[m['msg']],
                                     peer=None if m['peer'] is None else f"user{m['peer']}", fields=_py_fields(m))
                futs[self.tag] = f
                tag_of_fut[id(f)] = self.tag
                return f

            async def send(self, client):
                if self.mode == 4:
                    await loop.create_future()      # e.g. a drain() that never returns; only cancellation ends it
                if self.mode >= 2:
                    await asyncio.sleep(0)
                if self.mode in (1, 3):
                    raise _SendFail()

            def handle_response(self, client, response):
                return response

        client_stub = types.SimpleNamespace(session=object(), network=net)

        async def exec_caller(tag, mode, m):
            # execute() arms its timeout after `send`; a suspending send moves that one iteration (= 1 s) later
            return await SoulSeekClient.execute(client_stub, StubCommand(tag, mode, m), response=True,
                                                timeout=timeout_of(tag) - (1.0 if mode >= 2 else 0.0))

        def fut_state(f):
            if not f.done():
                return 'P'
            if f.cancelled():
                return 'C'
            if f.exception() is not None:
                return 'X'
            res = f.result()
            try:
                return f'R{next(i for i, mm in enumerate(msgs) if mm is res[1])}'
            except Exception:
                return 'R?'

        def out_state(t: Optional[asyncio.Task]):
            if t is None or not t.done():
                return '-'
            if t.cancelled():
                return 'C'
            exc = t.exception()
            if exc is None:
                res = t.result()
                for i, mm in enumerate(msgs):
                    if mm is res:
                        return f'r{i}'
                return 'r?'
            if isinstance(exc, asyncio.InvalidStateError):
                return 'I'
            if isinstance(exc, TimeoutError):
                return 'T'
            if isinstance(exc, _SendFail):
                return 'S'
            return 'E:' + type(exc).__name__

        snaps: list[str] = []

        def snap():
            order = [str(tag_of_fut.get(id(f), '?')) for f in net._expected_response_futures]
            ents = [f'{tag}:{fut_state(futs[tag])}:{out_state(tasks.get(tag))}' for tag in sorted(futs)]
            snaps.append(f"n={len(msgs)} e={counter.errors} order={','.join(order)} | {' '.join(ents)}")

        keep = []
        rounds = case['rounds'] + [{'batch': [], 'fire': []}] * EXTRA_ROUNDS
        for r, rnd in enumerate(rounds):
            for op in rnd['batch']:
                kind = op[0]
                if kind == 'raw':
                    f = create(op[1], op[2])
                    tasks[op[1]] = loop.create_task(raw_caller(op[1], f))
                elif kind == 'wait':
                    tasks[op[1]] = loop.create_task(wait_caller(op[1], op[2]))
                elif kind == 'exec':
                    tasks[op[1]] = loop.create_task(exec_caller(op[1], op[2], op[3]))
                elif kind == 'msg':
                    _, c, cls, attrs = op
                    vals = {FIELD_NAMES[f]: v for f, v in attrs}
                    message = msg_classes[cls](**vals)
                    msgs.append(message)
                    # exactly what DataConnection._message_reader_loop does with a decoded message
                    await conn_of(c)._perform_message_callback(message)
                elif kind == 'cancelfut':
                    futs[op[1]].cancel()
                elif kind == 'canceltask':
                    tasks[op[1]].cancel()
                else:
                    raise ValueError(f'bad op {op!r}')
                snap()
            # timers with deadline <= T0 + (r+1) + 0.5 become due at the start of the next iteration
            loop._vt = T0 + (r + 1) + 0.5
            await asyncio.sleep(0)
            snap()
        keep.append((bus, conns))
        return snaps

    try:
        snaps, loop = simloop.run(main)
        return {'snaps': snaps, 'loop_exceptions': [e for e in loop.exceptions
                                                     if e.get('type') not in (None, 'CancelledError')]}
    finally:
        lg.setLevel(saved[0])
        lg.propagate = saved[1]
        lg.handlers = saved[2]


# --------------------------------------------------------------------------------------------
# model side
# --------------------------------------------------------------------------------------------

def _matcher_tokens(m: dict) -> list[str]:
    toks = [m['cls'], str(m['msg']), '-' if m['peer'] is None else str(m['peer']), str(len(m['fields']))]
    for f, e in m['fields']:
        toks += [str(f), e]
    return toks


def _model_lines(case: dict) -> list[str]:
    lines = ['reset']
    rounds = case['rounds'] + [{'batch': [], 'fire': []}] * EXTRA_ROUNDS
    for rnd in rounds:
        for op in rnd['batch']:
            k = op[0]
            if k in ('raw', 'wait'):
                lines.append(' '.join([k, str(op[1])] + _matcher_tokens(op[2])))
            elif k == 'exec':
                lines.append(' '.join([k, str(op[1]), str(op[2])] + _matcher_tokens(op[3])))
            elif k == 'msg':
                _, c, cls, attrs = op
                toks = ['msg', c, str(cls), str(len(attrs))]
                for f, v in attrs:
                    toks += [str(f), 'N' if v is None else str(v)]
                lines.append(' '.join(toks))
            else:
                lines.append(f'{k} {op[1]}')
        lines.append(' '.join(['yield'] + [str(t) for t in rnd['fire']]))
    return lines


# --------------------------------------------------------------------------------------------
# monitor: the property statement on the implementation trace
# --------------------------------------------------------------------------------------------

def _parse_snap(s: str) -> dict:
    head, _, tail = s.partition(' | ')
    parts = dict(p.split('=', 1) for p in head.split())
    ents = {}
    for e in tail.split():
        tag, fut, out = e.split(':', 2)
        ents[int(tag)] = (fut, out)
    return {'n': int(parts['n']), 'e': int(parts['e']),
            'order': [x for x in parts['order'].split(',') if x], 'w': ents}


def _monitor(case: dict, impl: dict) -> list[Violation]:
    vs: list[Violation] = []
    snaps = [_parse_snap(s) for s in impl['snaps']]
    matcher_of: dict[int, dict] = {}
    kind_of: dict[int, str] = {}
    never_awaits: set[int] = set()
    cancelled_task: set[int] = set()
    cancelled_fut: set[int] = set()
    fired_pending: set[int] = set()      # timeout fired while the future was still pending
    fired_waiting: set[int] = set()      # timeout fired while the caller was still waiting
    rounds = case['rounds'] + [{'batch': [], 'fire': []}] * EXTRA_ROUNDS
    prev = {'n': 0, 'e': 0, 'order': [], 'w': {}}
    begin_prev: Optional[dict] = None    # snapshot at the previous round begin
    i = 0

    def add(sig, what, observed=None, required=None):
        vs.append(Violation(sig, what, case, observed=observed, required=required))

    def stable(before, after, where, exempt=()):
        # a completed future never changes; a caller gets exactly one answer
        for tag, (f0, o0) in before['w'].items():
            if tag not in after['w']:
                add('C12-request-vanished', f'request {tag} disappeared', where)
                continue
            f1, o1 = after['w'][tag]
            if f0 != 'P' and f1 != f0 and tag not in exempt:
                add('C12-completed-twice', f'future of request {tag} changed from {f0} to {f1} after completion', where,
                    'a request is completed at most once')
            if o0 != '-' and o1 != o0:
                add('C12-completed-twice', f'caller of request {tag} got {o0} and then {o1}', where)

    for r, rnd in enumerate(rounds):
        for op in rnd['batch']:
            cur = snaps[i]
            where = {'round': r, 'op': op, 'before': impl['snaps'][i - 1] if i else None, 'after': impl['snaps'][i]}
            k = op[0]
            if k in ('raw', 'wait', 'exec'):
                matcher_of[op[1]] = op[-1]
                kind_of[op[1]] = k
                if k == 'exec' and op[2] == 4:
                    never_awaits.add(op[1])
            if k == 'canceltask' and prev['w'].get(op[1], ('', ''))[1] == '-':
                cancelled_task.add(op[1])
            if k == 'cancelfut':
                cancelled_fut.add(op[1])
            if k == 'msg':
                _, c, cls, attrs = op
                n = prev['n']
                for tag, (f0, _o0) in prev['w'].items():
                    f1 = cur['w'].get(tag, ('?', '?'))[0]
                    if f0 != 'P':
                        continue
                    want = _spec_match(matcher_of[tag], c, cls, attrs)
                    if want and f1 != f'R{n}':
                        add('C12-missed-completion',
                            f'message #{n} answers pending request {tag} but its future is {f1}', where, f'R{n}')
                    if not want and f1 != 'P':
                        add('C12-wrong-completion',
                            f'message #{n} does not answer request {tag} but its future became {f1}', where, 'P')
            stable(prev, cur, where)
            if cur['e'] > prev['e']:
                add('C12-invalid-state', '"error during callback": on_message_received raised while completing '
                    'expected responses; waiters after the failing one are skipped', where, 'no internal error')
            prev = cur
            i += 1
        # the yield: timeouts of rnd['fire'] fire, callbacks run, next iteration up to the driving task
        cur = snaps[i]
        where = {'round': r, 'op': ['yield'] + list(rnd['fire']), 'before': impl['snaps'][i - 1] if i else None,
                 'after': impl['snaps'][i]}
        for tag in rnd['fire']:
            f0, o0 = prev['w'].get(tag, ('?', '?'))
            if o0 == '-':
                fired_waiting.add(tag)
                if f0 == 'P':
                    fired_pending.add(tag)
        stable(prev, cur, where)
        # residue: a future that was done at the previous round begin is not listed one iteration later
        if begin_prev is not None:
            for tag, (f0, _o) in begin_prev['w'].items():
                if f0 != 'P' and str(tag) in cur['order']:
                    add('C12-residue', f'request {tag} ({f0}) is still in the expected-response list a full loop '
                        'iteration after it was completed/cancelled', where, 'removed')
        begin_prev = cur
        prev = cur
        i += 1

    final = snaps[-1]
    for tag, (f, o) in final['w'].items():
        if o == 'I':
            add('C12-invalid-state', f'caller of request {tag} got asyncio.InvalidStateError', impl['snaps'][-1],
                'TimeoutError / result / CancelledError')
        elif o.startswith('E:') or o == 'r?':
            add('C12-internal-error', f'caller of request {tag} got {o}', impl['snaps'][-1])
        if tag in fired_waiting and tag not in cancelled_task:
            ok = {'T'} | ({'r' + f[1:]} if f.startswith('R') and tag not in fired_pending else set())
            if o not in ok and o != 'I':
                add('C12-timeout-not-timeout', f'timeout of request {tag} fired but its caller got {o!r}',
                    impl['snaps'][-1], sorted(ok))
        if o.startswith('r') and o != 'r?' and f != 'R' + o[1:]:
            add('C12-wrong-result', f'caller of request {tag} got message {o} but its future is {f}', impl['snaps'][-1])
        # (a mode-4 execute() is still inside command.send — it has not started to wait for the reply)
        if f.startswith('R') and o == '-' and kind_of.get(tag) is not None and tag not in never_awaits:
            add('C12-caller-not-answered', f'request {tag} completed with {f} but its caller is still waiting at '
                'quiescence', impl['snaps'][-1])
        send_failed = kind_of.get(tag) == 'exec' and o == 'S'      # execute() re-raises the failure of command.send
        if (f.startswith('R') and tag not in fired_waiting and tag not in cancelled_task and not send_failed
                and o not in ('-', 'r' + f[1:], 'I')):
            add('C12-wrong-result', f'request {tag} completed with {f} (no timeout, no cancel) but its caller got {o}',
                impl['snaps'][-1], 'r' + f[1:])
    for t in final['order']:
        if t == '?' or final['w'].get(int(t), ('P', ''))[0] != 'P':
            add('C12-residue', f'expected-response list still holds completed/cancelled request {t} at quiescence',
                impl['snaps'][-1], 'only pending requests are listed')
    for tag, (f, o) in final['w'].items():
        if f == 'P' and o != '-' and str(tag) in final['order']:
            add('C12-residue-caller-gone', f'caller of request {tag} is gone (it got {o!r}) but the request is still '
                'pending in the expected-response list at quiescence: nobody waits for it and nothing removes it',
                impl['snaps'][-1], 'a cancelled / failed request is cancelled and removed')
    for tag, (f, _o) in final['w'].items():
        if f == 'P' and str(tag) not in final['order']:
            add('C12-pending-unlisted', f'request {tag} is pending but not in the expected-response list',
                impl['snaps'][-1])
    if impl.get('loop_exceptions'):
        add('C12-internal-error', 'exception reported to the loop exception handler', impl['loop_exceptions'][:2])
    return vs


# --------------------------------------------------------------------------------------------
# generator
# --------------------------------------------------------------------------------------------

VALS = [None, 0, 1, 2]


def _gen_matcher(rng: random.Random, kind: str, shared: Optional[dict]) -> dict:
    if shared is not None and rng.random() < 0.5:
        m = {'cls': shared['cls'], 'msg': shared['msg'], 'peer': shared['peer'],
             'fields': [list(x) for x in shared['fields']]}
        if rng.random() < 0.4 and m['fields']:
            j = rng.randrange(len(m['fields']))
            m['fields'][j][1] = _gen_exp(rng)
        if kind != 'exec' and (m['cls'] == 's') != (m['peer'] is None):
            m['peer'] = None if m['cls'] == 's' else rng.randint(0, 1)
        return m
    cls = rng.choice('sp')
    msg = rng.randint(0, 1)
    if kind == 'exec':
        peer = rng.choice([None, 0, 1]) if rng.random() < 0.3 else (None if cls == 's' else rng.randint(0, 1))
    else:
        peer = None if cls == 's' else rng.randint(0, 1)
    own = CLASS_FIELDS[msg]
    nf = rng.choice([0, 1, 1, 2, 2, 3])
    pool = own * 3 + [7] + CLASS_FIELDS[1 - msg][:1]
    names: list[int] = []
    while len(names) < nf:
        f = rng.choice(pool)
        if f not in names:
            names.append(f)
    return {'cls': cls, 'msg': msg, 'peer': peer, 'fields': [[f, _gen_exp(rng)] for f in names]}


def _gen_exp(rng: random.Random) -> str:
    r = rng.random()
    if r < 0.5:
        return rng.choice(['c0', 'c1', 'c1', 'c2', 'cN'])
    return rng.choice(['pT', 'pT', 'pF', 'pN', 'pnn', 'pge1', 'pge1', 'peq1', 'peq2', 'pge0'])


def _satisfying(rng: random.Random, e: str):
    cands = [v for v in VALS if (_pred(e)(v) if e[0] == 'p' else v == _const(e))]
    return rng.choice(cands) if cands else rng.choice(VALS)


def _gen_msg(rng: random.Random, matchers: list[dict]) -> list:
    if matchers and rng.random() < 0.85:
        m = rng.choice(matchers)
        cls = m['msg']
        if m['cls'] == 's':
            conn = 's'
        else:
            conn = f"p{m['peer']}" if m['peer'] is not None else rng.choice(['p0', 'p1', 'pN'])
        vals = {f: rng.choice(VALS) for f in CLASS_FIELDS[cls]}
        for f, e in m['fields']:
            if f in vals:
                vals[f] = _satisfying(rng, e)
        r = rng.random()
        if r < 0.12:
            f = rng.choice(CLASS_FIELDS[cls])
            vals[f] = rng.choice(VALS)
        elif r < 0.18:
            conn = rng.choice(['s', 'p0', 'p1', 'pN'])
        elif r < 0.22:
            cls2 = 1 - cls
            vals = {f: rng.choice(VALS) for f in CLASS_FIELDS[cls2]}
            cls = cls2
        return ['msg', conn, cls, [[f, vals[f]] for f in CLASS_FIELDS[cls]]]
    cls = rng.randint(0, 1)
    return ['msg', rng.choice(['s', 'p0', 'p1', 'pN']), cls, [[f, rng.choice(VALS)] for f in CLASS_FIELDS[cls]]]


def _gen_case(rng: random.Random) -> dict:
    kind = rng.choice(['mixed', 'mixed', 'mixed', 'timeouts', 'burst', 'same-matcher', 'late-wave'])
    nrounds = rng.randint(4, 9)
    rounds = [{'batch': [], 'fire': []} for _ in range(nrounds)]
    n_first = rng.randint(1, 4)
    waiters = []        # (tag, spawn round, kind, mode, matcher)
    shared = None
    tag = 0

    def spawn(r):
        nonlocal tag, shared
        wk = rng.choice(['raw', 'wait', 'wait', 'exec'])
        mode = rng.choice([0, 0, 0, 2, 2, 1, 3, 4]) if wk == 'exec' else 0
        m = _gen_matcher(rng, wk, shared if (kind == 'same-matcher' or rng.random() < 0.5) else None)
        if shared is None:
            shared = m
        op = [wk, tag, m] if wk != 'exec' else [wk, tag, mode, m]
        rounds[r]['batch'].append(op)
        waiters.append((tag, r, wk, mode, m))
        tag += 1

    for _ in range(n_first):
        spawn(rng.choice([0, 0, 0, 1]))
    if kind == 'late-wave' or rng.random() < 0.25:
        for _ in range(rng.randint(1, 2)):
            spawn(rng.randint(2, nrounds - 1))
    # timeouts
    p_fire = {'timeouts': 0.8, 'burst': 0.3}.get(kind, 0.45)
    for (t, sr, wk, mode, m) in waiters:
        need = 3 if (wk == 'exec' and mode >= 2) else 2
        if sr + need < nrounds and rng.random() < p_fire and not (wk == 'exec' and mode in (1, 3, 4)):
            r = rng.randint(sr + need, nrounds - 1)
            if len(rounds[r]['fire']) < 8:
                rounds[r]['fire'].append(t)
    # messages and cancels, round by round
    for r in range(nrounds):
        alive = [w for w in waiters if w[1] <= r]
        ms = [w[4] for w in alive]
        nm = rng.choice([0, 0, 1, 1, 2, 3] if kind != 'burst' else [1, 2, 3, 4])
        extra = []
        for _ in range(nm):
            if not ms and rng.random() < 0.7:
                continue
            mop = _gen_msg(rng, ms)
            extra.append(mop)
            if rng.random() < 0.3:
                extra.append([mop[0], mop[1], mop[2], [list(x) for x in mop[3]]])    # the same reply twice, back-to-back
        for (t, sr, wk, mode, m) in alive:
            if rng.random() < 0.08:
                if wk == 'raw' or r >= sr + 1:
                    extra.append(['cancelfut', t])
            if rng.random() < 0.08 and r >= sr + 1:
                extra.append(['canceltask', t])
            # execute() cancelled while it is suspended in command.send
            if wk == 'exec' and mode >= 2 and rng.random() < 0.3 and (r == sr + 1 or (mode == 4 and r > sr and rng.random() < 0.5)):
                extra.append(['canceltask', t])
        rng.shuffle(extra)
        rounds[r]['batch'] += extra
    return {'rounds': rounds, 'kind': kind}


def _mk(fields):
    return {'cls': 's', 'msg': 1, 'peer': None, 'fields': fields}


_REPLY = ['msg', 's', 1, [[4, 1], [5, 2], [6, None]]]
# known schedules, always run (also the replay inputs of the fixes/C12-*.md notes)
DIRECTED = [
    # (a) wait_for_server_message simply times out
    {'kind': 'directed-timeout', 'rounds': [{'batch': [['wait', 0, _mk([[4, 'c1']])]], 'fire': []},
                                            {'batch': [], 'fire': []}, {'batch': [], 'fire': [0]},
                                            {'batch': [], 'fire': []}]},
    # (b) the same reply twice back-to-back, two waiters
    {'kind': 'directed-double', 'rounds': [{'batch': [['raw', 0, _mk([[4, 'c1']])], ['wait', 1, _mk([[4, 'c1']])]], 'fire': []},
                                           {'batch': [], 'fire': []},
                                           {'batch': [_REPLY, _REPLY], 'fire': []}, {'batch': [], 'fire': []}]},
    # (b') reply arrives while a timed-out waiter is still listed; a second waiter behind it must still complete
    {'kind': 'directed-timeout-then-reply', 'rounds': [
        {'batch': [['wait', 0, _mk([[4, 'c1']])], ['wait', 1, _mk([[4, 'c1']])]], 'fire': []},
        {'batch': [], 'fire': []}, {'batch': [], 'fire': [0]}, {'batch': [_REPLY], 'fire': []}, {'batch': [], 'fire': []}]},
    # (c) predicate field followed by a constant field that does not match
    {'kind': 'directed-predicate', 'rounds': [{'batch': [['raw', 0, _mk([[4, 'pT'], [5, 'c0']])]], 'fire': []},
                                              {'batch': [_REPLY], 'fire': []}, {'batch': [], 'fire': []}]},
    # reply and timeout in the same loop iteration
    {'kind': 'directed-reply-and-timeout', 'rounds': [{'batch': [['wait', 0, _mk([[4, 'c1']])]], 'fire': []},
                                                      {'batch': [], 'fire': []}, {'batch': [_REPLY], 'fire': [0]},
                                                      {'batch': [], 'fire': []}]},
    # execute(): send raises; then a reply for it arrives in the same step as a second request's reply
    {'kind': 'directed-exec', 'rounds': [{'batch': [['exec', 0, 1, _mk([[4, 'c1']])], ['exec', 1, 0, _mk([[4, 'c1']])]], 'fire': []},
                                         {'batch': [_REPLY], 'fire': []}, {'batch': [_REPLY], 'fire': []},
                                         {'batch': [], 'fire': []}]},
    # execute() is cancelled while suspended in command.send (send resumes by itself / only by the cancellation)
    {'kind': 'directed-cancel-during-send', 'rounds': [
        {'batch': [['exec', 0, 2, _mk([[4, 'c1']])], ['exec', 1, 4, _mk([[4, 'c1']])], ['exec', 2, 3, _mk([[4, 'c1']])]], 'fire': []},
        {'batch': [['canceltask', 0], ['canceltask', 2]], 'fire': []}, {'batch': [['canceltask', 1]], 'fire': []},
        {'batch': [], 'fire': []}]},
]


def _eval_case(case):
    try:
        return _run_impl(case)
    except AssertionError:
        raise
    except Exception as e:      # the harness itself failed: surface it
        import traceback
        return {'snaps': [], 'harness_error': f'{type(e).__name__}: {e}', 'tb': traceback.format_exc()[-1500:]}


def _features(case: dict, impl: dict) -> set[str]:
    """schedule features reached (for the distribution and the non-triviality rule)"""
    feats = set()
    snaps = [_parse_snap(s) for s in impl['snaps']]
    i = 0
    prev = None
    rounds = case['rounds'] + [{'batch': [], 'fire': []}] * EXTRA_ROUNDS
    spawn_round = {}
    for r, rnd in enumerate(rounds):
        # exec callers that are (still) inside command.send during this round's batch
        sending = {t for t, (sr, mode) in spawn_round.items() if (mode in (2, 3) and r == sr + 1) or (mode == 4 and r > sr)}
        for op in rnd['batch']:
            if op[0] == 'exec':
                spawn_round[op[1]] = (r, op[2])
            cur = snaps[i]
            if op[0] == 'msg' and prev is not None:
                done_listed = [t for t in prev['order'] if t != '?' and prev['w'].get(int(t), ('P',))[0] != 'P']
                if done_listed:
                    feats.add('msg-while-done-future-listed')
                newly = [t for t, (f, _o) in cur['w'].items() if f.startswith('R') and prev['w'].get(t, ('P',))[0] == 'P']
                if newly:
                    feats.add('completed-by-message')
                if len(newly) >= 2:
                    feats.add('one-message-completes-several')
            if op[0] in ('cancelfut', 'canceltask'):
                feats.add(op[0])
                if op[0] == 'canceltask' and prev is not None and op[1] in prev['w'] and \
                        prev['w'][op[1]][1] == '-' and op[1] in sending:
                    feats.add('task-cancelled-during-send')
            if op[0] == 'exec':
                feats.add(f'exec-mode{op[2]}')
            if op[0] in ('raw', 'wait', 'exec'):
                m = op[-1]
                if sum(1 for _f, e in m['fields'] if e[0] == 'p') >= 1 and len(m['fields']) >= 2:
                    feats.add('predicate-with-other-fields')
            prev = cur
            i += 1
        cur = snaps[i]
        for t in rnd['fire']:
            if prev is not None and t in prev['w'] and prev['w'][t][1] == '-':
                feats.add('timeout-fired-on-waiting-caller')
                if prev['w'][t][0].startswith('R'):
                    feats.add('timeout-after-reply-same-iteration')
        prev = cur
        i += 1
    return feats


class C12(Property):
    id = 'C12'
    props_module = 'AioslskVerif.Props.C12'
    driver_module = 'AioslskVerif.Driver.C12'
    rule = ('scripts of 4..9 loop iterations over 1..4 concurrent requests (+ up to 2 later ones) of kinds '
            'raw future / wait_for_*_message / execute(), 2 message classes x server + 3 peer connections x field matchers '
            '(constants, predicates, several fields, missing attributes), message batches delivered back-to-back in one '
            'task step or across iterations, timeouts fired at chosen iterations, future/task cancellations, derived '
            'from VERIF_SEED; a case is non-trivial when a message completed a request AND at least one of: a timeout '
            'fired on a waiting caller, a cancellation (also of execute() inside command.send), a failing send, a message '
            'delivered while a completed future was '
            'still listed; distinct = distinct canonical script')
    assumptions = [
        'asyncio semantics (FIFO call_soon, done-callbacks run one iteration later, Task.cancel/must_cancel, '
        'asyncio.Timeout) are modelled in the Lean driver\'s ready-queue mirror and validated only differentially',
        'field predicates are total and do not raise; expected values are None/ints (no bool/int aliasing)',
        'no MESSAGE_MAP handler / EventBus listener suspends between two buffered messages (true for the classes used)',
        'a caller task is cancelled only after its first step ran (a task cancelled before it starts registers nothing)',
    ]
    modelled = ('ExpectedResponse.matches; create_server/peer_response_future, register_response_future, '
                '_remove_response_future; wait_for_server/peer_message incl. timeout path; completion loop of '
                'on_message_received; SoulSeekClient.execute (register, send ok/raises/suspends/is cancelled while suspended, '
                'await with timeout). '
                'Not modelled: MESSAGE_MAP handlers and bus listeners that run before the completion loop, '
                'asyncio.wait-based use in _make_indirect_connection (only its fut.cancel()), real sockets/reader')

    def correspondence(self, seed, tier, model_ok, widen=1):
        res = KResult()
        rng = random.Random(f'C12-{seed}')
        n = (1200 if tier == 'quick' else 30000) * widen
        cases = list(DIRECTED) + [_gen_case(rng) for _ in range(n)]
        impl = common.parallel_map(_eval_case, cases)
        model = None
        if model_ok:
            lines, spans = [], []
            for c in cases:
                ls = _model_lines(c)
                spans.append((len(lines) + 1, len(ls) - 1))      # skip the answer to `reset`
                lines += ls
            out = common.run_driver(self.driver_file, lines)
            model = [out[a:a + k] for a, k in spans]
        else:
            res.model_available = False
        for i, c in enumerate(cases):
            res.evaluations += 1
            io = impl[i]
            if io.get('harness_error'):
                raise RuntimeError(f'C12 harness error: {io["harness_error"]}\n{io.get("tb")}\ncase={c}')
            res.count('kind:' + c['kind'])
            res.count('rounds', len(c['rounds']))
            for rnd in c['rounds']:
                for op in rnd['batch']:
                    res.count('op:' + op[0])
                res.count('op:timeout-scheduled', len(rnd['fire']))
            feats = _features(c, io)
            for f in feats:
                res.count('feature:' + f)
            if 'completed-by-message' in feats and feats & {'timeout-fired-on-waiting-caller', 'cancelfut', 'canceltask',
                                                            'exec-mode1', 'exec-mode3', 'msg-while-done-future-listed',
                                                            'task-cancelled-during-send'}:
                res.nontrivial_keys.add(common.sha(c['rounds']))
            if model is not None:
                res.traces_validated += 1
                if model[i] != io['snaps']:
                    k = next((j for j, (a, b) in enumerate(zip(model[i], io['snaps'])) if a != b),
                             min(len(model[i]), len(io['snaps'])))
                    ml = _model_lines(c)
                    res.disagreements.append(Disagreement(
                        c, io['snaps'][k] if k < len(io['snaps']) else None,
                        model[i][k] if k < len(model[i]) else None, f'line #{k}: {ml[k + 1] if k + 1 < len(ml) else ""}'))
            res.violations += _monitor(c, io)
            if len(res.samples) < 3 and c['kind'].startswith('directed'):
                res.samples.append({'case': c, 'impl': io['snaps']})
        return res

    def replay(self, case):
        return _monitor(case, _eval_case(case))

    def known_witnesses(self):
        return []


PROPERTY = C12()
