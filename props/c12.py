"""C12 — a reply completes exactly the requests it answers; a timeout is a timeout.

Correspondence K_C12 + monitor (DESIGN.md, C12).

The real `Network` (plus the real `SoulSeekClient.execute` body, the real connection objects'
`_perform_message_callback` and — in the handler families — their real `_message_reader_loop`, one task per
connection, with only the source of decoded messages stubbed) runs on `vlib.simloop.SimLoop`.  Messages may carry
*programs* for the listeners of `MessageReceivedEvent` (and for a stand-in at the position of the Network's own
`_MESSAGE_MAP` handler): what the handlers of that message do between its arrival and the completion of its waiters. One *driving task* D executes the
script: every round it performs a batch of synchronous operations inside ONE task step (creating
raw futures, spawning caller tasks, delivering messages "buffered back-to-back", cancelling) and
then yields with `asyncio.sleep(0)`; caller timeouts are made due by moving the virtual clock so
that they fire at the end of a chosen loop iteration.  The Lean driver mirrors asyncio's ready
queue (FIFO `call_soon`) and executes the same script with the model's primitive ops.

case = {'rounds': [{'batch': [op...], 'fire': [tag...]}...], 'kind': str, 'readers': bool, 'extra': int}
  op = ['raw', tag, matcher] | ['wait', tag, matcher] | ['exec', tag, mode, matcher]
       (mode: 0 send ok, 1 send raises, 2 send suspends once then ok, 3 suspends once then raises,
        4 send waits for ever — only cancelling the task ends it)
     | ['msg', conn, cls, [[field, val]...], progs?]    D itself awaits `_perform_message_callback` (programs must not suspend)
     | ['feed', conn, cls, [[field, val]...], progs]    the message goes into the connection's stream: the connection's
                                                        REAL `_message_reader_loop` (one task per connection, message
                                                        source stubbed) takes it when it is free and not closing
     | ['open', gate] | ['close', conn, reason?] (D awaits conn.disconnect(reason)) | ['cancelfut', tag] | ['canceltask', tag]
     | ['connect', 'r<k>']   a NEW connection of user k comes about (through the real `Network.on_peer_accepted`: registered,
                             CONNECTED, PeerInit handled, ESTABLISHED, reader task started) — e.g. after the others were closed
  'own': True — the first program of every message is run by a handler in Network._MESSAGE_MAP (the position of the
          Network's own handlers, before the bus emit) instead of by the first bus listener
  progs = [prog of MessageReceivedEvent listener 0, prog of listener 1, ...]  — what the handlers of THIS message do
          between its arrival and the completion of its waiters; prog = [act...]
  act = ['sleep', k] (k loop iterations) | ['gate', g] | ['close', conn, reason?] (await conn.disconnect()) | ['connect', 'r<k>']
      | ['raw'|'wait', tag, matcher] | ['exec', tag, mode 0|1, matcher]   a new request (own caller task)
      | ['nwait'|'nexec', tag, matcher]   the listener awaits wait_for_*_message / execute(response=True) INLINE
      | ['cancelfut', tag] | ['canceltask', tag] | ['raise']
  matcher = {'cls': 's'|'p', 'msg': 0|1, 'peer': None|int, 'fields': [[field, exp]...]}
  exp = 'cN' | 'c<k>' | 'pT' | 'pF' | 'pN' | 'pnn' | 'pge<k>' | 'peq<k>'
  conn = 's' | 'pN' | 'p<k>' | 'q<k>' (a second connection of user k) | 'r<k>' (a third one: does not exist before its `connect`)
  Every connection is a real object in the state the real code puts an established connection in (`set_state(CONNECTED)`
  reported to the Network, `_finalize_peer_connection`: ESTABLISHED, registered in `peer_connections`, reader task running);
  's', 'pN', 'p<k>', 'q<k>' exist from the start.
  'fire' of round r: the timeouts of these callers fire at the end of the loop iteration in which
  D runs batch r (after everything that was ready when the iteration began, before the callbacks it
  scheduled) — when the caller computed its timeout while that deadline was still ahead.
"""
from __future__ import annotations

import asyncio
import logging
import random
import types
from typing import Any, Optional

from vlib import common, simloop
from vlib.common import KResult, Violation, Disagreement, Property

FIELD_NAMES = ['ticket', 'allowed', 'filesize', 'reason', 'username', 'status', 'privileged', 'nosuch']
CLASS_FIELDS = {0: [0, 1, 2, 3], 1: [4, 5, 6]}      # message class -> attribute (field index) list
CONN_NAMES = ['s', 'pN', 'p0', 'p1', 'q0', 'q1', 'r0', 'r1']    # connection objects (order = identity in the Lean driver)
INITIAL_CONNS = CONN_NAMES[:6]                       # exist (established) from the start; r<k> only after ['connect', 'r<k>']
LATE_CONNS = CONN_NAMES[6:]
CLOSE_REASONS = ['REQUESTED', 'EOF', 'READ_ERROR', 'TIMEOUT', 'WRITE_ERROR', 'UNKNOWN']
EXTRA_ROUNDS = 3
EXTRA_ROUNDS_READERS = 8
FAR = 10 ** 6
SPAWN = ('raw', 'wait', 'exec')
NEST = ('nwait', 'nexec')
INF = (10 ** 12, 0, 0)


def _rounds(case: dict) -> list:
    extra = case.get('extra', EXTRA_ROUNDS_READERS if case.get('readers') else EXTRA_ROUNDS)
    return case['rounds'] + [{'batch': [], 'fire': []}] * extra


def _progs_of(op) -> list:
    return op[4] if op[0] in ('msg', 'feed') and len(op) > 4 else []


# --------------------------------------------------------------------------------------------
# helpers shared by implementation runner, model lines and monitor
# --------------------------------------------------------------------------------------------

def _pred(exp: str):
    if exp == 'pT':
        return lambda v: True
    if exp == 'pF':
        return lambda v: False
    if exp == 'pN':
        return lambda v: v is None
    if exp == 'pnn':
        return lambda v: v is not None
    if exp.startswith('pge'):
        k = int(exp[3:])
        return lambda v: v is not None and v >= k
    if exp.startswith('peq'):
        k = int(exp[3:])
        return lambda v: v == k
    raise ValueError(f'bad predicate {exp!r}')


def _const(exp: str):
    assert exp[0] == 'c'
    return None if exp == 'cN' else int(exp[1:])


def _py_fields(matcher: dict) -> dict:
    return {FIELD_NAMES[f]: (_pred(e) if e[0] == 'p' else _const(e)) for f, e in matcher['fields']}


def _check_matcher(kind: str, m: dict):
    names = [f for f, _ in m['fields']]
    assert len(names) == len(set(names)), 'duplicate field in matcher (dict keys are unique)'
    if kind not in ('exec', 'nexec'):
        assert (m['cls'] == 's') == (m['peer'] is None), 'raw/wait: peer given iff peer connection'


def _validate(case: dict):
    """Script constraints that keep the harness' schedule well defined (a violated constraint is a
    harness error, never a finding)."""
    spawned: dict[int, tuple[int, str, int]] = {}      # requests made by the driving task
    by_handler: dict[int, str] = {}                     # requests made by message handlers: tag -> kind
    fired = set()
    connected: set = set()
    # first pass: every tag a handler program introduces (they may be referred to by later / earlier ops)
    for rnd in case['rounds']:
        for op in rnd['batch']:
            progs = _progs_of(op)
            if op[0] == 'msg':
                assert not case.get('readers'), 'msg (delivered by the driving task) and reader tasks are not mixed'
            if op[0] == 'feed':
                assert case.get('readers'), 'feed needs reader tasks'
            if op[0] in ('msg', 'feed', 'close'):
                assert op[1] in CONN_NAMES, 'connection'
                assert op[1] in INITIAL_CONNS or op[1] in connected, 'the connection does not exist before its `connect`'
            if op[0] == 'close' and len(op) > 2:
                assert op[2] in CLOSE_REASONS
            if op[0] == 'connect':
                assert op[1] in LATE_CONNS and op[1] not in connected, 'connect: r<k>, once'
                connected.add(op[1])
            for prog in progs:
                for a in prog:
                    if a[0] in SPAWN or a[0] in NEST:
                        assert a[1] not in by_handler, 'tag reused'
                        by_handler[a[1]] = a[0]
                        _check_matcher(a[0], a[-1])
                        if a[0] == 'exec':
                            assert a[2] in (0, 1), 'exec made by a handler: mode 0 / 1'
                    elif a[0] in ('sleep', 'gate', 'nwait', 'nexec') and op[0] == 'msg':
                        raise AssertionError('a handler of a message delivered by the driving task must not suspend')
                    if a[0] == 'raise' and case.get('own') and prog is progs[0]:
                        raise AssertionError('the stand-in for the Network\'s own handler does not raise')
                    if a[0] == 'sleep':
                        assert 0 <= a[1] <= 4
                    if a[0] == 'close':
                        assert a[1] in INITIAL_CONNS or a[1] in connected, 'connection (exists when the message is fed)'
                        assert len(a) < 3 or a[2] in CLOSE_REASONS
    for r, rnd in enumerate(case['rounds']):
        for op in rnd['batch']:
            if op[0] in SPAWN:
                tag = op[1]
                assert tag not in spawned and tag not in by_handler, 'tag reused'
                mode = op[2] if op[0] == 'exec' else 0
                assert 0 <= mode <= 4, 'exec mode'
                spawned[tag] = (r, op[0], mode)
                _check_matcher(op[0], op[-1])
            elif op[0] == 'canceltask':
                tag = op[1]
                assert tag in spawned, 'canceltask (by the driving task) of a waiter it did not spawn'
                sr, kd, mode = spawned[tag]
                # the caller task runs its first step one iteration after it was spawned
                assert r >= sr + 1, 'cancel before the caller task (and its future) exists'
            elif op[0] == 'cancelfut':
                tag = op[1]
                assert tag in spawned or tag in by_handler, 'cancel of unknown waiter'
                if tag in spawned:
                    sr, kd, mode = spawned[tag]
                    need = 0 if kd == 'raw' else 1
                    assert r >= sr + need, 'cancel before the caller task (and its future) exists'
            for prog in _progs_of(op):
                for a in prog:
                    if a[0] == 'canceltask':
                        # cancelling the task that awaits a nested request = cancelling a connection's reader task
                        assert by_handler.get(a[1]) not in NEST, 'canceltask of a request awaited inline by a handler'
                        assert a[1] in spawned or a[1] in by_handler
                    if a[0] == 'cancelfut':
                        assert a[1] in spawned or a[1] in by_handler
        for tag in rnd['fire']:
            assert (tag in spawned or tag in by_handler) and tag not in fired, 'fire of unknown waiter / twice'
            fired.add(tag)
            if tag in spawned:
                sr, kd, mode = spawned[tag]
                assert not (kd == 'exec' and mode == 4), 'mode 4 never arms its timeout'
                need = 3 if (kd == 'exec' and mode >= 2) else 2
                assert r >= sr + need, 'timeout scheduled before the caller armed it'
        assert len(rnd['fire']) <= 8


def _deadlines(case: dict) -> dict[int, float]:
    d = {}
    for r, rnd in enumerate(case['rounds']):
        for p, tag in enumerate(rnd['fire']):
            assert p < 8
            d[tag] = r + p / 16.0
    return d


def _spec_match(m: dict, conn: str, cls: int, attrs: list) -> bool:
    """The property's reading of "the message answers the request" — written independently of
    ExpectedResponse.matches and of the Lean model."""
    is_peer = conn != 's'
    if (m['cls'] == 'p') != is_peer:
        return False
    if m['msg'] != cls:
        return False
    if m['peer'] is not None and is_peer:
        if conn == 'pN' or int(conn[1:]) != m['peer']:
            return False
    have = {f: v for f, v in attrs}
    for f, e in m['fields']:
        if e[0] == 'p':
            if f not in have or not _pred(e)(have[f]):
                return False
        else:
            if have.get(f) != _const(e):
                return False
    return True


# --------------------------------------------------------------------------------------------
# implementation side
# --------------------------------------------------------------------------------------------

class _SendFail(Exception):
    pass


class _ListenerFails(Exception):
    pass


class _LogCounter(logging.Handler):
    def __init__(self):
        super().__init__(level=logging.DEBUG)
        self.errors = 0

    def emit(self, record):
        try:
            msg = record.getMessage()
        except Exception:
            msg = str(record.msg)
        if 'error during callback' in msg:
            self.errors += 1


class _StubWriter:
    """what `DataConnection.disconnect` needs of a StreamWriter (nothing here suspends)"""

    def __init__(self):
        self._closed = False

    def is_closing(self):
        return self._closed

    def close(self):
        self._closed = True

    async def wait_closed(self):
        return None

    def write(self, data):
        pass

    async def drain(self):
        return None

    def get_extra_info(self, key, default=None):
        return ('10.0.0.1', 1) if key in ('peername', 'sockname') else default


def _run_impl(case: dict) -> dict:
    """Returns {'snaps': [canonical state after every script line], 'events': [...], 'armed': [...]}"""
    _validate(case)
    from aioslsk.network.network import Network, ExpectedResponse
    from aioslsk.network.connection import (PeerConnection, ServerConnection, ConnectionState, CloseReason,
                                            PeerConnectionType)
    from aioslsk.client import SoulSeekClient
    from aioslsk.settings import Settings
    from aioslsk.events import EventBus, MessageReceivedEvent
    from aioslsk.protocol.messages import PeerTransferReply, GetUserStatus, PeerInit
    from async_timeout import timeout as atimeout

    msg_classes = {0: PeerTransferReply.Request, 1: GetUserStatus.Response}
    deadlines = _deadlines(case)
    counter = _LogCounter()
    quiet = []
    for name in ('aioslsk.network.connection', 'aioslsk.events', 'aioslsk.network.network'):
        lg = logging.getLogger(name)
        quiet.append((lg, lg.level, lg.propagate, list(lg.handlers)))
        lg.handlers = [counter] if name.endswith('connection') else [logging.NullHandler()]
        lg.propagate = False
        lg.setLevel(logging.DEBUG)
    readers = bool(case.get('readers'))
    rounds = _rounds(case)
    nlisteners = max([len(_progs_of(op)) for rnd in rounds for op in rnd['batch']] + [0])

    async def main(loop):
        bus = EventBus()
        # (no UPnP job, no reconnect watchdog: CONNECTED / CLOSING of the server connection start / stop nothing)
        net = Network(Settings(credentials={'username': 'u', 'password': 'p'},
                               network={'upnp': {'enabled': False}, 'server': {'reconnect': {'auto': False}}}), bus)
        conns: dict[str, Any] = {}
        inbox: dict[str, list] = {c: [] for c in CONN_NAMES}
        waiting: dict[str, asyncio.Future] = {}      # connection -> the future its reader task waits on
        events: list = []                # (loop iteration, kind, ...) in program order — for the monitor only
        futs: dict[int, Any] = {}        # tag -> ExpectedResponse
        tasks: dict[int, asyncio.Task] = {}
        tag_of_fut: dict[int, int] = {}
        msgs: list = []                  # message objects that entered on_message_received, index = message number
        number: dict[int, int] = {}      # id(message) -> message number
        programs: dict[int, list] = {}   # id(message) -> listener programs
        op_of: dict[int, list] = {}      # id(message) -> the script op that made it
        content: dict[int, list] = {}    # message number -> script op
        returned: set[int] = set()
        started: set[int] = set()        # caller tasks that ran their first step
        armed: set[int] = set()
        nested: set[int] = set()
        nested_out: dict[int, Any] = {}
        gates: dict[int, asyncio.Future] = {}
        keep: list = []
        current = {'tag': None}

        def fut_states():
            return {tag: fut_state(f) for tag, f in futs.items()}

        def conn_of(c: str):
            return conns[c]

        async def establish(c: str):
            """a connection comes about the way the real code brings one about: the Network is told CONNECTED
            (`Connection.set_state`), a peer connection is registered and initialised by the real `on_peer_accepted`
            (PeerInit -> user name and type, `_finalize_peer_connection`: ESTABLISHED, reader task); only the socket and
            the parser are stand-ins"""
            if c == 's':
                conn = net.server_connection
            else:
                # as ListeningConnection.accept creates it (connection.py:179-185)
                conn = PeerConnection('10.0.0.1', 2000 + CONN_NAMES.index(c), net, incoming=True,
                                      connection_type=PeerConnectionType.PEER)
            conn._reader, conn._writer = object(), _StubWriter()
            orig = conn._perform_message_callback

            async def perform(message, _orig=orig, _c=c):
                # entry and exit of what the reader loop awaits for one decoded message
                n = len(msgs)
                msgs.append(message)
                number[id(message)] = n
                content[n] = op_of[id(message)]
                events.append((loop.iterations, 'arrive', n, _c, fut_states()))
                try:
                    await _orig(message)
                finally:
                    returned.add(n)
                    events.append((loop.iterations, 'return', n, fut_states()))
            conn._perform_message_callback = perform
            # the source of decoded messages (`receive_message_object`, i.e. socket + parser): the peer's PeerInit first,
            # then the scripted stream (reader families) / nothing, for ever (messages delivered by the driving task)
            first = [] if c in ('s', 'pN') else [PeerInit.Request(f'user{c[1:]}', PeerConnectionType.PEER, 0)]

            async def receive_message_object(_c=c, _first=first):
                if _first:
                    return _first.pop(0)
                while not (readers and inbox[_c]):
                    g = loop.create_future()
                    waiting[_c] = g
                    keep.append(g)
                    await g
                return inbox[_c].pop(0)
            conn.receive_message_object = receive_message_object
            conns[c] = conn
            await conn.set_state(ConnectionState.CONNECTED)
            if c == 's':
                conn.start_reader_task()                    # client.py (login): the server's reader loop
            elif c == 'pN':
                # a messaging connection whose user is not known (kept from the earlier rounds: `peer` is only compared
                # with a name): registered and finalised directly
                net.peer_connections.append(conn)
                net._finalize_peer_connection(conn)
            else:
                await net.on_peer_accepted(conn)
            keep.append(conn._reader_task)
            return conn

        def record(f):
            tag = current['tag']
            if tag is not None and tag not in futs:
                futs[tag] = f
                tag_of_fut[id(f)] = tag
            current['tag'] = None
            return f

        orig_s, orig_p = net.create_server_response_future, net.create_peer_response_future
        net.create_server_response_future = lambda *a, **k: record(orig_s(*a, **k))
        net.create_peer_response_future = lambda *a, **k: record(orig_p(*a, **k))

        def timeout_of(tag):
            if tag in deadlines:
                d = T0 + deadlines[tag] - loop.time()
                if d > 0.25:            # a deadline that has passed already is no deadline (would fire at once)
                    armed.add(tag)
                    return d
            return T0 + FAR - loop.time()

        def create(tag, m):
            current['tag'] = tag
            if m['cls'] == 's':
                return net.create_server_response_future(msg_classes[m['msg']], fields=_py_fields(m))
            return net.create_peer_response_future(f"user{m['peer']}", msg_classes[m['msg']], fields=_py_fields(m))

        async def raw_caller(tag, fut):
            # the way transfer/manager.py:748-755, 908-915 await such a future
            started.add(tag)
            async with atimeout(timeout_of(tag)):
                _, response = await fut
            return response

        def wait_coro(tag, m):
            current['tag'] = tag      # consumed by the create_*_response_future call in the coroutine's first step
            if m['cls'] == 's':
                return net.wait_for_server_message(msg_classes[m['msg']], fields=_py_fields(m), timeout=timeout_of(tag))
            return net.wait_for_peer_message(f"user{m['peer']}", msg_classes[m['msg']], fields=_py_fields(m),
                                             timeout=timeout_of(tag))

        async def wait_caller(tag, m):
            started.add(tag)
            return await wait_coro(tag, m)

        class StubCommand:
            def __init__(self, tag, mode, m):
                self.tag, self.mode, self.m = tag, mode, m

            def build_expected_response(self, client):
                m = self.m
                f = ExpectedResponse(ServerConnection if m['cls'] == 's' else PeerConnection, msg_classes[m['msg']],
                                     peer=None if m['peer'] is None else f"user{m['peer']}", fields=_py_fields(m))
                futs[self.tag] = f
                tag_of_fut[id(f)] = self.tag
                return f

            async def send(self, client):
                if self.mode == 4:
                    await loop.create_future()      # e.g. a drain() that never returns; only cancellation ends it
                if self.mode >= 2:
                    await asyncio.sleep(0)
                if self.mode in (1, 3):
                    raise _SendFail()

            def handle_response(self, client, response):
                return response

        client_stub = types.SimpleNamespace(session=object(), network=net)

        async def exec_caller(tag, mode, m):
            started.add(tag)
            # execute() arms its timeout after `send`; a suspending send moves that one iteration (= 1 s) later
            return await SoulSeekClient.execute(client_stub, StubCommand(tag, mode, m), response=True,
                                                timeout=timeout_of(tag) - (1.0 if mode >= 2 else 0.0))

        def spawn(op):
            kind = op[0]
            if kind == 'raw':
                f = create(op[1], op[2])
                tasks[op[1]] = loop.create_task(raw_caller(op[1], f))
            elif kind == 'wait':
                tasks[op[1]] = loop.create_task(wait_caller(op[1], op[2]))
            else:
                tasks[op[1]] = loop.create_task(exec_caller(op[1], op[2], op[3]))

        def cancel_fut(tag):
            if tag in futs:
                events.append((loop.iterations, 'cancel', tag))
                futs[tag].cancel()

        def cancel_task(tag, by_handler):
            # (a task cancelled before its first step would never register / await anything)
            if tag in tasks and (tag in started or not by_handler):
                events.append((loop.iterations, 'cancel', tag))
                events.append((loop.iterations, 'canceltask', tag))
                tasks[tag].cancel()

        def close_reason(op):
            return CloseReason[op[2]] if len(op) > 2 else CloseReason.REQUESTED

        def gate(g):
            if g not in gates:
                gates[g] = loop.create_future()
            return gates[g]

        # -- what the handlers of a message do ------------------------------------------------------------
        async def nested_request(act):
            kind, tag, m = act
            nested.add(tag)
            try:
                if kind == 'nwait':
                    res = await wait_coro(tag, m)
                else:
                    res = await SoulSeekClient.execute(client_stub, StubCommand(tag, 0, m), response=True,
                                                       timeout=timeout_of(tag))
                nested_out[tag] = res
            except TimeoutError:
                nested_out[tag] = 'T'
            except asyncio.CancelledError:
                if asyncio.current_task().cancelling():      # the reader task itself is being cancelled (teardown)
                    raise
                nested_out[tag] = 'C'                         # the request's future was cancelled
            except asyncio.InvalidStateError:
                nested_out[tag] = 'I'
            except Exception as e:  # noqa
                nested_out[tag] = 'E:' + type(e).__name__

        async def run_prog(prog):
            for act in prog:
                k = act[0]
                if k == 'sleep':
                    for _ in range(act[1]):
                        await asyncio.sleep(0)
                elif k == 'gate':
                    await gate(act[1])
                elif k == 'close':
                    await conn_of(act[1]).disconnect(close_reason(act))
                elif k in SPAWN:
                    spawn(act)
                elif k in NEST:
                    await nested_request(act)
                elif k == 'cancelfut':
                    cancel_fut(act[1])
                elif k == 'canceltask':
                    cancel_task(act[1], True)
                elif k == 'raise':
                    raise _ListenerFails()
                else:
                    raise ValueError(f'bad action {act!r}')

        def make_listener(j):
            async def listener(event):
                n = number.get(id(event.message))
                progs = programs.get(id(event.message)) or []
                if n is None or j >= len(progs):
                    return
                events.append((loop.iterations, 'hstart', n, j))
                try:
                    await run_prog(progs[j])
                finally:
                    events.append((loop.iterations, 'hend', n, j))
            return listener

        listeners = [make_listener(j) for j in range(nlisteners)]
        if case.get('own') and listeners:
            # program 0 runs where the Network's own handlers run: from _MESSAGE_MAP, before the bus emit
            own = listeners.pop(0)

            async def own_handler(message, connection):
                await own(types.SimpleNamespace(message=message, connection=connection))
            for cls in msg_classes.values():
                net._MESSAGE_MAP[cls] = own_handler
        for l in listeners:
            bus.register(MessageReceivedEvent, l)
        keep.append(listeners)

        def fut_state(f):
            if not f.done():
                return 'P'
            if f.cancelled():
                return 'C'
            if f.exception() is not None:
                return 'X'
            res = f.result()
            try:
                return f'R{next(i for i, mm in enumerate(msgs) if mm is res[1])}'
            except Exception:
                return 'R?'

        def res_state(res):
            for i, mm in enumerate(msgs):
                if mm is res:
                    return f'r{i}'
            return 'r?'

        def out_state(tag):
            if tag in nested:
                if tag not in nested_out:
                    return '-'
                o = nested_out[tag]
                return o if isinstance(o, str) else res_state(o)
            t: Optional[asyncio.Task] = tasks.get(tag)
            if t is None or not t.done():
                return '-'
            if t.cancelled():
                return 'C'
            exc = t.exception()
            if exc is None:
                return res_state(t.result())
            if isinstance(exc, asyncio.InvalidStateError):
                return 'I'
            if isinstance(exc, TimeoutError):
                return 'T'
            if isinstance(exc, _SendFail):
                return 'S'
            return 'E:' + type(exc).__name__

        snaps: list[str] = []

        def snap():
            order = [str(tag_of_fut.get(id(f), '?')) for f in net._expected_response_futures]
            ents = [f'{tag}:{fut_state(futs[tag])}:{out_state(tag)}' for tag in sorted(futs)]
            closing = [c for c in CONN_NAMES if c in conns and
                       conns[c].state in (ConnectionState.CLOSING, ConnectionState.CLOSED)]
            calls = ''.join('d' if n in returned else 'r' for n in range(len(msgs)))
            events.append((loop.iterations, 'snap', len(snaps)))
            snaps.append(f"n={len(msgs)} e={counter.errors} order={','.join(order)} c={','.join(closing)} h={calls}"
                         f" | {' '.join(ents)}")

        # every initial connection exists, established, with its REAL `_message_reader_loop` task (one per connection; only
        # the source of decoded messages is replaced by the scripted stream)
        for c in INITIAL_CONNS:
            await establish(c)
        await asyncio.sleep(0)
        await asyncio.sleep(0)

        T0 = loop.time()
        loop._vt = T0 + 0.5

        def new_message(op):
            _, c, cls, attrs = op[:4]
            message = msg_classes[cls](**{FIELD_NAMES[f]: v for f, v in attrs})
            programs[id(message)] = _progs_of(op)
            op_of[id(message)] = op
            keep.append(message)
            return message

        for r, rnd in enumerate(rounds):
            events.append((loop.iterations, 'round', r))
            for op in rnd['batch']:
                kind = op[0]
                if kind in SPAWN:
                    spawn(op)
                elif kind == 'msg':
                    conn = conn_of(op[1])
                    message = new_message(op)
                    # exactly what DataConnection._message_reader_loop does with a decoded message
                    if not conn._is_closing:
                        await conn._perform_message_callback(message)
                elif kind == 'feed':
                    conn_of(op[1])
                    inbox[op[1]].append(new_message(op))
                    g = waiting.pop(op[1], None)
                    if g is not None and not g.done():
                        g.set_result(None)
                elif kind == 'open':
                    g = gate(op[1])
                    if not g.done():
                        g.set_result(None)
                elif kind == 'close':
                    await conn_of(op[1]).disconnect(close_reason(op))      # (does not suspend here)
                elif kind == 'connect':
                    await establish(op[1])                                  # (does not suspend either)
                elif kind == 'cancelfut':
                    cancel_fut(op[1])
                elif kind == 'canceltask':
                    cancel_task(op[1], False)
                else:
                    raise ValueError(f'bad op {op!r}')
                snap()
            # timers with deadline <= T0 + (r+1) + 0.5 become due at the start of the next iteration
            loop._vt = T0 + (r + 1) + 0.5
            await asyncio.sleep(0)
            snap()
        keep.append((bus, conns))
        # (copies: the teardown of the loop cancels the reader tasks, which would add 'return' events)
        return list(snaps), list(events), sorted(armed), dict(content)

    try:
        (snaps, events, armed, content), loop = simloop.run(main)
        return {'snaps': snaps, 'events': events, 'armed': armed, 'content': content,
                'loop_exceptions': [e for e in loop.exceptions if e.get('type') not in (None, 'CancelledError')]}
    finally:
        for lg, level, propagate, handlers in quiet:
            lg.setLevel(level)
            lg.propagate = propagate
            lg.handlers = handlers


# --------------------------------------------------------------------------------------------
# model side
# --------------------------------------------------------------------------------------------

def _matcher_tokens(m: dict) -> list[str]:
    toks = [m['cls'], str(m['msg']), '-' if m['peer'] is None else str(m['peer']), str(len(m['fields']))]
    for f, e in m['fields']:
        toks += [str(f), e]
    return toks


def _act_tokens(a: list) -> list[str]:
    k = a[0]
    if k in ('sleep', 'gate', 'cancelfut', 'canceltask'):
        return [k, str(a[1])]
    if k == 'close':
        return [k, a[1]]
    if k in ('raw', 'wait', 'nwait', 'nexec'):
        return [k, str(a[1])] + _matcher_tokens(a[2])
    if k == 'exec':
        return [k, str(a[1]), str(a[2])] + _matcher_tokens(a[3])
    if k == 'raise':
        return [k]
    raise ValueError(f'bad action {a!r}')


def _msg_tokens(op: list) -> list[str]:
    _, c, cls, attrs = op[:4]
    toks = [op[0], c, str(cls), str(len(attrs))]
    for f, v in attrs:
        toks += [str(f), 'N' if v is None else str(v)]
    progs = _progs_of(op)
    toks.append(str(len(progs)))
    for prog in progs:
        toks.append(str(len(prog)))
        for a in prog:
            toks += _act_tokens(a)
    return toks


def _model_lines(case: dict) -> list[str]:
    lines = ['reset']
    for rnd in _rounds(case):
        for op in rnd['batch']:
            k = op[0]
            if k in ('raw', 'wait'):
                lines.append(' '.join([k, str(op[1])] + _matcher_tokens(op[2])))
            elif k == 'exec':
                lines.append(' '.join([k, str(op[1]), str(op[2])] + _matcher_tokens(op[3])))
            elif k in ('msg', 'feed'):
                lines.append(' '.join(_msg_tokens(op)))
            else:
                lines.append(f'{k} {op[1]}')       # (open / close / connect / cancelfut / canceltask; a close reason is not modelled)
        lines.append(' '.join(['yield'] + [str(t) for t in rnd['fire']]))
    return lines


# --------------------------------------------------------------------------------------------
# monitor: the property statement on the implementation trace
# --------------------------------------------------------------------------------------------

def _parse_snap(s: str) -> dict:
    head, _, tail = s.partition(' | ')
    parts = dict(p.split('=', 1) for p in head.split())
    ents = {}
    for e in tail.split():
        tag, fut, out = e.split(':', 2)
        ents[int(tag)] = (fut, out)
    return {'n': int(parts['n']), 'e': int(parts['e']),
            'order': [x for x in parts['order'].split(',') if x], 'w': ents,
            'closing': [x for x in parts.get('c', '').split(',') if x], 'calls': parts.get('h', '')}


def _requests_of(case: dict):
    """tag -> (kind, exec mode, matcher) of every request the script makes (driving task and handlers)"""
    out = {}
    for rnd in case['rounds']:
        for op in rnd['batch']:
            if op[0] in SPAWN:
                out[op[1]] = (op[0], op[2] if op[0] == 'exec' else 0, op[-1])
            for prog in _progs_of(op):
                for a in prog:
                    if a[0] in SPAWN or a[0] in NEST:
                        out[a[1]] = (a[0], a[2] if a[0] == 'exec' else 0, a[-1])
    return out


def _message_obligations(case: dict, impl: dict, reqs: dict, final_futs: dict, add):
    """every request pending when a message ARRIVES (enters on_message_received) that the message answers is
    completed with it — unless, while the message's OWN handlers were running / suspended, the request was
    cancelled, timed out or completed by another message; a request is only ever completed by a message that
    answers it.  Time that passes between arrival and completion outside the message's own handlers excuses nothing."""
    ev = impl['events']
    rounds = _rounds(case)
    armed = set(impl.get('armed', []))
    round_iter = {e[2]: e[0] for e in ev if e[1] == 'round'}
    keyed = [((e[0], 0, i), e) for i, e in enumerate(ev)]
    fire_key = {}
    for r, rnd in enumerate(rounds):
        for p, tag in enumerate(rnd['fire']):
            if tag in armed and r in round_iter:
                fire_key[tag] = (round_iter[r], 1, p)      # timers run last in the iteration of round r
    cancel_keys: dict[int, list] = {}
    arrive, ret, hints, content = {}, {}, {}, {}
    for key, e in keyed:
        if e[1] == 'cancel':
            cancel_keys.setdefault(e[2], []).append(key)
        elif e[1] == 'arrive':
            arrive[e[2]] = (key, e)
        elif e[1] == 'return':
            ret[e[2]] = (key, e)
        elif e[1] == 'hstart':
            hints.setdefault(e[2], {})[e[3]] = [key, None]
        elif e[1] == 'hend':
            hints[e[2]][e[3]][1] = key
    content = impl.get('content') or {}      # message number -> the script op it was made from
    for n, (ka, ea) in sorted(arrive.items()):
        _, _, _, conn, states = ea
        op = content.get(n)
        if op is None:
            continue
        _, c, cls, attrs = op[:4]
        assert c == conn
        intervals = [(s, e if e is not None else INF) for s, e in hints.get(n, {}).values()]
        running = any(e == INF for _s, e in intervals)
        kr, er = ret.get(n, (None, None))
        after = er[3] if er is not None else final_futs
        where = {'message': n, 'conn': conn, 'cls': cls, 'attrs': attrs, 'handlers': _progs_of(op),
                 'returned': er is not None}
        for tag, st in after.items():
            if st == f'R{n}' and tag in reqs and not _spec_match(reqs[tag][2], conn, cls, attrs):
                add('C12-wrong-completion', f'message #{n} does not answer request {tag} but completed it', where, 'P')
        for tag, st in states.items():
            if st != 'P' or tag not in reqs or not _spec_match(reqs[tag][2], conn, cls, attrs):
                continue
            s1 = after.get(tag, '?')
            if s1 == f'R{n}':
                continue
            if s1 == 'P' and er is None and running:
                continue        # its handlers are still running at the end of the script: nothing is due yet
            cands = list(cancel_keys.get(tag, []))
            if tag in fire_key:
                cands.append(fire_key[tag])
            if s1.startswith('R') and s1[1:].isdigit():
                if int(s1[1:]) < n:
                    continue        # completed by a message that had arrived earlier: the first match, whenever it finished
                if int(s1[1:]) in ret:
                    cands.append(ret[int(s1[1:])][0])      # overtaken by a later message: only while #n's handlers ran
            excused = s1 != 'P' and any(s < k < e for k in cands for (s, e) in intervals)
            if not excused:
                if er is None:
                    how = ('the message entered on_message_received, none of its handlers is running, but the call '
                           'never got to completing its waiters')
                else:
                    how = 'its handlers returned and on_message_received ended'
                add('C12-missed-completion',
                    f'message #{n} answers request {tag}, which was pending when it arrived; {how}; the request is '
                    f'{s1} (no cancellation / timeout / other reply of the script ended it while the handlers of #{n} ran)',
                    dict(where, request=tag, state=s1),
                    f'R{n}')


def _monitor(case: dict, impl: dict) -> list[Violation]:
    vs: list[Violation] = []
    snaps = [_parse_snap(s) for s in impl['snaps']]
    reqs = _requests_of(case)
    armed = set(impl.get('armed', []))
    never_awaits = {t for t, (k, mode, _m) in reqs.items() if k == 'exec' and mode == 4}
    cancelled_task: set[int] = set()
    fired_pending: set[int] = set()      # timeout fired while the future was still pending
    fired_waiting: set[int] = set()      # timeout fired while the caller was still waiting
    natural: dict[int, str] = {}         # … with its future done already: the answer the future itself gives
    rounds = _rounds(case)
    prev = {'n': 0, 'e': 0, 'order': [], 'w': {}}
    begin_prev: Optional[dict] = None    # snapshot at the previous round begin
    i = 0
    seen = set()

    def add(sig, what, observed=None, required=None):
        key = (sig, what)
        if key not in seen:
            seen.add(key)
            vs.append(Violation(sig, what, case, observed=observed, required=required))

    def stable(before, after, where, exempt=()):
        # a completed future never changes; a caller gets exactly one answer
        for tag, (f0, o0) in before['w'].items():
            if tag not in after['w']:
                add('C12-request-vanished', f'request {tag} disappeared', where)
                continue
            f1, o1 = after['w'][tag]
            if f0 != 'P' and f1 != f0 and tag not in exempt:
                add('C12-completed-twice', f'future of request {tag} changed from {f0} to {f1} after completion', where,
                    'a request is completed at most once')
            if o0 != '-' and o1 != o0:
                add('C12-completed-twice', f'caller of request {tag} got {o0} and then {o1}', where)

    # a canceltask by the script (driving task or a handler) on a caller that was still waiting
    for e in impl['events']:
        if e[1] == 'canceltask':
            cancelled_task.add(e[2])      # (only used to EXEMPT a caller from the rules about its answer)

    # "completes iff": a pending request ends ONLY by a reply, by its own timeout, by a cancellation of the request or of
    # its caller, or by the failure of its own send — never by anything else that happens meanwhile (connections that
    # are closed, opened, lost; other requests; other messages).  cancel_before[i] = requests the script had cancelled
    # (future or caller task) before snapshot i was taken
    cancel_before: dict[int, frozenset] = {}
    acc: set = set()
    for e in impl['events']:
        if e[1] == 'cancel':
            acc.add(e[2])
        elif e[1] == 'snap':
            cancel_before[e[2]] = frozenset(acc)
    fired_so_far: set[int] = set()

    def only_own_events(idx, before, after, where):
        for tag, (f0, _o0) in before['w'].items():
            f1 = after['w'].get(tag, ('?', '?'))[0]
            if f0 != 'P' or f1 not in ('C', 'X'):
                continue
            kind, mode, _m = reqs.get(tag, (None, 0, None))
            if tag in cancel_before.get(idx, ()) or (tag in fired_so_far and tag in armed):
                continue
            if kind == 'exec' and mode in (1, 3):
                continue            # its own `command.send` raised: execute() gives the request up (client.py:282-288)
            add('C12-ended-without-cause',
                f'request {tag} was pending and is now {"cancelled" if f1 == "C" else "failed"}, but it got no reply, its '
                'timeout has not fired, and neither the request nor its caller was cancelled: something else ended it',
                where, 'pending until a matching reply, its timeout or a cancellation')

    for r, rnd in enumerate(rounds):
        for op in rnd['batch']:
            cur = snaps[i]
            where = {'round': r, 'op': op, 'before': impl['snaps'][i - 1] if i else None, 'after': impl['snaps'][i]}
            stable(prev, cur, where)
            only_own_events(i, prev, cur, where)
            if cur['e'] > prev['e']:
                add('C12-invalid-state', '"error during callback": on_message_received raised (while its handlers ran or '
                    'while it completed expected responses); the waiters it had not completed yet are skipped', where,
                    'no internal error')
            prev = cur
            i += 1
        # the yield: timeouts of rnd['fire'] fire, callbacks run, next iteration up to the driving task
        cur = snaps[i]
        where = {'round': r, 'op': ['yield'] + list(rnd['fire']), 'before': impl['snaps'][i - 1] if i else None,
                 'after': impl['snaps'][i]}
        for tag in rnd['fire']:
            f0, o0 = prev['w'].get(tag, ('?', '?'))
            if o0 == '-' and tag in armed:
                fired_waiting.add(tag)
                if f0 == 'P':
                    fired_pending.add(tag)
                else:
                    # the future was done already but its caller had not been woken when the driving task looked: the
                    # wake-up may still run in this iteration, before the timer (which runs last) — then the caller
                    # gets the future's own answer and the timer is dropped
                    natural[tag] = 'r' + f0[1:] if f0.startswith('R') else {'C': 'C', 'X': 'T'}.get(f0, 'T')
        stable(prev, cur, where)
        fired_so_far.update(rnd['fire'])
        only_own_events(i, prev, cur, where)
        if cur['e'] > prev['e']:
            add('C12-invalid-state', '"error during callback": on_message_received raised (while its handlers ran or '
                'while it completed expected responses); the waiters it had not completed yet are skipped', where,
                'no internal error')
        # residue: a future that was done at the previous round begin is not listed one iteration later
        if begin_prev is not None:
            for tag, (f0, _o) in begin_prev['w'].items():
                if f0 != 'P' and str(tag) in cur['order']:
                    add('C12-residue', f'request {tag} ({f0}) is still in the expected-response list a full loop '
                        'iteration after it was completed/cancelled', where, 'removed')
        begin_prev = cur
        prev = cur
        i += 1

    final = snaps[-1]
    _message_obligations(case, impl, reqs, {t: f for t, (f, _o) in final['w'].items()}, add)
    if 'extra' in case and len(impl['snaps']) >= 3 and len(set(impl['snaps'][-3:])) != 1:
        # the script ended while things were still moving (a harness matter): the rules below speak of quiescence
        add('C12-harness-impl-error', 'the script does not reach quiescence within its extra rounds', impl['snaps'][-3:])
        return vs
    # a call of on_message_received that is over although its handlers are not, or the reverse, is caught above through
    # its waiters; a call that never ends without any handler of its own running blocks the connection's reader for good
    for tag, (f, o) in final['w'].items():
        kind = reqs.get(tag, (None, 0, None))[0]
        if o == 'I':
            add('C12-invalid-state', f'caller of request {tag} got asyncio.InvalidStateError', impl['snaps'][-1],
                'TimeoutError / result / CancelledError')
        elif o.startswith('E:') or o == 'r?':
            add('C12-internal-error', f'caller of request {tag} got {o}', impl['snaps'][-1])
        if tag in fired_waiting and tag not in cancelled_task:
            ok = {'T'} | ({natural[tag]} if tag in natural else set())
            if o not in ok and o != 'I':
                add('C12-timeout-not-timeout', f'timeout of request {tag} fired but its caller got {o!r}',
                    impl['snaps'][-1], sorted(ok))
        if o.startswith('r') and o != 'r?' and f != 'R' + o[1:]:
            add('C12-wrong-result', f'caller of request {tag} got message {o} but its future is {f}', impl['snaps'][-1])
        # (a mode-4 execute() is still inside command.send — it has not started to wait for the reply)
        if f.startswith('R') and o == '-' and kind is not None and tag not in never_awaits:
            add('C12-caller-not-answered', f'request {tag} completed with {f} but its caller is still waiting at '
                'quiescence', impl['snaps'][-1])
        send_failed = kind == 'exec' and o == 'S'      # execute() re-raises the failure of command.send
        if (f.startswith('R') and tag not in fired_waiting and tag not in cancelled_task and not send_failed
                and o not in ('-', 'r' + f[1:], 'I')):
            add('C12-wrong-result', f'request {tag} completed with {f} (no timeout, no cancel) but its caller got {o}',
                impl['snaps'][-1], 'r' + f[1:])
    for t in final['order']:
        if t == '?' or final['w'].get(int(t), ('P', ''))[0] != 'P':
            add('C12-residue', f'expected-response list still holds completed/cancelled request {t} at quiescence',
                impl['snaps'][-1], 'only pending requests are listed')
    for tag, (f, o) in final['w'].items():
        if f == 'P' and o != '-' and str(tag) in final['order']:
            add('C12-residue-caller-gone', f'caller of request {tag} is gone (it got {o!r}) but the request is still '
                'pending in the expected-response list at quiescence: nobody waits for it and nothing removes it',
                impl['snaps'][-1], 'a cancelled / failed request is cancelled and removed')
    for tag, (f, _o) in final['w'].items():
        if f == 'P' and str(tag) not in final['order']:
            add('C12-pending-unlisted', f'request {tag} is pending but not in the expected-response list',
                impl['snaps'][-1])
    if impl.get('loop_exceptions'):
        add('C12-internal-error', 'exception reported to the loop exception handler', impl['loop_exceptions'][:2])
    return vs


# --------------------------------------------------------------------------------------------
# generator
# --------------------------------------------------------------------------------------------

VALS = [None, 0, 1, 2]


def _gen_matcher(rng: random.Random, kind: str, shared: Optional[dict]) -> dict:
    if shared is not None and rng.random() < 0.5:
        m = {'cls': shared['cls'], 'msg': shared['msg'], 'peer': shared['peer'],
             'fields': [list(x) for x in shared['fields']]}
        if rng.random() < 0.4 and m['fields']:
            j = rng.randrange(len(m['fields']))
            m['fields'][j][1] = _gen_exp(rng)
        if kind != 'exec' and (m['cls'] == 's') != (m['peer'] is None):
            m['peer'] = None if m['cls'] == 's' else rng.randint(0, 1)
        return m
    cls = rng.choice('sp')
    msg = rng.randint(0, 1)
    if kind == 'exec':
        peer = rng.choice([None, 0, 1]) if rng.random() < 0.3 else (None if cls == 's' else rng.randint(0, 1))
    else:
        peer = None if cls == 's' else rng.randint(0, 1)
    own = CLASS_FIELDS[msg]
    nf = rng.choice([0, 1, 1, 2, 2, 3])
    pool = own * 3 + [7] + CLASS_FIELDS[1 - msg][:1]
    names: list[int] = []
    while len(names) < nf:
        f = rng.choice(pool)
        if f not in names:
            names.append(f)
    return {'cls': cls, 'msg': msg, 'peer': peer, 'fields': [[f, _gen_exp(rng)] for f in names]}


def _gen_exp(rng: random.Random) -> str:
    r = rng.random()
    if r < 0.5:
        return rng.choice(['c0', 'c1', 'c1', 'c2', 'cN'])
    return rng.choice(['pT', 'pT', 'pF', 'pN', 'pnn', 'pge1', 'pge1', 'peq1', 'peq2', 'pge0'])


def _satisfying(rng: random.Random, e: str):
    cands = [v for v in VALS if (_pred(e)(v) if e[0] == 'p' else v == _const(e))]
    return rng.choice(cands) if cands else rng.choice(VALS)


def _gen_msg(rng: random.Random, matchers: list[dict]) -> list:
    if matchers and rng.random() < 0.85:
        m = rng.choice(matchers)
        cls = m['msg']
        if m['cls'] == 's':
            conn = 's'
        else:
            conn = f"p{m['peer']}" if m['peer'] is not None else rng.choice(['p0', 'p1', 'pN'])
        vals = {f: rng.choice(VALS) for f in CLASS_FIELDS[cls]}
        for f, e in m['fields']:
            if f in vals:
                vals[f] = _satisfying(rng, e)
        r = rng.random()
        if r < 0.12:
            f = rng.choice(CLASS_FIELDS[cls])
            vals[f] = rng.choice(VALS)
        elif r < 0.18:
            conn = rng.choice(['s', 'p0', 'p1', 'pN'])
        elif r < 0.22:
            cls2 = 1 - cls
            vals = {f: rng.choice(VALS) for f in CLASS_FIELDS[cls2]}
            cls = cls2
        return ['msg', conn, cls, [[f, vals[f]] for f in CLASS_FIELDS[cls]]]
    cls = rng.randint(0, 1)
    return ['msg', rng.choice(['s', 'p0', 'p1', 'pN']), cls, [[f, rng.choice(VALS)] for f in CLASS_FIELDS[cls]]]


def _gen_case(rng: random.Random) -> dict:
    kind = rng.choice(['mixed', 'mixed', 'mixed', 'timeouts', 'burst', 'same-matcher', 'late-wave'])
    nrounds = rng.randint(4, 9)
    rounds = [{'batch': [], 'fire': []} for _ in range(nrounds)]
    n_first = rng.randint(1, 4)
    waiters = []        # (tag, spawn round, kind, mode, matcher)
    shared = None
    tag = 0

    def spawn(r):
        nonlocal tag, shared
        wk = rng.choice(['raw', 'wait', 'wait', 'exec'])
        mode = rng.choice([0, 0, 0, 2, 2, 1, 3, 4]) if wk == 'exec' else 0
        m = _gen_matcher(rng, wk, shared if (kind == 'same-matcher' or rng.random() < 0.5) else None)
        if shared is None:
            shared = m
        op = [wk, tag, m] if wk != 'exec' else [wk, tag, mode, m]
        rounds[r]['batch'].append(op)
        waiters.append((tag, r, wk, mode, m))
        tag += 1

    for _ in range(n_first):
        spawn(rng.choice([0, 0, 0, 1]))
    if kind == 'late-wave' or rng.random() < 0.25:
        for _ in range(rng.randint(1, 2)):
            spawn(rng.randint(2, nrounds - 1))
    # timeouts
    p_fire = {'timeouts': 0.8, 'burst': 0.3}.get(kind, 0.45)
    for (t, sr, wk, mode, m) in waiters:
        need = 3 if (wk == 'exec' and mode >= 2) else 2
        if sr + need < nrounds and rng.random() < p_fire and not (wk == 'exec' and mode in (1, 3, 4)):
            r = rng.randint(sr + need, nrounds - 1)
            if len(rounds[r]['fire']) < 8:
                rounds[r]['fire'].append(t)
    # messages and cancels, round by round
    for r in range(nrounds):
        alive = [w for w in waiters if w[1] <= r]
        ms = [w[4] for w in alive]
        nm = rng.choice([0, 0, 1, 1, 2, 3] if kind != 'burst' else [1, 2, 3, 4])
        extra = []
        for _ in range(nm):
            if not ms and rng.random() < 0.7:
                continue
            mop = _gen_msg(rng, ms)
            extra.append(mop)
            if rng.random() < 0.3:
                extra.append([mop[0], mop[1], mop[2], [list(x) for x in mop[3]]])    # the same reply twice, back-to-back
        for (t, sr, wk, mode, m) in alive:
            if rng.random() < 0.08:
                if wk == 'raw' or r >= sr + 1:
                    extra.append(['cancelfut', t])
            if rng.random() < 0.08 and r >= sr + 1:
                extra.append(['canceltask', t])
            # execute() cancelled while it is suspended in command.send
            if wk == 'exec' and mode >= 2 and rng.random() < 0.3 and (r == sr + 1 or (mode == 4 and r > sr and rng.random() < 0.5)):
                extra.append(['canceltask', t])
        rng.shuffle(extra)
        rounds[r]['batch'] += extra
    return {'rounds': rounds, 'kind': kind}


def _mk(fields):
    return {'cls': 's', 'msg': 1, 'peer': None, 'fields': fields}


_REPLY = ['msg', 's', 1, [[4, 1], [5, 2], [6, None]]]
# known schedules, always run (also the replay inputs of the fixes/C12-*.md notes)
DIRECTED = [
    # (a) wait_for_server_message simply times out
    {'kind': 'directed-timeout', 'rounds': [{'batch': [['wait', 0, _mk([[4, 'c1']])]], 'fire': []},
                                            {'batch': [], 'fire': []}, {'batch': [], 'fire': [0]},
                                            {'batch': [], 'fire': []}]},
    # (b) the same reply twice back-to-back, two waiters
    {'kind': 'directed-double', 'rounds': [{'batch': [['raw', 0, _mk([[4, 'c1']])], ['wait', 1, _mk([[4, 'c1']])]], 'fire': []},
                                           {'batch': [], 'fire': []},
                                           {'batch': [_REPLY, _REPLY], 'fire': []}, {'batch': [], 'fire': []}]},
    # (b') reply arrives while a timed-out waiter is still listed; a second waiter behind it must still complete
    {'kind': 'directed-timeout-then-reply', 'rounds': [
        {'batch': [['wait', 0, _mk([[4, 'c1']])], ['wait', 1, _mk([[4, 'c1']])]], 'fire': []},
        {'batch': [], 'fire': []}, {'batch': [], 'fire': [0]}, {'batch': [_REPLY], 'fire': []}, {'batch': [], 'fire': []}]},
    # (c) predicate field followed by a constant field that does not match
    {'kind': 'directed-predicate', 'rounds': [{'batch': [['raw', 0, _mk([[4, 'pT'], [5, 'c0']])]], 'fire': []},
                                              {'batch': [_REPLY], 'fire': []}, {'batch': [], 'fire': []}]},
    # reply and timeout in the same loop iteration
    {'kind': 'directed-reply-and-timeout', 'rounds': [{'batch': [['wait', 0, _mk([[4, 'c1']])]], 'fire': []},
                                                      {'batch': [], 'fire': []}, {'batch': [_REPLY], 'fire': [0]},
                                                      {'batch': [], 'fire': []}]},
    # execute(): send raises; then a reply for it arrives in the same step as a second request's reply
    {'kind': 'directed-exec', 'rounds': [{'batch': [['exec', 0, 1, _mk([[4, 'c1']])], ['exec', 1, 0, _mk([[4, 'c1']])]], 'fire': []},
                                         {'batch': [_REPLY], 'fire': []}, {'batch': [_REPLY], 'fire': []},
                                         {'batch': [], 'fire': []}]},
    # execute() is cancelled while suspended in command.send (send resumes by itself / only by the cancellation)
    {'kind': 'directed-cancel-during-send', 'rounds': [
        {'batch': [['exec', 0, 2, _mk([[4, 'c1']])], ['exec', 1, 4, _mk([[4, 'c1']])], ['exec', 2, 3, _mk([[4, 'c1']])]], 'fire': []},
        {'batch': [['canceltask', 0], ['canceltask', 2]], 'fire': []}, {'batch': [['canceltask', 1]], 'fire': []},
        {'batch': [], 'fire': []}]},
]


# ---- handler families: what the handlers of a message do between its arrival and the completion of its waiters ----

def _peer_conn(rng: random.Random, peer) -> str:
    if peer is None:
        return rng.choice(['p0', 'p1', 'pN', 'q0'])
    return rng.choice([f'p{peer}', f'p{peer}', f'q{peer}'])


def _reply_to(rng: random.Random, m: dict, pmatch: float = 0.9) -> list:
    """[conn, cls, attrs] of a message that (mostly) answers matcher m"""
    cls = m['msg']
    conn = 's' if m['cls'] == 's' else _peer_conn(rng, m['peer'])
    vals = {f: rng.choice(VALS) for f in CLASS_FIELDS[cls]}
    for f, e in m['fields']:
        if f in vals:
            vals[f] = _satisfying(rng, e)
    if rng.random() > pmatch:
        r = rng.random()
        if r < 0.4:
            vals[rng.choice(CLASS_FIELDS[cls])] = rng.choice(VALS)
        elif r < 0.7:
            conn = rng.choice(INITIAL_CONNS)
        else:
            cls = 1 - cls
            vals = {f: rng.choice(VALS) for f in CLASS_FIELDS[cls]}
    return [conn, cls, [[f, vals[f]] for f in CLASS_FIELDS[cls]]]


def _easy_matcher(rng: random.Random, kind: str) -> dict:
    """a matcher some message can satisfy (most handler scenarios want the reply to answer the request)"""
    for _ in range(20):
        m = _gen_matcher(rng, 'exec' if kind in ('exec', 'nexec') else kind, None)
        own = CLASS_FIELDS[m['msg']]
        if all(f in own and any((_pred(e)(v) if e[0] == 'p' else v == _const(e)) for v in VALS) for f, e in m['fields']):
            return m
    return {'cls': 's', 'msg': 1, 'peer': None, 'fields': []}


def _gen_hcase(rng: random.Random, kind: Optional[str] = None) -> dict:
    kind = kind or rng.choice(['h-close', 'h-close', 'h-nested', 'h-nested', 'h-mixed', 'h-mixed', 'h-inline'])
    readers = kind != 'h-inline'
    nrounds = rng.randint(5, 9)
    rounds = [{'batch': [], 'fire': []} for _ in range(nrounds)]
    state = {'tag': 0, 'gate': 0}
    by_d: list = []          # (tag, round, kind, mode, matcher) spawned by the driving task
    by_h: list = []          # (tag, round of the message, kind, matcher) made by handlers
    nested_tags: set = set()
    gates_used: list = []    # (gate, round of the message)
    later: dict[int, list] = {}      # round -> ops to add

    def new_tag():
        state['tag'] += 1
        return state['tag'] - 1

    def d_spawn(r, m=None, wk=None):
        wk = wk or rng.choice(['raw', 'wait', 'wait', 'exec'])
        mode = rng.choice([0, 0, 0, 0, 2, 1]) if wk == 'exec' else 0
        m = m or _easy_matcher(rng, wk)
        if wk != 'exec' and (m['cls'] == 's') != (m['peer'] is None):
            m = dict(m, peer=None if m['cls'] == 's' else rng.randint(0, 1))
        tag = new_tag()
        rounds[r]['batch'].append([wk, tag, m] if wk != 'exec' else [wk, tag, mode, m])
        by_d.append((tag, r, wk, mode, m))
        return tag, m

    def known_matchers(r):
        return [w[4] for w in by_d if w[1] <= r] + [w[3] for w in by_h if w[1] <= r]

    def gen_prog(r, own_conn, msg_triple, depth_ok=True) -> list:
        """one listener's program for a message fed in round r on own_conn"""
        prog = []
        for _ in range(rng.choice([1, 1, 2, 2, 3])):
            x = rng.random()
            if not readers:
                x = 0.3 + x * 0.7          # no suspending actions
                if 0.62 <= x < 0.8:
                    x = 0.5
            if x < 0.2:
                prog.append(['sleep', rng.choice([1, 1, 2])])
            elif x < 0.3:
                g = state['gate']
                state['gate'] += 1
                gates_used.append((g, r))
                prog.append(['gate', g])
            elif x < 0.5:
                prog.append(['close', own_conn if rng.random() < 0.7 else rng.choice(INITIAL_CONNS)])
            elif x < 0.62:
                wk = rng.choice(['raw', 'wait', 'exec'])
                # often a request the message being handled itself answers (registered while it is handled)
                m = _easy_matcher(rng, wk)
                tag = new_tag()
                prog.append([wk, tag, m] if wk != 'exec' else [wk, tag, rng.choice([0, 0, 1]), m])
                by_h.append((tag, r, wk, m))
            elif x < 0.8 and depth_ok:
                wk = rng.choice(['nwait', 'nwait', 'nexec'])
                m = _easy_matcher(rng, wk)
                tag = new_tag()
                prog.append([wk, tag, m])
                by_h.append((tag, r, wk, m))
                nested_tags.add(tag)
                # its reply: mostly on ANOTHER connection, while this handler is still running
                if rng.random() < 0.85:
                    rep = _reply_to(rng, m, 0.92)
                    if rng.random() < 0.2 and m['cls'] == ('s' if own_conn == 's' else 'p'):
                        rep[0] = own_conn        # same connection, later in the stream: stays behind this handler
                    rr = min(nrounds - 1, r + rng.choice([0, 1, 1, 2, 3]))
                    progs = [] if rng.random() < 0.7 else [[['sleep', rng.choice([1, 2])]]]
                    later.setdefault(rr, []).append(['feed'] + rep + [progs])
            elif x < 0.9:
                cands = [w[0] for w in by_d if w[1] < r] + [w[0] for w in by_h if w[1] <= r]
                if cands:
                    t = rng.choice(cands)
                    if rng.random() < 0.6 or t in nested_tags:
                        prog.append(['cancelfut', t])
                    else:
                        prog.append(['canceltask', t])
            else:
                prog.append(['raise'])
        return prog

    def gen_progs(r, own_conn, triple, p_some=0.7):
        if rng.random() > p_some:
            return []
        progs = [gen_prog(r, own_conn, triple) if rng.random() < 0.7 else [] for _ in range(rng.choice([1, 1, 2, 3]))]
        return progs

    mop = 'feed' if readers else 'msg'
    # requests of the driving task
    for _ in range(rng.randint(1, 3)):
        d_spawn(rng.choice([0, 0, 1]))
    if rng.random() < 0.3:
        d_spawn(rng.randint(2, nrounds - 2))

    if kind == 'h-close':
        # a reply whose handling closes the connection it came on (in the handler, after a suspension, from a second
        # listener, or from the handler of a message on ANOTHER connection while this one is suspended)
        tag, r0, wk, mode, m = rng.choice([w for w in by_d if w[1] <= 1])
        r = rng.randint(max(1, r0 + 1), nrounds - 2)
        rep = _reply_to(rng, m, 0.97)
        own = rep[0]
        variant = rng.choice(['sync', 'sync', 'after-sleep', 'before-sleep', 'second-listener', 'other-conn', 'by-driver'])
        if variant == 'sync':
            progs = [[['close', own]]]
        elif variant == 'after-sleep':
            progs = [[['sleep', rng.choice([1, 2])], ['close', own]]]
        elif variant == 'before-sleep':
            progs = [[['close', own], ['sleep', rng.choice([1, 2])]]]
        elif variant == 'second-listener':
            progs = [gen_prog(r, own, rep) if rng.random() < 0.5 else [], [['close', own]]]
        elif variant == 'by-driver':
            # an ordinary task closes the connection while the reply's handler is suspended
            progs = [[['sleep', 2]]]
            later.setdefault(r + 1, []).append(['close', own])
        else:
            g = state['gate']
            state['gate'] += 1
            gates_used.append((g, r))
            progs = [[['gate', g]]]
            other = rng.choice([c for c in INITIAL_CONNS if c != own])
            oc = 1 if other == 's' else rng.randint(0, 1)
            later.setdefault(r, []).append(['feed', other, oc, [[f, rng.choice(VALS)] for f in CLASS_FIELDS[oc]],
                                            [[['close', own]]]])
        if not readers:
            progs = [[a for a in p if a[0] not in ('sleep', 'gate')] for p in progs]
        if rng.random() < 0.4:
            progs.append(gen_prog(r, own, rep))
        rounds[r]['batch'].append([mop] + rep + [progs])
    elif kind == 'h-nested':
        # message A (connection 1): a listener awaits a request inline; its reply B arrives on connection 2
        r = rng.randint(1, nrounds - 3)
        ms = known_matchers(r)
        a = _reply_to(rng, rng.choice(ms), 0.8) if ms and rng.random() < 0.7 else \
            [rng.choice(INITIAL_CONNS), 1, [[f, rng.choice(VALS)] for f in CLASS_FIELDS[1]]]
        if a[0] == 's':
            a[1], a[2] = 1, [[f, rng.choice(VALS)] for f in CLASS_FIELDS[1]] if a[1] != 1 else a[2]
        wk = rng.choice(['nwait', 'nwait', 'nexec'])
        # server message handler -> peer reply, peer handler -> server reply, or two peers
        m = _easy_matcher(rng, wk)
        if rng.random() < 0.7:
            want = 'p' if a[0] == 's' else rng.choice(['s', 'p'])
            for _ in range(30):
                if m['cls'] == want:
                    break
                m = _easy_matcher(rng, wk)
        tag = new_tag()
        by_h.append((tag, r, wk, m))
        nested_tags.add(tag)
        pre = [rng.choice([['sleep', 1], ['raise'], ['close', a[0]]])] if rng.random() < 0.15 else []
        pre = [x for x in pre if x[0] != 'raise']
        post = [gen_prog(r, a[0], a)[0]] if rng.random() < 0.3 else []
        post = [x for x in post if x and x[0] not in NEST]
        progs = [pre + [[wk, tag, m]] + post]
        if rng.random() < 0.3:
            progs.insert(rng.randint(0, 1), gen_prog(r, a[0], a, depth_ok=False))
        rounds[r]['batch'].append(['feed'] + a + [progs])
        if rng.random() < 0.9:
            b = _reply_to(rng, m, 0.95)
            if b[0] == a[0] and rng.random() < 0.8:
                alt = [c for c in ([f"p{m['peer']}", f"q{m['peer']}"] if m['cls'] == 'p' and m['peer'] is not None else [])
                       if c != a[0]]
                if alt:
                    b[0] = rng.choice(alt)
            rb = min(nrounds - 1, r + rng.choice([0, 0, 1, 1, 2]))
            bprogs = [] if rng.random() < 0.75 else gen_progs(rb, b[0], b, 1.0)
            later.setdefault(rb, []).append(['feed'] + b + [bprogs])
            if rng.random() < 0.25:
                later.setdefault(min(nrounds - 1, rb + rng.randint(0, 1)), []).append(['feed'] + [b[0], b[1], [list(x) for x in b[2]]] + [[]])
        if rng.random() < 0.5:
            rf = rng.randint(r + 1, nrounds - 1)
            if len(rounds[rf]['fire']) < 8:
                rounds[rf]['fire'].append(tag)
    # general traffic
    for r in range(1, nrounds):
        n_more = rng.choice([0, 0, 1, 1, 2]) if kind in ('h-mixed', 'h-inline') else rng.choice([0, 0, 0, 1])
        for _ in range(n_more):
            ms = known_matchers(r)
            trip = _reply_to(rng, rng.choice(ms), 0.85) if ms and rng.random() < 0.85 else \
                [rng.choice(INITIAL_CONNS[1:]), rng.randint(0, 1), None]
            if trip[2] is None:
                trip[2] = [[f, rng.choice(VALS)] for f in CLASS_FIELDS[trip[1]]]
            progs = gen_progs(r, trip[0], trip, 0.65 if kind in ('h-mixed', 'h-inline') else 0.3)
            rounds[r]['batch'].append([mop] + trip + [progs])
            if rng.random() < 0.2:
                rounds[r]['batch'].append([mop, trip[0], trip[1], [list(x) for x in trip[2]], []])
    for r, ops in later.items():
        rounds[r]['batch'] += ops
    if readers and rng.random() < 0.1:
        rounds[rng.randint(1, nrounds - 1)]['batch'].append(['close', rng.choice(INITIAL_CONNS)])
    own_pos = rng.random() < 0.25
    if own_pos:
        for rnd in rounds:
            for op in rnd['batch']:
                progs = _progs_of(op)
                if progs:
                    progs[0][:] = [a for a in progs[0] if a[0] != 'raise']
    # what the script really contains (actions may have been dropped while composing programs)
    actual = _requests_of({'rounds': rounds})
    by_h = [w for w in by_h if w[0] in actual]
    nested_tags &= set(actual)
    for rnd in rounds:
        rnd['fire'] = [t for t in rnd['fire'] if t in actual]
        for op in rnd['batch']:
            for prog in _progs_of(op):
                prog[:] = [a for a in prog if not (a[0] in ('cancelfut', 'canceltask') and a[1] not in actual)]
    # replies for requests that handlers registered (raw / wait / exec)
    for (t, r, wk, m) in list(by_h):
        if t not in nested_tags and rng.random() < 0.6:
            rr = min(nrounds - 1, r + rng.randint(1, 3))
            rounds[rr]['batch'].append([mop] + _reply_to(rng, m, 0.9) + [[]])
    # cancellations by the driving task
    for (t, sr, wk, mode, m) in by_d:
        if rng.random() < 0.12 and sr + 1 < nrounds:
            rounds[rng.randint(sr + 1, nrounds - 1)]['batch'].append([rng.choice(['cancelfut', 'canceltask']), t])
    for (t, r, wk, m) in by_h:
        if rng.random() < 0.1:
            rounds[rng.randint(r, nrounds - 1)]['batch'].append(['cancelfut', t])
    # gates are opened by the driving task some rounds later (always before the script ends)
    for g, r in gates_used:
        rounds[min(nrounds - 1, r + rng.choice([1, 1, 2, 3]))]['batch'].append(['open', g])
    # timeouts
    for (t, sr, wk, mode, m) in by_d:
        need = 3 if (wk == 'exec' and mode >= 2) else 2
        if sr + need < nrounds and rng.random() < 0.35 and not (wk == 'exec' and mode in (1, 3, 4)):
            r = rng.randint(sr + need, nrounds - 1)
            if len(rounds[r]['fire']) < 8:
                rounds[r]['fire'].append(t)
    fired = {t for rnd in rounds for t in rnd['fire']}
    for (t, r, wk, m) in by_h:
        if t not in fired and rng.random() < 0.4 and r + 1 < nrounds:
            rf = rng.randint(r + 1, nrounds - 1)
            if len(rounds[rf]['fire']) < 8:
                rounds[rf]['fire'].append(t)
    for rnd in rounds:
        # keep the order of the batch mostly as built (a reply after the message whose handler asks for it), but
        # move the driving task's own requests of the round to the front
        rnd['batch'].sort(key=lambda op: 0 if op[0] in SPAWN else 1)
    # enough empty rounds afterwards for every suspended handler (one after the other per connection) to finish
    nsleep = sum(a[1] for rnd in rounds for op in rnd['batch'] for p in _progs_of(op) for a in p if a[0] == 'sleep')
    nmsg = sum(1 for rnd in rounds for op in rnd['batch'] if op[0] in ('msg', 'feed'))
    case = {'rounds': rounds, 'kind': kind, 'readers': readers, 'extra': min(60, 8 + nsleep + 2 * nmsg)}
    if own_pos:
        case['own'] = True
    return case


_SREQ = {'cls': 's', 'msg': 1, 'peer': None, 'fields': [[4, 'c1']]}
_PREQ = {'cls': 'p', 'msg': 0, 'peer': 0, 'fields': [[0, 'c2']]}
_PREQ1 = {'cls': 'p', 'msg': 0, 'peer': 1, 'fields': [[0, 'c2']]}
_SATTR = [[4, 1], [5, 2], [6, None]]
_PATTR = [[0, 2], [1, 1], [2, 0], [3, None]]
_E = {'batch': [], 'fire': []}
# directed schedules of the handler families (always run)
DIRECTED_H = [
    # the reply's own handler closes the connection it came on (peer-scoped wait + execute; server-scoped raw)
    {'kind': 'directed-h-close-peer', 'readers': True, 'rounds': [
        {'batch': [['wait', 0, _PREQ], ['exec', 1, 0, _PREQ]], 'fire': []}, _E,
        {'batch': [['feed', 'p0', 0, _PATTR, [[['close', 'p0']]]]], 'fire': []}, _E, {'batch': [], 'fire': [0, 1]}]},
    {'kind': 'directed-h-close-server', 'readers': True, 'rounds': [
        {'batch': [['raw', 0, _SREQ], ['wait', 1, _SREQ]], 'fire': []}, _E,
        {'batch': [['feed', 's', 1, _SATTR, [[], [['sleep', 1], ['close', 's'], ['sleep', 1]]]]], 'fire': []}, _E, _E]},
    {'kind': 'directed-h-close-inline', 'rounds': [
        {'batch': [['wait', 0, _PREQ]], 'fire': []}, _E,
        {'batch': [['msg', 'p0', 0, _PATTR, [[['close', 'p0']]]]], 'fire': []}, _E]},
    # closed by the handler of a message on another connection while the reply's handler is suspended
    {'kind': 'directed-h-close-other', 'readers': True, 'rounds': [
        {'batch': [['wait', 0, _PREQ]], 'fire': []}, _E,
        {'batch': [['feed', 'p0', 0, _PATTR, [[['gate', 0]]]], ['feed', 's', 1, _SATTR, [[['close', 'p0']]]]], 'fire': []},
        {'batch': [['open', 0]], 'fire': []}, _E]},
    # a server-message listener awaits a peer reply inline (and the reverse); the reply arrives on the other connection
    {'kind': 'directed-h-nested-server-peer', 'readers': True, 'rounds': [
        {'batch': [['raw', 0, _SREQ]], 'fire': []}, _E,
        {'batch': [['feed', 's', 1, _SATTR, [[['nexec', 1, _PREQ]]]]], 'fire': []},
        {'batch': [['feed', 'p0', 0, _PATTR, []]], 'fire': []}, _E, {'batch': [], 'fire': [1]}]},
    {'kind': 'directed-h-nested-peer-server', 'readers': True, 'rounds': [
        {'batch': [['wait', 0, _PREQ1]], 'fire': []}, _E,
        {'batch': [['feed', 'p1', 0, _PATTR, [[], [['nwait', 1, _SREQ]]]], ['feed', 's', 1, _SATTR, []]], 'fire': []},
        _E, {'batch': [], 'fire': [1]}]},
    # the same, without any timeout on the nested request
    {'kind': 'directed-h-nested-no-timeout', 'readers': True, 'rounds': [
        _E, {'batch': [['feed', 'p1', 0, _PATTR, [[['nwait', 0, _SREQ]]]]], 'fire': []},
        {'batch': [['feed', 's', 1, _SATTR, []]], 'fire': []}, _E]},
    # the reply to the nested request comes later in the SAME stream: it stays behind the handler (times out)
    {'kind': 'directed-h-nested-same-conn', 'readers': True, 'rounds': [
        _E, {'batch': [['feed', 's', 1, [[4, 0], [5, 0], [6, 0]], [[['nwait', 0, _SREQ]]]], ['feed', 's', 1, _SATTR, []]],
             'fire': []}, _E, {'batch': [], 'fire': [0]}, _E]},
    # a handler registers a request its own message answers, cancels another, and fails
    {'kind': 'directed-h-register-cancel-raise', 'readers': True, 'rounds': [
        {'batch': [['raw', 0, _SREQ], ['wait', 1, _SREQ]], 'fire': []}, _E,
        {'batch': [['feed', 's', 1, _SATTR, [[['raw', 2, _SREQ], ['cancelfut', 0], ['sleep', 1], ['raise']],
                                             [['wait', 3, _SREQ]]]]], 'fire': []}, _E, _E]},
    # the request times out while the handlers of its reply are still running (legitimate: TimeoutError)
    {'kind': 'directed-h-slow-handler-timeout', 'readers': True, 'rounds': [
        {'batch': [['wait', 0, _SREQ]], 'fire': []}, _E,
        {'batch': [['feed', 's', 1, _SATTR, [[['sleep', 3]]]]], 'fire': [0]}, _E, _E]},
]


# ---- connection life cycle while requests are pending (round 5) ----------------------------------------------------
# The requests are matched by peer NAME: a request for user k stays pending whatever happens to the connections of user
# k — the one it went out on included — and is completed by a reply over whichever connection of user k exists then.

_UREQ = {'cls': 'p', 'msg': 0, 'peer': 0, 'fields': []}
DIRECTED_L = [
    # every connection of the user is closed (last one last), a new one comes about, the reply arrives over it
    {'kind': 'directed-l-reply-over-new-connection', 'readers': True, 'rounds': [
        {'batch': [['wait', 0, _PREQ], ['exec', 1, 0, _UREQ], ['raw', 2, _PREQ]], 'fire': []}, _E,
        {'batch': [['close', 'q0', 'REQUESTED'], ['close', 'p0', 'EOF']], 'fire': []}, _E,
        {'batch': [['connect', 'r0'], ['feed', 'r0', 0, _PATTR, []]], 'fire': []}, _E, _E]},
    # … and nothing arrives: every caller gets TimeoutError when ITS timeout fires, not before
    {'kind': 'directed-l-no-reply-times-out', 'readers': True, 'rounds': [
        {'batch': [['wait', 0, _PREQ], ['exec', 1, 0, _UREQ], ['raw', 2, _PREQ]], 'fire': []}, _E,
        {'batch': [['close', 'p0', 'READ_ERROR'], ['close', 'q0', 'TIMEOUT']], 'fire': []}, _E,
        {'batch': [], 'fire': [0]}, {'batch': [['connect', 'r0']], 'fire': [1]}, {'batch': [], 'fire': [2]}, _E]},
    # the same with messages delivered by the driving task
    {'kind': 'directed-l-inline', 'rounds': [
        {'batch': [['wait', 0, _PREQ1], ['exec', 1, 0, _PREQ1]], 'fire': []}, _E,
        {'batch': [['close', 'p1'], ['close', 'q1', 'EOF']], 'fire': []},
        {'batch': [['connect', 'r1']], 'fire': []}, {'batch': [['msg', 'r1', 0, _PATTR]], 'fire': []}, _E]},
    # the server connection is lost while server requests are pending: they wait for their timeouts
    {'kind': 'directed-l-server-lost', 'readers': True, 'rounds': [
        {'batch': [['wait', 0, _SREQ], ['raw', 1, _SREQ], ['exec', 2, 0, _SREQ]], 'fire': []}, _E,
        {'batch': [['close', 's', 'EOF']], 'fire': []}, _E, {'batch': [], 'fire': [0, 2]}, {'batch': [], 'fire': [1]}, _E]},
    # the handler of the reply's predecessor on the same connection closes the last connection; the new connection is
    # there before the old handler returns
    {'kind': 'directed-l-closed-by-handler', 'readers': True, 'rounds': [
        {'batch': [['wait', 0, _PREQ]], 'fire': []}, _E,
        {'batch': [['close', 'q0'], ['feed', 'p0', 0, [[0, 1], [1, 1], [2, 0], [3, None]], [[['close', 'p0', 'EOF'], ['sleep', 2]]]]],
         'fire': []},
        {'batch': [['connect', 'r0'], ['feed', 'r0', 0, _PATTR, []]], 'fire': []}, _E, _E]},
]


def _gen_lcase(rng: random.Random) -> dict:
    """connection life cycle: 1..3 requests for a user (or for the server), then that user's connections are closed — all
    of them or all but one, by the driving task / by a message handler, for any reason — possibly a new connection comes
    about, and the reply arrives over a connection that exists then (or never: the timeouts fire)"""
    readers = rng.random() < 0.7
    nrounds = rng.randint(6, 9)
    rounds = [{'batch': [], 'fire': []} for _ in range(nrounds)]
    server = rng.random() < 0.15
    k = rng.randint(0, 1)
    mop = 'feed' if readers else 'msg'
    tags = []
    ms = []
    for t in range(rng.randint(1, 3)):
        wk = rng.choice(['raw', 'wait', 'wait', 'exec', 'exec'])
        for _ in range(40):
            m = _easy_matcher(rng, wk)
            if (m['cls'] == 's') == server:
                break
        else:
            m = dict(_SREQ) if server else dict(_UREQ)
        m = dict(m, peer=None if server else k)
        r0 = rng.choice([0, 0, 1])
        rounds[r0]['batch'].append([wk, t, m] if wk != 'exec' else [wk, t, rng.choice([0, 0, 0, 2]), m])
        tags.append((t, r0, wk))
        ms.append(m)
    own = ['s'] if server else [f'p{k}', f'q{k}']
    keep_one = (not server) and rng.random() < 0.25
    to_close = list(own)
    rng.shuffle(to_close)
    if keep_one:
        to_close = to_close[:1]
    open_now = set(own)
    last_close = 1
    for c in to_close:
        r = rng.randint(1, nrounds - 4)
        last_close = max(last_close, r)
        reason = rng.choice(CLOSE_REASONS)
        how = rng.random()
        if how < 0.6 or not readers:
            rounds[r]['batch'].append(['close', c, reason])
        elif how < 0.8:
            # closed by the handler of a message that arrives on it (and does not answer anything: wrong class fields)
            other_cls = 1
            rounds[r]['batch'].append(['feed', c, other_cls, [[f, rng.choice(VALS)] for f in CLASS_FIELDS[other_cls]],
                                       [[['close', c, reason]] + ([['sleep', 1]] if rng.random() < 0.5 else [])]])
        else:
            # closed by the handler of a message on another connection
            oc = rng.choice([x for x in INITIAL_CONNS if x not in own])
            cls = 1 if oc == 's' else rng.randint(0, 1)
            rounds[r]['batch'].append(['feed', oc, cls, [[f, rng.choice(VALS)] for f in CLASS_FIELDS[cls]],
                                       [[['close', c, reason]]]])
        open_now.discard(c)
    new_conn = None
    if not server and rng.random() < 0.7:
        rc = rng.randint(last_close, nrounds - 3) if rng.random() < 0.8 else rng.randint(1, nrounds - 3)
        new_conn = f'r{k}'
        rounds[rc]['batch'].append(['connect', new_conn])
    else:
        rc = None
    # the reply: over the new connection / over the one that was kept / never
    answered = False
    cands = ([new_conn] if new_conn else []) + sorted(open_now)
    if cands and rng.random() < 0.7:
        c = rng.choice(cands)
        lo = (rc if c == new_conn else last_close)
        rr = rng.randint(lo, nrounds - 2)
        rep = _reply_to(rng, rng.choice(ms), 0.95)
        rounds[rr]['batch'].append([mop, c, rep[1], rep[2]] + ([[]] if readers else []))
        if rng.random() < 0.3:
            # … and the new connection is closed again right after / a second reply follows
            rounds[min(nrounds - 1, rr + 1)]['batch'].append(['close', c, rng.choice(CLOSE_REASONS)])
        answered = True
    # a stranger's message of the same class (another user) must complete nothing
    if not server and rng.random() < 0.3:
        rep = _reply_to(rng, rng.choice(ms), 1.0)
        rounds[rng.randint(1, nrounds - 2)]['batch'].append([mop, f'p{1 - k}', rep[1], rep[2]] + ([[]] if readers else []))
    for (t, r0, wk) in tags:
        if rng.random() < (0.5 if answered else 0.9):
            need = 3
            rf = rng.randint(max(r0 + need, nrounds - 3), nrounds - 1)
            if len(rounds[rf]['fire']) < 8:
                rounds[rf]['fire'].append(t)
        elif rng.random() < 0.15 and r0 + 2 < nrounds:
            rounds[rng.randint(r0 + 2, nrounds - 1)]['batch'].append([rng.choice(['cancelfut', 'canceltask']), t])
    for rnd in rounds:
        # requests first; a `connect` before anything that uses the connection; the rest in the order built
        rnd['batch'].sort(key=lambda op: 0 if op[0] in SPAWN else 1)
    case = {'rounds': rounds, 'kind': 'l-server' if server else ('l-readers' if readers else 'l-inline'), 'readers': readers}
    if readers:
        nmsg = sum(1 for rnd in rounds for op in rnd['batch'] if op[0] == 'feed')
        case['extra'] = 10 + 2 * nmsg
    return case


def _corpus_cases() -> list[dict]:
    """corpus/C12/*.json: generated cases that caught a seeded change of each handler class, and the inputs of
    false alarms of this monitor (kept as regression cases); run on every check"""
    import json
    from pathlib import Path
    out = []
    for f in sorted((Path(__file__).resolve().parent.parent / 'corpus' / 'C12').glob('*.json')):
        case = json.loads(f.read_text())['case']
        case['kind'] = 'corpus-' + f.stem
        out.append(case)
    return out


# ---- command family (round 5): every command class, executed by the real client against a remote end that answers -------
# case = {'family': 'cmd', 'kind': 'cmd-…', 'cmd': class name, 'timeout': T, + the scenario keys of vlib.cmdrig.run_case}
# Monitor only (real SoulSeekClient + real sockets' worth of connection code: no model).  What "answers" a request is
# decided from the request the remote end RECEIVED (the protocol's reply echoes its user / room / item / ticket /
# directory), never from what the command chose to expect.

def _cmd_inventory() -> list[dict]:
    from vlib import cmdrig
    inv = cmdrig.command_inventory()
    if not inv:
        raise cmdrig.InventoryError('no command classes found in aioslsk.commands')
    for c in inv:
        cmdrig.make_command(c['name'])          # (unknown constructor parameter -> InventoryError)
    return inv


def _valid_cmd_case(case: dict) -> bool:
    peer = case['cmd'].startswith('Peer')
    via, hang, conn = case.get('via'), case.get('hangup'), case.get('connect')
    if not peer:
        return via in (None, 'same') and not hang and not case.get('second') and not case.get('stranger')
    if case.get('server_drop'):
        return False
    if via == 'second' and not case.get('second'):
        return False
    if via == 'same' and hang == 'reset':
        return False        # a reset right behind the reply may destroy the reply (as on a real socket)
    if via == 'new-pierce' and conn == 'indirect':
        return False        # a peer that cannot be connected to cannot be connected to on its request either
    return True


def _gen_cmd_cases(rng: random.Random, tier: str, widen: int = 1) -> list[dict]:
    inv = [c for c in _cmd_inventory() if c['expects']]
    cases = []
    for c in inv:
        peer = c['name'].startswith('Peer')
        base = {'family': 'cmd', 'cmd': c['name'], 'connect': 'direct', 'hangup': None, 'second': False,
                'stranger': False, 'server_drop': False}
        # every command: answered (plain, and behind a message of the same class that does not answer it), unanswered
        cases.append(dict(base, kind='cmd-answered', timeout=8, via='same', delay=1.0, decoy=False))
        cases.append(dict(base, kind='cmd-answered-after-decoy', timeout=rng.choice([3, 8, 15]), via='same',
                          delay=rng.choice([0.0, 0.5, 2.0]), decoy=True))
        cases.append(dict(base, kind='cmd-unanswered', timeout=rng.choice([3, 8, 15]), via=None, delay=0.0, decoy=False))
        cases.append(dict(base, kind='cmd-answered-late', timeout=3, via='same', delay=4.5, decoy=False))
        if not peer:
            cases.append(dict(base, kind='cmd-server-lost', timeout=rng.choice([3, 8]), via=None, delay=0.0, decoy=False,
                              server_drop=True))
            continue
        # peer commands: the life of the connections between request and reply
        combos = [dict(base, kind='cmd-peer-lifecycle', timeout=T, via=via, delay=delay, decoy=decoy, connect=conn,
                       hangup=hang, second=second, stranger=stranger)
                  for conn in ('direct', 'indirect', 'pre') for hang in (None, 'eof', 'reset')
                  for via in (None, 'same', 'second', 'new-in', 'new-pierce') for second in (False, True)
                  for stranger in (False, True) for decoy in (False, True)
                  for T, delay in ((8, 2.0),)]
        combos = [x for x in combos if _valid_cmd_case(x)]
        if tier == 'quick':
            # all the ways a reply can come back after the request's connection went away, + a sample of the rest
            must = [x for x in combos if x['hangup'] and not x['second'] and not x['stranger'] and not x['decoy']]
            rest = [x for x in combos if x not in must]
            combos = must + rng.sample(rest, min(len(rest), 24 * widen))
        for x in combos:
            x['timeout'] = rng.choice([3, 8, 15])
            x['delay'] = rng.choice([0.0, 0.4, 2.0])
        cases += combos
    return cases


def _monitor_cmd(case: dict, obs: dict) -> list[Violation]:
    vs: list[Violation] = []

    def add(sig, what, required=None):
        vs.append(Violation(sig, what, case, observed={k: v for k, v in obs.items()}, required=required))

    if obs.get('rig_error'):
        add('C12-cmd-impl-error', f"the scenario could not be driven: {obs['rig_error']}"[:300])
        return vs
    T = float(case['timeout'])
    name = case['cmd']
    if obs.get('registered') != 1 or not obs.get('request_seen') or obs.get('sent_after') is None:
        add('C12-cmd-impl-error', f'execute({name}, response=True) registered {obs.get("registered")} expected responses; '
            f'request reached the remote end: {obs.get("request_seen")} (outcome {obs.get("outcome")!r})')
        return vs
    deadline = obs['sent_after'] + T            # execute() arms its timeout when `command.send` has returned
    eps = 1e-6
    replied = obs.get('reply_sent_after')
    in_time = replied is not None and replied < deadline - eps
    out, fut = obs['outcome'], obs.get('fut')
    if fut == 'R' and not obs.get('fut_is_reply'):
        add('C12-wrong-completion', f'the request of {name} was completed by a message that does not answer it '
            f'({"the decoy" if obs.get("fut_is_decoy") else "from connection of " + str(obs.get("fut_conn_user"))})',
            'completed only by the reply to the request that was sent')
    if in_time:
        if fut != 'R' or out in ('timeout', 'cancelled', 'hangs'):
            add('C12-missed-completion',
                f'{name}: the remote end received the request and its reply (echoing the request) was delivered '
                f'{replied:.2f}s after execute() began, timeout due at {deadline:.2f}s; the request is {fut}, the caller got '
                f'{out!r} after {obs["t_end"]:.2f}s', 'completed with the reply')
    else:
        early = obs['t_end'] < deadline - eps
        if out == 'timeout' and not early and obs['t_end'] <= deadline + eps:
            pass
        elif fut == 'R':
            pass        # (reported above when the completing message is not the reply)
        elif early and out in ('cancelled', 'timeout') or out.startswith('error:'):
            add('C12-ended-without-cause' if early else 'C12-timeout-not-timeout',
                f'{name}: no reply arrived{" yet" if case.get("via") else ""}; the caller got {out!r} after '
                f'{obs["t_end"]:.2f}s, its timeout was due at {deadline:.2f}s (nobody cancelled the request or its caller)',
                f'TimeoutError at {deadline:.2f}s')
        else:
            add('C12-timeout-not-timeout', f'{name}: no reply arrived in time; the caller got {out!r} after '
                f'{obs["t_end"]:.2f}s (timeout due at {deadline:.2f}s)', f'TimeoutError at {deadline:.2f}s')
    if obs.get('residue') or obs.get('still_listed'):
        add('C12-residue', f'{name}: {obs.get("residue")} completed / cancelled request(s) still listed two loop iterations '
            'after the caller was answered', 'removed')
    return vs


def _eval_cmd_case(case: dict) -> dict:
    from vlib import cmdrig
    try:
        return cmdrig.run_case(case)
    except (cmdrig.InventoryError, RuntimeError, TimeoutError) as e:
        return {'rig_error': f'{type(e).__name__}: {e}'[:400]}


def _eval_case(case):
    if case.get('family') == 'cmd':
        return _eval_cmd_case(case)
    try:
        return _run_impl(case)
    except AssertionError:
        raise
    except Exception as e:      # the harness itself failed: surface it
        import traceback
        return {'snaps': [], 'harness_error': f'{type(e).__name__}: {e}', 'tb': traceback.format_exc()[-1500:]}


def _features(case: dict, impl: dict) -> set[str]:
    """schedule features reached (for the distribution and the non-triviality rule)"""
    feats = set()
    snaps = [_parse_snap(s) for s in impl['snaps']]
    i = 0
    prev = None
    rounds = _rounds(case)
    spawn_round = {}
    armed = set(impl.get('armed', []))
    for r, rnd in enumerate(rounds):
        # exec callers that are (still) inside command.send during this round's batch
        sending = {t for t, (sr, mode) in spawn_round.items() if (mode in (2, 3) and r == sr + 1) or (mode == 4 and r > sr)}
        for op in rnd['batch']:
            if op[0] == 'exec':
                spawn_round[op[1]] = (r, op[2])
            cur = snaps[i]
            if op[0] == 'msg' and prev is not None:
                done_listed = [t for t in prev['order'] if t != '?' and prev['w'].get(int(t), ('P',))[0] != 'P']
                if done_listed:
                    feats.add('msg-while-done-future-listed')
                newly = [t for t, (f, _o) in cur['w'].items() if f.startswith('R') and prev['w'].get(t, ('P',))[0] == 'P']
                if newly:
                    feats.add('completed-by-message')
                if len(newly) >= 2:
                    feats.add('one-message-completes-several')
            if op[0] in ('cancelfut', 'canceltask'):
                feats.add(op[0])
                if op[0] == 'canceltask' and prev is not None and op[1] in prev['w'] and \
                        prev['w'][op[1]][1] == '-' and op[1] in sending:
                    feats.add('task-cancelled-during-send')
            if op[0] == 'exec':
                feats.add(f'exec-mode{op[2]}')
            if op[0] in ('raw', 'wait', 'exec'):
                m = op[-1]
                if sum(1 for _f, e in m['fields'] if e[0] == 'p') >= 1 and len(m['fields']) >= 2:
                    feats.add('predicate-with-other-fields')
            prev = cur
            i += 1
        cur = snaps[i]
        for t in rnd['fire']:
            if prev is not None and t in prev['w'] and prev['w'][t][1] == '-' and t in armed:
                feats.add('timeout-fired-on-waiting-caller')
                if prev['w'][t][0].startswith('R'):
                    feats.add('timeout-after-reply-same-iteration')
        prev = cur
        i += 1
    # handler features, from the harness' own event log
    ev = impl.get('events', [])
    content = impl.get('content') or {}
    open_calls: dict[int, str] = {}          # message number -> connection, between arrival and return
    states_at: dict[int, dict] = {}
    reqs = _requests_of(case)
    nested_tags = {t for t, (k, _m, _x) in reqs.items() if k in NEST}
    closed_during = set()
    for e in ev:
        if e[1] == 'arrive':
            if open_calls:
                feats.add('h:calls-overlap')
                if any(c != e[3] for c in open_calls.values()):
                    feats.add('h:calls-overlap-across-connections')
            open_calls[e[2]] = e[3]
            states_at[e[2]] = e[4]
        elif e[1] == 'return':
            open_calls.pop(e[2], None)
            n = e[2]
            before, after = states_at.get(n, {}), e[3]
            done = [t for t, s in after.items() if s == f'R{n}']
            for n0, c0 in open_calls.items():
                op0 = content.get(n0)
                if n0 < n and op0 and any(states_at.get(n0, {}).get(t) == 'P' and t in reqs and
                                          _spec_match(reqs[t][2], op0[1], op0[2], op0[3]) for t in done):
                    # an earlier message that answers the request too is still being handled (slow handlers)
                    feats.add('h:overtaken-by-later-message-on-other-connection')
            if done:
                feats.add('completed-by-message')
                op = content.get(n)
                progs = _progs_of(op) if op else []
                acts = [a for p in progs for a in p]
                if any(a[0] == 'close' and a[1] == op[1] for a in acts):
                    feats.add('h:completed-after-own-handler-closed-connection')
                if any(a[0] in ('sleep', 'gate') or a[0] in NEST for a in acts):
                    feats.add('h:completed-after-suspended-handler')
                if any(t not in before for t in done):
                    feats.add('h:completed-request-registered-by-handler')
                if any(t in nested_tags for t in done) and open_calls:
                    feats.add('h:nested-request-answered-while-outer-call-runs')
                    if any(c != (op[1] if op else None) for c in open_calls.values()):
                        feats.add('h:nested-request-answered-on-other-connection')
    for rnd in case['rounds']:
        for op in rnd['batch']:
            for p in _progs_of(op):
                for a in p:
                    feats.add('h:act-' + a[0])
    final = snaps[-1] if snaps else {'w': {}}
    for t in nested_tags:
        if t in final['w']:
            o = final['w'][t][1]
            feats.add('h:nested-' + ('result' if o.startswith('r') else {'T': 'timeout', 'C': 'cancelled', '-': 'waiting'}.get(o, 'other')))
    if snaps and any(s['closing'] for s in snaps):
        feats.add('h:connection-closed')
    # life cycle: a connection went away while a request that names its user (or the server) was pending
    for a, b in zip(snaps, snaps[1:]):
        for c in set(b['closing']) - set(a['closing']):
            who = None if c in ('s', 'pN') else int(c[1:])
            for t, (f, _o) in a['w'].items():
                if f == 'P' and t in reqs and ((reqs[t][2]['cls'] == 's') == (c == 's')) and \
                        (c == 's' or reqs[t][2]['peer'] == who):
                    feats.add('l:connection-closed-while-request-pending')
                    if c != 's' and all(x in b['closing'] for x in (f'p{who}', f'q{who}')):
                        feats.add('l:last-initial-connection-of-the-user-closed-while-request-pending')
    if any(op[0] == 'connect' for rnd in case['rounds'] for op in rnd['batch']):
        feats.add('l:new-connection')
        ev_arr = [e for e in ev if e[1] == 'arrive' and e[3] in LATE_CONNS]
        if any(any(st == f'R{e[2]}' for st in (next((r[3] for r in ev if r[1] == 'return' and r[2] == e[2]), {}) or {}).values())
               for e in ev_arr):
            feats.add('l:completed-by-reply-over-new-connection')
    return feats


class C12(Property):
    id = 'C12'
    props_module = 'AioslskVerif.Props.C12'
    driver_module = 'AioslskVerif.Driver.C12'
    rule = ('scripts of 4..9 loop iterations over 1..4 concurrent requests (+ later ones, + requests made by message '
            'handlers) of kinds raw future / wait_for_*_message / execute(), 2 message classes x server + 5 peer connections '
            '(2 users with 2 connections each, 1 anonymous) x field matchers '
            '(constants, predicates, several fields, missing attributes), message batches delivered back-to-back in one '
            'task step or across iterations, timeouts fired at chosen iterations, future/task cancellations; handler '
            'families: messages go through one REAL reader loop per connection and carry programs for 1..3 '
            'MessageReceivedEvent listeners (suspend 1..3 iterations / on a gate, close the connection the message came on or '
            'another one, register requests, await a nested request inline whose reply arrives on another connection / '
            'later in the same stream, cancel, raise); life-cycle families: every connection is a real object brought '
            'about by the real accept / finalise path (registered, CONNECTED reported to the Network, ESTABLISHED, reader '
            'task), the connections of the user a request waits for are closed (all / all but one; by the driving task, by '
            'a handler on the same or another connection; every CloseReason), a NEW connection of that user comes about, '
            'the reply arrives over a connection that exists then or never (timeouts); command family (monitor only): every '
            'BaseCommand subclass of aioslsk/commands.py that expects a response (inventory by introspection) is executed by '
            'a real logged-in SoulSeekClient (FakeNet sockets, scripted server and peers) with response=True against a '
            'remote end that answers the request it RECEIVED (reply echoes user / room / item / ticket / directory), after a '
            'decoy of the same class, late, or never; peer commands x how the request connection comes about (direct / '
            'indirect / existing) x what the peer does with it after reading the request (keeps / closes / resets) x how '
            'the reply comes back (same / second / new incoming / new connection on the peer\'s request via the server) x a '
            'stranger\'s identical reply; derived '
            'from VERIF_SEED; a case is non-trivial when a message completed a request AND at least one of: a timeout '
            'fired on a waiting caller, a cancellation (also of execute() inside command.send), a failing send, a message '
            'delivered while a completed future was still listed, a handler that closed the connection / suspended / '
            'registered the completed request, overlapping calls of on_message_received, a connection closed while a request '
            'was pending; a command scenario when the reply was delivered and a connection went away / a decoy / a stranger '
            'preceded it / it came over another connection; distinct = distinct canonical script')
    assumptions = [
        'asyncio semantics (FIFO call_soon, done-callbacks run one iteration later, Task.cancel/must_cancel, '
        'asyncio.Timeout, timers run last in their iteration) are modelled in the Lean driver\'s ready-queue mirror and '
        'validated only differentially',
        'field predicates are total and do not raise; expected values are None/ints (no bool/int aliasing)',
        '"first message" is read in the order in which the handlers of the messages RETURN (per connection = arrival '
        'order; across connections a message whose handlers are slow can be overtaken — there is no order on the wire)',
        'a reader task is not cancelled while a handler of its message runs; Network\'s own MESSAGE_MAP handler does not raise',
        'a caller task is cancelled only after its first step ran (a task cancelled before it starts registers nothing)',
        'command family: "the message answers the request" is read off the request the remote end received — the reply '
        'the protocol (and aioslsk\'s own responder code) gives echoes its user name / room / item / ticket / directory; a '
        'reply written right before an abortive close (RST) may be lost and is not generated',
    ]
    modelled = ('ExpectedResponse.matches; create_server/peer_response_future, register_response_future, '
                '_remove_response_future; wait_for_server/peer_message incl. timeout path; on_message_received as '
                'arrive (handlers start) / finish (completion loop) with anything in between, overlapping calls, '
                'connection state; SoulSeekClient.execute (register, send ok/raises/suspends/is cancelled while suspended, '
                'await with timeout). '
                'connection life cycle (set_state reports, accept / finalise of a new connection) as connState ops that '
                'touch no request. '
                'Driver-level (ready-queue mirror, not theorem subjects): reader loop per connection (also of a connection '
                'that comes about later), listener programs. '
                'Monitor only (no model): the command classes of commands.py through the real client and connection code. '
                'Not modelled: asyncio.wait-based use in _make_indirect_connection (only its fut.cancel()), real '
                'sockets/parser, cancellation of a reader task inside a handler')

    def correspondence(self, seed, tier, model_ok, widen=1):
        res = KResult()
        rng = random.Random(f'C12-{seed}')
        n = (1200 if tier == 'quick' else 30000) * widen
        nh = (1600 if tier == 'quick' else 40000) * widen
        cases = list(DIRECTED) + list(DIRECTED_H) + _corpus_cases() + [_gen_case(rng) for _ in range(n)]
        rng_h = random.Random(f'C12-h-{seed}')
        cases += [_gen_hcase(rng_h) for _ in range(nh)]
        rng_l = random.Random(f'C12-l-{seed}')
        nl = (500 if tier == 'quick' else 12000) * widen
        cases += list(DIRECTED_L) + [_gen_lcase(rng_l) for _ in range(nl)]
        ncmd0 = len(cases)
        try:
            cmd_cases = _gen_cmd_cases(random.Random(f'C12-cmd-{seed}'), tier, widen)
        except Exception as e:  # noqa   (reported by the inventory obligation, see regenerate)
            cmd_cases = []
            res.notes.append(f'command family not run: {type(e).__name__}: {e}'[:300])
        impl = common.parallel_map(_eval_case, cases + cmd_cases)
        impl_cmd = impl[ncmd0:]
        impl = impl[:ncmd0]
        model = None
        if model_ok:
            lines, spans = [], []
            for c in cases:
                ls = _model_lines(c)
                spans.append((len(lines) + 1, len(ls) - 1))      # skip the answer to `reset`
                lines += ls
            out = common.run_driver(self.driver_file, lines)
            model = [out[a:a + k] for a, k in spans]
        else:
            res.model_available = False
        for i, c in enumerate(cases):
            res.evaluations += 1
            io = impl[i]
            if io.get('harness_error'):
                raise RuntimeError(f'C12 harness error: {io["harness_error"]}\n{io.get("tb")}\ncase={c}')
            res.count('kind:' + c['kind'])
            res.count('rounds', len(c['rounds']))
            for rnd in c['rounds']:
                for op in rnd['batch']:
                    res.count('op:' + op[0])
                res.count('op:timeout-scheduled', len(rnd['fire']))
            feats = _features(c, io)
            for f in feats:
                res.count('feature:' + f)
            if 'completed-by-message' in feats and feats & {
                    'timeout-fired-on-waiting-caller', 'cancelfut', 'canceltask', 'exec-mode1', 'exec-mode3',
                    'msg-while-done-future-listed', 'task-cancelled-during-send',
                    'h:completed-after-own-handler-closed-connection', 'h:completed-after-suspended-handler',
                    'h:completed-request-registered-by-handler', 'h:calls-overlap',
                    'h:nested-request-answered-while-outer-call-runs', 'l:connection-closed-while-request-pending'}:
                res.nontrivial_keys.add(common.sha(c['rounds']))
            if model is not None:
                res.traces_validated += 1
                if model[i] != io['snaps']:
                    k = next((j for j, (a, b) in enumerate(zip(model[i], io['snaps'])) if a != b),
                             min(len(model[i]), len(io['snaps'])))
                    ml = _model_lines(c)
                    res.disagreements.append(Disagreement(
                        c, io['snaps'][k] if k < len(io['snaps']) else None,
                        model[i][k] if k < len(model[i]) else None, f'line #{k}: {ml[k + 1] if k + 1 < len(ml) else ""}'))
            res.violations += _monitor(c, io)
            if len(res.samples) < 3 and c['kind'].startswith('directed-h'):
                res.samples.append({'case': c, 'impl': io['snaps']})
        # command family: monitor only
        answered: set = set()
        for c, obs in zip(cmd_cases, impl_cmd):
            res.evaluations += 1
            res.count('kind:' + c['kind'])
            res.count('cmd:' + c['cmd'])
            for key in ('via', 'hangup', 'connect'):
                if c['cmd'].startswith('Peer'):
                    res.count(f'cmd-{key}:{c.get(key)}')
            vs = _monitor_cmd(c, obs)
            res.violations += vs
            if obs.get('request_seen') and obs.get('reply_sent_after') is not None:
                answered.add(c['cmd'])
                if c.get('hangup') or c.get('decoy') or c.get('stranger') or c.get('via') not in (None, 'same'):
                    res.nontrivial_keys.add(common.sha(c))
            if len(res.samples) < 4 and c['kind'] == 'cmd-peer-lifecycle' and c.get('via') == 'new-pierce':
                res.samples.append({'case': c, 'impl': {k: v for k, v in obs.items() if k != 'events'}})
        if cmd_cases:
            # coverage floor: every command class that expects a response was executed against a reply that answers it
            missing = sorted({c['cmd'] for c in cmd_cases} - answered)
            res.count('cmd-classes-answered', len(answered))
            if missing and not any(str(v.signature).endswith('impl-error') for v in res.violations):
                res.disagreements.append(Disagreement({'commands': missing}, 'never executed against an answering reply',
                                                      'every command class with an expected response is', 'command-inventory'))
        return res

    def regenerate(self):
        # inventory obligation: every command class of aioslsk/commands.py can be instantiated by the command family
        # (a class it has no recipe for is reported, never skipped)
        inv = _cmd_inventory()
        return [f'command inventory: {len(inv)} classes, {sum(1 for c in inv if c["expects"])} expect a response']

    def replay(self, case):
        if case.get('family') == 'cmd':
            return _monitor_cmd(case, _eval_cmd_case(case))
        return _monitor(case, _eval_case(case))

    def known_witnesses(self):
        return []


PROPERTY = C12()
