"""C14 — search requests flow down the tree exactly once, and are answered to the asker.

Correspondence K_C14 + monitor (see DESIGN.md, C14). Built on the C13 harness (`props/c13.py`): the REAL
`DistributedNetwork`, `SearchManager` and `SharesManager` (real temporary share trees, scanned) run on a REAL
`Network` (real `ServerConnection`, `ListeningConnection`, `PeerConnection`, reader loops, `EventBus`); only
the sockets are in-memory (`vlib/fakenet.py`) and the clock is virtual (`vlib/simloop.py`). The remote ends
(server, distributed peers, the askers' peer endpoints) are scripted and record every frame they receive.

Ops (JSON lists). Tree ops are C13's: ["session"] ["lost"] ["pp",[n…]] ["in",n] ["level",c,v] ["root",c,n]
["close",c] ["minspeed",v] ["ratio",v] ["stats",n,speed] ["reset"]; names are small integers (0 = the logged-in
user, 1..4 distributed peers, 5..8 other users), connection ids are creation order. New:

  ["search", src, carrier, code, unknown, user, ticket, query]
        src = "s": the server sends ServerSearchRequest.Response(code, unknown, user, ticket, query)
        src = c  : the remote end of distributed connection c sends
                   carrier "dist"   DistributedSearchRequest.Request(unknown, user, ticket, query)
                   carrier "legacy" DistributedServerSearchRequest.Request(code, unknown, user, ticket, query)
  ["burst", [search…]]   several carriers back to back without running the loop in between
  ["fault", c, mode, search, [op…]]
        FAULTY / SLOW CHILD (monitor only, the model is atomic). The library-side socket of distributed
        connection c (a child) is made faulty, then `search` is issued and the loop run to quiescence, then each
        listed op (closes, joins) is issued and the loop run to quiescence, then the fault is lifted:
        mode "fail"  : the next write on that socket raises ConnectionResetError (FakeWriter.fail_after);
        mode "block" : drain() of that socket blocks (slow reader, full buffer) until the end of the op and then
                       returns normally — also when the socket was closed meanwhile, as asyncio's flow control
                       does (same construction as the `gate` op of props/c13.py).

  ["join", n, mode, [op…]]
        SEARCHES WHILE A CHILD IS BEING ADDED (modelled: `SOp.addBegin / addEnd` of Model/DistSearch.lean). Peer n
        connects as with ["in", n]; `_add_child` suspends in `await gather(send level, send root)`; the listed ops
        (carriers; in the blocking modes also closes / further joins) are issued while it is suspended:
        mode ["soon", d, gap] : nothing blocks. At the instant the library writes our DistributedBranchLevel to the
                       new connection (hook inside that write), d loop iterations later, the listed carriers are
                       handed to the library's sockets, `gap` iterations apart (the add is suspended for the 2–3
                       iterations `gather` needs even on an idle socket);
        mode ["block"] : drain() of the new connection blocks; the ops are issued one by one, the loop run to
                       quiescence after each; then the drain is released (returns normally);
        mode ["timeout"] : as "block", but the drain is never released: 11 virtual seconds later the library's own
                       10 s write time-out has closed the connection.
        When the peer is not admitted (no level is written) the ops are issued after the "in" has quiesced.
  ["pconn", n]  user n opens a peer ("P") connection to us (PeerInit); a later reply to n re-uses it
  ["rfault", mode, search, [op…]]
        A REPLY WRITE THAT FAILS LATE (monitor only). The first write of a PeerSearchReply towards the asking user
        of `search` — on whichever of that user's connections the library picks, an existing one or one it opens
        now — is faulty; `search` is issued, the loop run to quiescence, each listed op likewise; 11 virtual
        seconds pass for the time-out modes, the block is lifted, 15 more virtual seconds pass:
        mode "fail-before"  : write() raises ConnectionResetError, no byte accepted;
        mode "fail-mid"     : write() raises ConnectionResetError after half of the frame went out (no whole reply);
        mode "late-reset"   : the bytes are accepted and delivered, then drain() raises (reset after the flush);
        mode "timeout"      : the bytes are accepted and delivered, drain() never returns (the library's 10 s write
                              time-out raises ConnectionWriteError and closes);
        mode "slow-timeout" : the bytes are accepted but the asker reads nothing; drain() never returns; when the
                              library closes after its time-out the closing socket flushes what it had accepted;
        mode "block"        : the bytes are accepted and delivered, drain() blocks and is released later.
        What is judged is what the ASKER RECEIVED per ticket, summed over all its connections (those it opened,
        those the library opened to it, incl. any opened later for a second attempt).
  "fault" has two more modes: "late" (the child's socket accepts the bytes, then drain() raises) and "timeout"
        (drain() of that child never returns: write time-out after 10 virtual seconds).

  ["closing", victim, [trigger, hold], [op…]]
        CARRIERS HANDLED WHILE A CONNECTION IS BETWEEN ITS CLOSING AND ITS CLOSED NOTIFICATION (modelled for the trigger
        "eof": `SOp.closeBegin` of Model/DistSearch.lean … `Op.closed`). `victim` is a distributed connection id (a child,
        the parent, a candidate) or ["p", n] (the newest peer connection user n opened to us). The connection starts to
        close, the library's `disconnect()` is kept suspended between `set_state(CLOSING)` and `set_state(CLOSED)`, the
        listed ops (carriers, closes of siblings, joins) are issued one by one, the loop run to quiescence after each:
        trigger "eof"  : the remote end closes; the library's reader meets EOF and disconnects;
        trigger "werr" : the next write of the library on that socket raises (the first listed carrier sets it off);
        hold "release" : `wait_closed()` of the library-side socket blocks (unsent data for a stalled peer) and is released
                         at the end of the op;
        hold "expire"  : `wait_closed()` never returns: the library's DISCONNECT_TIMEOUT (5 s) ends the wait;
        hold "listener": an application listener of ConnectionStateChangedEvent(CLOSING) for that connection suspends
                         (the transport is not even closed yet) and is released at the end of the op.
  ["in", n, "o"] ["pconn", n, "o"] ["join", n, mode, [op…], "o"]
        THROUGH THE OBFUSCATED LISTENING PORT: the remote end sends an obfuscated PeerInit and from then on behaves as the
        protocol says for the connection type — a distributed ("D") connection is read and written in the clear, a peer
        ("P") connection stays obfuscated. Case fields `aport` ("plain" | "both" | "obf": the ports the server reports for
        the asking users) and `prefer_obf` (settings.network.peer.obfuscate) decide whether the library's own connection to
        an asker goes to its obfuscated port (obfuscated PeerInit and reply). The remote ends decode with the harness's OWN
        implementation of the obfuscation: what is judged is what a protocol-following peer can read from the bytes.

  ["creds", n]
        THE CONFIGURED LOGIN NAME CHANGES DURING THE SESSION (modelled: `SOp.credentials` of Model/DistSearch.lean, a step
        that changes nothing the handlers read): `settings.credentials.username = <name n>` — what an account switch in a
        settings dialog stores for the NEXT login. The logged-in user stays the session's (`session.user.name`): its
        searches are still neither forwarded nor answered, those of user n are passed on and answered like anybody's.
  family "parentback": THE PARENT'S USER OPENS A SECOND CONNECTION after its name has dropped out of the 20-entry
        potential-parents cache (20 further names proposed by the server): ["pp",[P]], P announces, 2 x ["pp",[10 names]],
        ["in", P] (or a "join"), carriers from the parent / the server. "Never back to the parent" is judged per USER on
        the wire: no connection of the parent's user may receive a forwarded search (`C14-forward-to-parent-user`).

After every op the loop is run to quiescence. For a search op the observation is: the DistributedSearchRequest
frames (and any other frame) each distributed remote received, the PeerSearchReply frames (and anything else)
each user's peer endpoint received, the SearchRequestReceivedEvents, any other frame the server received
(GetPeerAddress / ConnectToPeer of the reply's connection attempt excepted), and parent / children / live
connections. The canonical line is compared with the Lean model's (`Driver/C14.lean`); the model is given the
shares' answer table computed by the harness's OWN brute-force matcher over the files it created (not by the
library), so the reply's content is a differential check too. The monitor evaluates the property statement on
the implementation alone.
"""
from __future__ import annotations

import asyncio
import atexit
import os
import random
import shutil
import tempfile
from typing import Any, Optional

from vlib import common
from vlib.common import KResult, Violation, Disagreement, Property
from props.c13 import (ME, SERVER_ADDR, LISTEN_PORT, uname, unum, peer_addr, _Remote, _World, LEVELS)

FRIENDS = [1]            # settings.users.friends
BLOCKED_SEARCH = [7]     # blocked with BlockingFlag.SEARCHES
BLOCKED_OTHER = [6]      # blocked for something else (uploads): must still be answered
USERS_DIR = [2]          # users of the USERS-mode directory
SEARCH_CODE = 3


COMPOSITE = ('burst', 'fault', 'join', 'rfault', 'closing')
OBF_PORT = LISTEN_PORT + 1           # the obfuscated listening port
ASKER_PORT, ASKER_OBF_PORT = 2235, 2236
CLOSING_TRIGGERS = ('eof', 'werr')
CLOSING_HOLDS = ('release', 'expire', 'listener')
FAULT_MODES = ('fail', 'block', 'late', 'timeout')
RFAULT_MODES = ('fail-before', 'fail-mid', 'late-reset', 'timeout', 'slow-timeout', 'block')
RFAULT_NOT_ACCEPTED = ('fail-before', 'fail-mid')      # the socket did not accept the whole reply


def _flat_ops(op):
    if op[0] == 'burst':
        return list(op[1])
    if op[0] == 'fault':
        return [op[3]] + list(op[4])
    if op[0] == 'join':
        return [['in', op[1]] + (['o'] if len(op) > 4 and op[4] == 'o' else [])] + list(op[3])
    if op[0] == 'rfault':
        return [op[2]] + list(op[3])
    if op[0] == 'closing':
        return list(op[3])
    return [op]


def _via_obf(op) -> bool:
    """["in", n, "o"] / ["pconn", n, "o"]: through the obfuscated listening port"""
    return len(op) > 2 and op[2] == 'o'


def asker_addr(n: int, obf: bool = False):
    return (f'10.0.2.{n}', ASKER_OBF_PORT if obf else ASKER_PORT)


# ------------------------------------------------------------------------------------------------
# the harness's own implementation of the peer obfuscation (what a protocol-following remote end does): a message is
# preceded by a 4 byte key; every 4 byte block of the message (length header included) is XOR-ed with the key, which is
# rotated left by one bit before each block
# ------------------------------------------------------------------------------------------------

def _obf_blocks(key: int, data: bytes) -> tuple[int, bytes]:
    out = bytearray()
    for i in range(0, len(data), 4):
        key = ((key << 1) | (key >> 31)) & 0xFFFFFFFF
        kb = key.to_bytes(4, 'little')
        out += bytes(b ^ kb[j] for j, b in enumerate(data[i:i + 4]))
    return key, bytes(out)


def obfuscate(data: bytes, key: int) -> bytes:
    return key.to_bytes(4, 'little') + _obf_blocks(key, data)[1]


async def read_frame_obf(reader) -> Optional[bytes]:
    """header+body (de-obfuscated) of the next obfuscated frame, None on EOF"""
    import struct
    try:
        key = int.from_bytes(await reader.readexactly(4), 'little')
        key, hdr = _obf_blocks(key, await reader.readexactly(4))
        (n,) = struct.unpack('<I', hdr)
        _, body = _obf_blocks(key, await reader.readexactly(n))
        return hdr + body
    except (asyncio.IncompleteReadError, ConnectionError):
        return None


# ------------------------------------------------------------------------------------------------
# share layouts (real files, created once per run) and the harness's own matcher
# ------------------------------------------------------------------------------------------------

LAYOUTS: dict[int, list] = {
    0: [],
    1: [('pub', 'everyone', ['rock/rock one.mp3', 'rock/rock two.flac', 'jazz/blue one.mp3', 'live at rock.ogg'])],
    2: [('pub', 'everyone', ['rock/rock one.mp3', 'jazz/blue one.mp3', 'top two.mp3']),
        ('fr', 'friends', ['rock secret.mp3', 'jazz/secret two.mp3']),
        ('us', 'users', ['rock vault.mp3', 'live/vault one.mp3'])],
    3: [('us', 'users', ['rock vault.mp3', 'live one.mp3']),
        ('fr', 'friends', ['blue secret.mp3'])],
}
QUERIES = ['rock', 'one', 'two', 'jazz', 'secret', 'vault', 'live', 'blue', 'rock one', 'one rock', 'rock -one',
           'secret two', 'rock vault', 'ROCK', 'Blue One', 'nothing', 'rock nothing', '-rock', '', '!!!',
           '日本語', 'rock  one', 'mp3', 'flac', 'rock mp3 -two', 'x' * 300, "it's", 'ro', 'rocks']

_LAYOUT_ROOT: dict = {'path': None, 'pid': None}


def _ensure_layouts() -> str:
    if _LAYOUT_ROOT['path'] and os.path.isdir(_LAYOUT_ROOT['path']):
        return _LAYOUT_ROOT['path']
    root = os.path.realpath(tempfile.mkdtemp(prefix='c14-shares-'))
    for lid, dirs in LAYOUTS.items():
        for label, _mode, files in dirs:
            for i, f in enumerate(files):
                p = os.path.join(root, str(lid), label, f)
                os.makedirs(os.path.dirname(p), exist_ok=True)
                with open(p, 'wb') as fh:
                    fh.write(b'x' * (i + 1))
    _LAYOUT_ROOT['path'] = root
    _LAYOUT_ROOT['pid'] = os.getpid()

    def cleanup(path=root, pid=os.getpid()):
        if os.getpid() == pid:
            shutil.rmtree(path, ignore_errors=True)
    atexit.register(cleanup)
    return root


def _words(s: str) -> list[str]:
    out, cur = [], ''
    for ch in s.lower():
        if ch.isalnum():
            cur += ch
        else:
            if cur:
                out.append(cur)
            cur = ''
    if cur:
        out.append(cur)
    return out


def _locked_for(mode: str, user: int) -> bool:
    if mode == 'friends':
        return user not in FRIENDS
    if mode == 'users':
        return user not in USERS_DIR
    return False


def _expected(layout: int, user: int, query: str) -> tuple[list[str], list[str]]:
    """The harness's own statement of "the files of the shares that match the query, split into visible and
    locked for the asking user" (C07/C08 semantics on this plain vocabulary: every include term occurs as a
    word of subdir/filename, no exclude term does; a query without include terms matches nothing)."""
    inc, exc = [], []
    for t in query.split():
        if not any(ch.isalnum() for ch in t):
            continue
        if t.startswith('*'):
            raise ValueError('wildcards are not generated')
        (exc if t.startswith('-') else inc).append(t.lower()[1:] if t.startswith('-') else t.lower())
    vis, lck = [], []
    if not inc:
        return vis, lck
    for label, mode, files in LAYOUTS[layout]:
        for f in files:
            ws = _words(f)
            # a term may itself contain separators ("it's"): all its word parts must be words of the path
            if all(all(p in ws for p in _words(t)) and _term_in(t, f) for t in inc) and \
                    not any(_term_in(t, f) for t in exc):
                (lck if _locked_for(mode, user) else vis).append(f'{label}/{f}')
    return sorted(vis), sorted(lck)


def _term_in(term: str, path: str) -> bool:
    """term occurs in path delimited by non-alphanumerics (what `\\b`-like matching means on this vocabulary)"""
    p = path.lower()
    i = p.find(term)
    while i >= 0:
        a = i == 0 or not p[i - 1].isalnum()
        b = i + len(term) == len(p) or not p[i + len(term)].isalnum()
        if a and b:
            return True
        i = p.find(term, i + 1)
    return False


def _hx(s: str) -> str:
    return s.encode('utf-8').hex() or '-'


# ------------------------------------------------------------------------------------------------
# Implementation side
# ------------------------------------------------------------------------------------------------

class _Asker:
    """Peer endpoints of one user (where a reply to that user has to arrive): every connection the library opens to
    the user's address and every connection the user opened to us ("pconn") is read here; `frames` is what the user
    received over ALL of them."""

    def __init__(self, n: int, closes: bool):
        self.n = n
        self.closes = closes
        self.inits: list = []
        self.frames: list = []
        self.frame_conn: list = []      # per frame: index of the connection it arrived on
        self.conn_obf: list = []        # per connection: obfuscated (it goes through an obfuscated port)
        self.nconn = 0

    async def handler(self, reader, writer):
        await self.serve(reader, writer, True)

    async def handler_obf(self, reader, writer):
        await self.serve(reader, writer, True, obf=True)

    async def serve(self, reader, writer, expect_init: bool, obf: bool = False):
        """a peer ("P") connection: every message on a connection through an obfuscated port is obfuscated"""
        from vlib.simserver import read_frame
        from aioslsk.protocol import messages as m
        idx = self.nconn
        self.nconn += 1
        self.conn_obf.append(obf)
        first = expect_init
        while True:
            frame = await (read_frame_obf(reader) if obf else read_frame(reader))
            if frame is None:
                return
            if first:
                first = False
                try:
                    self.inits.append(m.PeerInitializationMessage.deserialize_request(frame))
                    continue
                except Exception:
                    pass
            try:
                msg = m.PeerMessage.deserialize_request(frame)
            except Exception:
                msg = ('undecodable', frame)
            self.frames.append(msg)
            self.frame_conn.append(idx)
            if self.closes and isinstance(msg, m.PeerSearchReply.Request) and not reader._buffer:
                writer.close()          # what a real client does after reading the reply (all it was sent so far)
                return


class _UploadInfo:
    def has_slots_free(self):
        return True

    def get_average_upload_speed(self):
        return 1000.0

    def get_queue_size(self):
        return 2


async def _scenario(loop, case: dict):
    from vlib.simloop import settle, advance
    from vlib.fakenet import FakeNet, Endpoint
    from vlib.simserver import SimServer
    from aioslsk.settings import Settings
    from aioslsk.events import (EventBus, SessionInitializedEvent, SessionDestroyedEvent,
                                ConnectionStateChangedEvent, SearchRequestReceivedEvent)
    from aioslsk.network.network import Network
    from aioslsk.network.connection import ConnectionState, ServerConnection, PeerConnectionType
    from aioslsk.distributed import DistributedNetwork
    from aioslsk.search.manager import SearchManager
    from aioslsk.shares.manager import SharesManager
    from aioslsk.shares.model import DirectoryShareMode
    from aioslsk.user.model import BlockingFlag
    import aioslsk.shares.manager as shm
    from aioslsk.session import Session
    from aioslsk.user.model import User
    from aioslsk.protocol import messages as m
    from aioslsk.protocol.primitives import PotentialParent, UserStats

    shm.extract_attributes = lambda filepath: []       # audio attributes (mutagen) are not part of C14
    root = _ensure_layouts()
    layout = case.get('layout', 1)
    w = _World()
    fn = FakeNet().install()
    try:
        server = SimServer()

        def on_request(srv, writer, msg):
            if isinstance(msg, m.GetPeerAddress.Request):
                n = unum(msg.username)
                if isinstance(n, int):
                    ip, port = asker_addr(n)
                    aport = case.get('aport', 'plain')
                    writer.write(m.GetPeerAddress.Response(
                        msg.username, ip, 0 if aport == 'obf' else port,
                        0 if aport == 'plain' else 1, 0 if aport == 'plain' else ASKER_OBF_PORT).serialize())
        server.on_request = on_request
        fn.endpoints[SERVER_ADDR] = Endpoint('accept', server.handler)
        blocked = {uname(n): BlockingFlag.SEARCHES for n in BLOCKED_SEARCH}
        blocked.update({uname(n): BlockingFlag.UPLOADS for n in BLOCKED_OTHER})
        settings = Settings(
            credentials={'username': uname(ME), 'password': 'pw'},
            network={'server': {'hostname': SERVER_ADDR[0], 'port': SERVER_ADDR[1]},
                     'listening': {'port': LISTEN_PORT, 'obfuscated_port': OBF_PORT},
                     'peer': {'obfuscate': bool(case.get('prefer_obf', False))},
                     'upnp': {'enabled': False}},
            users={'friends': {uname(n) for n in FRIENDS}, 'blocked': blocked})
        bus = EventBus()
        net = Network(settings, bus)
        dn = DistributedNetwork(settings, bus, net)
        shares = SharesManager(settings, bus, net)
        alias_label = {}
        for label, mode, _files in LAYOUTS[layout]:
            d = shares.add_shared_directory(
                os.path.join(root, str(layout), label), share_mode=DirectoryShareMode(mode),
                users=[uname(n) for n in USERS_DIR] if mode == 'users' else None)
            alias_label[d.alias] = label
        await shares.scan()
        sm = SearchManager(settings, bus, shares, _UploadInfo(), net)
        w.keep += [dn, shares, sm]
        state = {'session': None}
        events: list = []

        async def client_like(event: ConnectionStateChangedEvent):
            if isinstance(event.connection, ServerConnection) and event.state == ConnectionState.CLOSED:
                if state['session'] is not None:
                    ev = SessionDestroyedEvent(state['session'])
                    state['session'] = None
                    await bus.emit(ev)

        async def on_received(event: SearchRequestReceivedEvent):
            events.append((unum(event.username), event.query, event.result_count))
        w.keep += [client_like, on_received]
        bus.register(ConnectionStateChangedEvent, client_like)
        bus.register(SearchRequestReceivedEvent, on_received)

        def make_out_handler(n):
            async def handler(reader, writer):
                r = _Remote(len(w.remotes), n, True)
                r.reader, r.writer = reader, writer
                w.remotes.append(r)
                r.task = asyncio.ensure_future(r.pump())
            return handler
        askers = {}
        asker_of_addr = {}
        for n in range(0, 9):
            if n:
                fn.endpoints[peer_addr(n)] = Endpoint('accept', make_out_handler(n))
            askers[n] = _Asker(n, bool(case.get('asker_closes', True)))
            fn.endpoints[asker_addr(n)] = Endpoint('accept', askers[n].handler)
            fn.endpoints[asker_addr(n, True)] = Endpoint('accept', askers[n].handler_obf)
            asker_of_addr[asker_addr(n)] = n
            asker_of_addr[asker_addr(n, True)] = n

        # ---- observation points on the library-side sockets -------------------------------------------------
        # logical clock: orders "the library began to write our branch level to connection c" against "the bytes of
        # carrier X were handed to the library's socket"
        clock = {'t': 0}

        def now() -> int:
            clock['t'] += 1
            return clock['t']
        told_at: dict = {}       # cid (incoming distributed connection) -> time of the first DistributedBranchLevel
        triggers: dict = {}      # cid -> callback fired inside that first write ("join", mode soon)

        def watch_dist_writer(lw, cid):
            def on_write(data):
                if cid in told_at:
                    return
                try:
                    msg = m.DistributedMessage.deserialize_request(bytes(data))
                except Exception:
                    return
                if isinstance(msg, m.DistributedBranchLevel.Request):
                    told_at[cid] = now()
                    trig = triggers.pop(cid, None)
                    if trig is not None:
                        trig()
            lw.on_write = on_write

        def reply_ticket(data):
            """ticket of the PeerSearchReply these bytes are, None for anything else"""
            data = bytes(data)
            forms = [data]
            if len(data) >= 8:             # a peer connection through an obfuscated port: key + obfuscated frame
                forms.append(_obf_blocks(int.from_bytes(data[:4], 'little'), data[4:])[1])
            for form in forms:
                try:
                    msg = m.PeerMessage.deserialize_request(form)
                except Exception:
                    continue
                if isinstance(msg, m.PeerSearchReply.Request):
                    return msg.ticket
            return None

        def watch_peer_writer(lw, n):
            """library-side socket of a peer connection with user n: the armed reply fault (op "rfault") strikes the
            first PeerSearchReply written towards that user, whichever connection carries it"""
            orig_write = lw.write

            def write(data):
                f = state.get('reply_fault')
                if f is None or not f['armed'] or f['user'] != n:
                    return orig_write(data)
                ticket = reply_ticket(data)
                if ticket is None:
                    return orig_write(data)
                f['armed'] = False
                f['hit'] = ticket              # the reply (to the carrier with this ticket) that met the faulty socket
                mode = f['mode']
                if mode == 'fail-before':
                    lw.reset()
                    raise ConnectionResetError('scripted reset: no byte accepted')
                if mode == 'fail-mid':
                    lw.fail_after = len(lw.sent) + len(data) // 2     # half a frame goes out, then the reset
                    return orig_write(data)
                if mode == 'slow-timeout':
                    lw.hold = True             # accepted, not read by the asker; FakeWriter.close() flushes it
                orig_write(data)
                if mode == 'late-reset':
                    async def drain():
                        await asyncio.sleep(0)
                        lw.close()
                        raise ConnectionResetError('scripted reset after the bytes were flushed')
                else:
                    async def drain(ev=f['gate']):
                        await ev.wait()
                lw.drain = drain
                f['writer'] = lw
            lw.write = write

        orig_make_pair = fn.make_pair

        def make_pair(remote_addr):
            res = orig_make_pair(remote_addr)
            n = asker_of_addr.get(tuple(remote_addr))
            if n is not None:
                watch_peer_writer(res[1], n)
            return res
        fn.make_pair = make_pair

        await net.connect_listening_ports()
        await settle()

        def bind_lib_conns():
            for r in w.remotes:
                if r.lib_conn is None:
                    for pc in list(net.peer_connections) + [p.connection for p in dn.distributed_peers]:
                        if pc._writer is not None and pc._writer is r.writer.peer:
                            r.lib_conn = pc
                            break

        def remote_open(r: _Remote) -> bool:
            return not r.writer._closed and not r.writer.peer._closed

        def server_up() -> bool:
            return (net.server_connection.state == ConnectionState.CONNECTED and bool(server.sessions)
                    and not server.sessions[-1][1]._closed)

        def tree():
            bind_lib_conns()
            cid_of = {id(r.lib_conn): r.cid for r in w.remotes if r.lib_conn is not None}

            def cid(peer):
                return cid_of.get(id(peer.connection), f'?{peer.username}')
            return {'parent': None if dn.parent is None else cid(dn.parent),
                    'children': [cid(p) for p in dn.children],
                    'live': [cid(p) for p in dn.distributed_peers],
                    'open': [r.cid for r in w.remotes if remote_open(r)],
                    'incoming': [r.cid for r in w.remotes if not r.requested],
                    'told_at': dict(told_at),
                    'names': {r.cid: r.name for r in w.remotes},
                    'via_obf': [r.cid for r in w.remotes if getattr(r, 'via_obf', False)],
                    # bytes a protocol-following remote end could not consume as frames (it waits for the rest of a
                    # "message" whose length field is noise)
                    'unread': {r.cid: len(r.reader._buffer) for r in w.remotes
                               if remote_open(r) and len(r.reader._buffer)},
                    'session': state['session'] is not None,
                    'configured': unum(settings.credentials.username),
                    'dn_session': dn._session is not None, 'sm_session': sm._session is not None}

        def marks():
            return ([len(r.frames) for r in w.remotes], {n: len(a.frames) for n, a in askers.items()},
                    len(events), len(server.received))

        def file_key(fd) -> str:
            # '@@<alias>\\sub\\file' -> '<label>/sub/file'
            parts = fd.filename.split('\\')
            label = alias_label.get(parts[0][2:], f'?{parts[0]}')
            return '/'.join([label] + parts[1:])

        def delta(mk, tell_from):
            rf, af, ne, ns = mk
            fwd, other = {}, {}
            for r in w.remotes:
                new = r.frames[rf[r.cid] if r.cid < len(rf) else 0:]
                for f in new:
                    if isinstance(f, m.DistributedSearchRequest.Request):
                        fwd.setdefault(r.cid, []).append([f.unknown, unum(f.username), f.ticket, f.query])
                    elif not (r.cid >= tell_from and isinstance(f, (m.DistributedBranchLevel.Request,
                                                                     m.DistributedBranchRoot.Request))):
                        # (a connection that joins during the op is told our level / root: C13's business)
                        other[r.cid] = other.get(r.cid, 0) + 1
            replies, pother = [], {}
            for n, a in askers.items():
                for i in range(af[n], len(a.frames)):
                    f = a.frames[i]
                    if isinstance(f, m.PeerSearchReply.Request):
                        replies.append({'to': n, 'ticket': f.ticket, 'username': unum(f.username),
                                        'visible': sorted(file_key(x) for x in f.results),
                                        'locked': sorted(file_key(x) for x in (f.locked_results or [])),
                                        'conn': a.frame_conn[i], 'obf': a.conn_obf[a.frame_conn[i]]})
                    else:
                        pother[n] = pother.get(n, 0) + 1
            srv = [type(x).__qualname__ if not isinstance(x, tuple) else 'undecodable'
                   for x in server.received[ns:]
                   if not isinstance(x, (m.GetPeerAddress.Request, m.ConnectToPeer.Request))]
            return {'fwd': fwd, 'other': other, 'replies': replies, 'pother': pother,
                    'events': [list(e) for e in events[ne:]], 'srv': srv}

        inj: list = []           # per issued search sub-op of the current op: logical time (None: not issued)

        def issue_sync(op) -> str:
            """the ops that only hand bytes to a socket (no await): may also be issued from inside a library write"""
            k = op[0]
            if k == 'lost':
                if state['session'] is None or not server_up():
                    return 'no-server'
                server.close()
                return 'ok'
            if k in ('pp', 'minspeed', 'ratio', 'stats', 'reset'):
                if state['session'] is None or not server_up():
                    return 'no-server'
                if k == 'pp':
                    msg = m.PotentialParents.Response(
                        [PotentialParent(uname(n), peer_addr(n)[0], peer_addr(n)[1]) for n in op[1]])
                elif k == 'minspeed':
                    msg = m.ParentMinSpeed.Response(op[1])
                elif k == 'ratio':
                    msg = m.ParentSpeedRatio.Response(op[1])
                elif k == 'stats':
                    msg = m.GetUserStats.Response(uname(op[1]), UserStats(op[2], 1, 1, 1))
                else:
                    msg = m.ResetDistributed.Response()
                server.send(msg)
                return 'ok'
            if k in ('level', 'root', 'close'):
                c = op[1]
                if not isinstance(c, int) or c < 0 or c >= len(w.remotes) or not remote_open(w.remotes[c]):
                    return 'no-conn'
                r = w.remotes[c]
                if k == 'level':
                    r.writer.write(m.DistributedBranchLevel.Request(op[2]).serialize())
                elif k == 'root':
                    r.writer.write(m.DistributedBranchRoot.Request(uname(op[2])).serialize())
                else:
                    r.writer.close()
                return 'ok'
            if k == 'search':
                st = issue_search(op)
                inj.append(now() if st == 'ok' else None)
                return st
            if k == 'creds':
                # configuration for the NEXT login (pydantic model, validate_assignment): the session is not touched
                settings.credentials.username = uname(op[1])
                return 'ok'
            raise ValueError(f'unknown op {op!r}')

        def issue_search(op) -> str:
            _, src, carrier, code, unk, user, ticket, query = op
            if src == 's':
                if carrier != 'server':
                    return 'bad-op'
                if state['session'] is None or not server_up():
                    return 'no-server'
                server.send(m.ServerSearchRequest.Response(code, unk, uname(user), ticket, query))
                return 'ok'
            if carrier not in ('dist', 'legacy'):
                return 'bad-op'
            if not isinstance(src, int) or src < 0 or src >= len(w.remotes) or not remote_open(w.remotes[src]):
                return 'no-conn'
            r = w.remotes[src]
            if carrier == 'dist':
                msg = m.DistributedSearchRequest.Request(unk, uname(user), ticket, query)
            else:
                msg = m.DistributedServerSearchRequest.Request(code, unk, uname(user), ticket, query)
            r.writer.write(msg.serialize())
            return 'ok'

        async def issue(op) -> str:
            k = op[0]
            if k == 'session':
                if state['session'] is not None:
                    return 'already'
                if net.server_connection.state != ConnectionState.CONNECTED:
                    await net.connect_server()
                sess = Session(user=User(name=uname(ME)), ip_address='1.2.3.4', greeting='',
                               client_version=157, minor_version=100)
                state['session'] = sess
                await bus.emit(SessionInitializedEvent(session=sess, raw_message=None))
                net.server_connection.start_reader_task()
                return 'ok'
            if k == 'in':
                n = op[1]
                obf = _via_obf(op)
                rd, wr = await fn.connect_in(OBF_PORT if obf else LISTEN_PORT,
                                             remote_addr=(peer_addr(n)[0], 40000 + len(w.remotes)))
                watch_dist_writer(wr.peer, len(w.remotes))      # wr.peer = the library-side socket of this pair
                if state.get('gate_next_in') is not None:
                    state['gate_next_in'](wr.peer)
                    state['gate_next_in'] = None
                r = _Remote(len(w.remotes), n, False)
                r.via_obf = obf
                r.reader, r.writer = rd, wr
                w.remotes.append(r)
                r.task = asyncio.ensure_future(r.pump())
                init = m.PeerInit.Request(uname(n), PeerConnectionType.DISTRIBUTED, 0).serialize()
                # through the obfuscated port only the PeerInit is obfuscated: a distributed connection is read (`pump`)
                # and written in the clear from then on
                wr.write(obfuscate(init, 0x9E3779B9 ^ (r.cid * 0x01000193)) if obf else init)
                return 'ok'
            if k == 'pconn':
                n = op[1]
                obf = _via_obf(op)
                a = askers[n]
                rd, wr = await fn.connect_in(OBF_PORT if obf else LISTEN_PORT,
                                             remote_addr=(asker_addr(n)[0], 41000 + len(fn.pairs)))
                watch_peer_writer(wr.peer, n)
                w.keep.append(asyncio.ensure_future(a.serve(rd, wr, False, obf=obf)))
                state.setdefault('pconns', {}).setdefault(n, []).append(wr)
                init = m.PeerInit.Request(uname(n), PeerConnectionType.PEER, 0).serialize()
                wr.write(obfuscate(init, 0x85EBCA6B ^ (len(fn.pairs) * 0x01000193)) if obf else init)
                return 'ok'
            return issue_sync(op)

        def gated(lw):
            """drain() of this library-side socket blocks until the event is set, then returns normally — also when
            the socket was closed cleanly meanwhile, as asyncio's flow control does (FlowControlMixin.connection_lost
            with no exception wakes the drain waiter with a result; same construction as the `gate` op of props/c13.py)"""
            ev = asyncio.Event()

            async def gated_drain(ev=ev):
                await ev.wait()
            lw.drain = gated_drain
            return (lw, ev)

        def ungate(gate):
            if gate is not None:
                gate[1].set()
                try:
                    del gate[0].drain
                except AttributeError:
                    pass

        def defer(k: int, fn_):
            if k <= 0:
                fn_()
            else:
                loop.call_soon(defer, k - 1, fn_)

        trace = []
        for op in case['ops']:
            before = tree()
            mk = marks()
            del inj[:]
            extra = {}
            if op[0] == 'burst':
                status = 'burst:' + ','.join([await issue(sub) for sub in op[1]])
            elif op[0] == 'fault':
                _, victim, mode, sop, during = op
                sts, gate = [], None
                ok_v = (isinstance(victim, int) and 0 <= victim < len(w.remotes)
                        and remote_open(w.remotes[victim]) and mode in FAULT_MODES)
                if ok_v:
                    lw = w.remotes[victim].writer.peer        # the library-side writer of that connection
                    if mode == 'fail':
                        lw.fail_after = len(lw.sent)
                    elif mode == 'late':
                        async def late_drain(lw=lw):
                            await asyncio.sleep(0)
                            lw.close()
                            raise ConnectionResetError('scripted reset after the bytes were flushed')
                        lw.drain = late_drain
                        gate = (lw, asyncio.Event())
                    else:
                        gate = gated(lw)
                try:
                    sts.append(await issue(sop))
                    await settle()
                    for sub in during:
                        sts.append(await issue(sub))
                        await settle()
                    if ok_v and mode == 'timeout':
                        await advance(11.0)                   # the library's write time-out (10 s) strikes
                finally:
                    ungate(gate)
                status = 'fault:' + ','.join(sts) + ('' if ok_v else ':nofault')
            elif op[0] == 'join':
                _, n, mode, during = op[:4]
                in_op = _flat_ops(op)[0]               # ["in", n] or ["in", n, "o"]
                newc = len(w.remotes)
                pending = list(during)
                sts, gate = [], []
                if mode[0] == 'soon':
                    def fire(d=int(mode[1]), gap=int(mode[2])):
                        # called from inside the library's write of our branch level to the new connection
                        def run_next():
                            if pending:
                                sts.append(issue_sync(pending.pop(0)))
                                if pending:
                                    defer(gap, run_next)
                        defer(d, run_next)
                    triggers[newc] = fire
                elif mode[0] in ('block', 'timeout'):
                    state['gate_next_in'] = lambda lw: gate.append(gated(lw))
                else:
                    raise ValueError(f'unknown join mode {mode!r}')
                try:
                    first = await issue(in_op)
                    await settle()
                    triggers.pop(newc, None)
                    while pending:                 # blocking modes; or nothing was written to the new connection
                        sts.append(await issue(pending.pop(0)))
                        if mode[0] != 'soon':
                            await settle()
                    if mode[0] == 'timeout':
                        await advance(11.0)
                finally:
                    state['gate_next_in'] = None
                    triggers.pop(newc, None)
                    for g in gate:
                        ungate(g)
                extra['joined'] = newc
                status = 'join:' + ','.join([first] + sts)
            elif op[0] == 'rfault':
                _, mode, sop, during = op
                if mode not in RFAULT_MODES:
                    raise ValueError(f'unknown rfault mode {mode!r}')
                f = {'user': sop[5], 'mode': mode, 'armed': True, 'hit': None, 'gate': asyncio.Event(),
                     'writer': None}
                state['reply_fault'] = f
                sts = []
                try:
                    sts.append(await issue(sop))
                    await settle()
                    for sub in during:
                        sts.append(await issue(sub))
                        await settle()
                    if mode in ('timeout', 'slow-timeout'):
                        await advance(11.0)
                finally:
                    f['armed'] = False
                    f['gate'].set()
                    state['reply_fault'] = None
                await settle()
                await advance(15.0)                # a second attempt made a little later is seen too
                extra['fault_hit'] = f['hit']
                status = 'rfault:' + ','.join(sts)
            elif op[0] == 'closing':
                _, victim, mode, during = op
                trigger, hold = mode
                if trigger not in CLOSING_TRIGGERS or hold not in CLOSING_HOLDS:
                    raise ValueError(f'unknown closing mode {mode!r}')
                rw = None                              # the remote end's socket of the victim connection
                if isinstance(victim, int):
                    if 0 <= victim < len(w.remotes) and remote_open(w.remotes[victim]):
                        rw = w.remotes[victim].writer
                elif isinstance(victim, list) and len(victim) == 2 and victim[0] == 'p':
                    mine = [x for x in state.get('pconns', {}).get(victim[1], []) if not x._closed and not x.peer._closed]
                    if mine and trigger == 'eof':
                        rw = mine[-1]
                else:
                    raise ValueError(f'bad closing victim {victim!r}')
                lib_conn = None
                if rw is not None:
                    lib_conn = next((pc for pc in list(net.peer_connections) + [p.connection for p in dn.distributed_peers]
                                     if pc._writer is rw.peer), None)
                    if lib_conn is None or lib_conn.state != ConnectionState.CONNECTED:
                        rw = lib_conn = None
                sts, seen, release = [], [], asyncio.Event()
                extra['first_new'] = len(w.remotes)
                try:
                    if rw is not None:
                        lw = rw.peer
                        if hold == 'listener':
                            async def closing_listener(event: ConnectionStateChangedEvent, conn=lib_conn, ev=release):
                                if event.connection is conn and event.state == ConnectionState.CLOSING:
                                    await ev.wait()
                            w.keep.append(closing_listener)
                            bus.register(ConnectionStateChangedEvent, closing_listener)
                        else:
                            async def held_wait_closed(ev=release):
                                await ev.wait()          # unsent data for a stalled peer: the transport is not gone yet
                            lw.wait_closed = held_wait_closed
                        if trigger == 'eof':
                            rw.close()
                            await settle()
                        else:
                            lw.fail_after = len(lw.sent)
                    for sub in during:
                        seen.append(lib_conn is not None and lib_conn.state == ConnectionState.CLOSING)
                        sts.append(await issue(sub))
                        await settle()
                    extra['closing_open_at_end'] = lib_conn is not None and lib_conn.state == ConnectionState.CLOSING
                    if rw is not None and hold == 'expire':
                        await advance(6.0)               # DISCONNECT_TIMEOUT (5 s) ends the wait for the transport
                finally:
                    release.set()
                    if rw is not None and trigger == 'werr' and not rw.peer._closed:
                        rw.peer.fail_after = None        # no write met the faulty socket: the fault is lifted
                # the parent going away: `_unset_parent` announces our new position to the server and to the children when
                # CLOSED is reported (C13's business, not "another frame written because of the carrier")
                extra['closing_parent'] = isinstance(victim, int) and victim == before['parent']
                extra['closing_seen'] = seen
                extra['closing_victim'] = None if lib_conn is None else lib_conn.connection_type
                status = 'closing:' + ','.join(sts) + ('' if rw is not None else ':novictim')
            else:
                status = await issue(op)
            await settle()
            snap = tree()
            snap['status'] = status
            snap['before'] = before
            mk = (mk[0] + [0] * (len(w.remotes) - len(mk[0])), mk[1], mk[2], mk[3])
            snap.update(delta(mk, extra.get('joined', extra.get('first_new', len(w.remotes)))))
            snap.update(extra)
            snap['inj'] = list(inj)
            snap['is_search'] = any(o[0] == 'search' for o in _flat_ops(op))
            snap['exceptions'] = len(loop.exceptions)
            snap['reply_tasks'] = len(sm._search_reply_tasks)
            trace.append(snap)
        for r in w.remotes:
            if r.task:
                r.task.cancel()
        try:
            for t in sm._search_reply_tasks:
                t.cancel()
            await net.disconnect()
        except Exception:
            pass
        return trace
    finally:
        fn.uninstall()


def _run_impl(case: dict) -> list:
    from vlib import simloop
    import logging
    logging.disable(logging.CRITICAL)
    trace, _loop = simloop.run(_scenario, case, wall_timeout=60.0)
    return trace


def _lst(items, sep) -> str:
    items = list(items)
    return sep.join(items) if items else '-'


def _canon(s: dict) -> str:
    """Canonical observation line; MUST match `Driver/C14.lean` `render` (after `_canon_model`)."""
    f = sorted((c, fr) for c, frs in s['fwd'].items() for fr in frs)
    fs = [f'{c}:{fr[0]}:{fr[1]}:{fr[2]}:{_hx(fr[3])}' for c, fr in
          sorted(f, key=lambda x: (str(x[0]), str(x[1])))]
    rs = sorted(f"{r['to']}:{r['ticket']}:{r['username']}:{_lst(map(_hx, r['visible']), ',')}:"
                f"{_lst(map(_hx, r['locked']), ',')}" for r in s['replies'])
    es = sorted(f'{e[0]}:{_hx(e[1])}:{e[2]}' for e in s['events'])
    st = s['status'].split(':')[0] if s['status'].startswith(COMPOSITE) else s['status']
    extra = ''
    if s['is_search'] and not s.get('closing_parent') and (s['other'] or s['pother'] or s['srv']):
        extra = f" X={sorted(s['other'].items())}{sorted(s['pother'].items())}{s['srv']}"
    p = '-' if s['parent'] is None else str(s['parent'])
    return (f"{st} F={_lst(sorted(fs), ';')} R={_lst(rs, ';')} E={_lst(es, ';')} P={p} "
            f"C={_lst(map(str, s['children']), ',')} L={_lst(map(str, s['live']), ',')}{extra}")


def _parse_model(line: str) -> dict:
    parts = line.split(' ')
    d = {'status': parts[0]}
    for p in parts[1:]:
        k, _, v = p.partition('=')
        d[k] = [] if v == '-' else v.split(';' if k in 'FRE' else ',')
    return d


def _canon_model(lines: list[str], kind: Optional[str] = None) -> str:
    """One model line, or the merge of the lines of a composite op (outputs united, state of the last one)."""
    ds = [_parse_model(l) for l in lines]
    last = ds[-1]
    st = kind if kind in COMPOSITE else last['status']
    f = sorted(x for d in ds for x in d.get('F', []))
    r = sorted(x for d in ds for x in d.get('R', []))
    e = sorted(x for d in ds for x in d.get('E', []))
    return (f"{st} F={_lst(f, ';')} R={_lst(r, ';')} E={_lst(e, ';')} P={_lst(last.get('P', []), ',')} "
            f"C={_lst(last.get('C', []), ',')} L={_lst(last.get('L', []), ',')}")


# ------------------------------------------------------------------------------------------------
# Monitor: the property statement on the implementation trace (independent of the model)
# ------------------------------------------------------------------------------------------------

def _sub_multiset(small: list, big: list) -> list:
    """the elements of `small` that `big` does not cover (multiset difference small − big)"""
    rest, out = list(big), []
    for x in small:
        if x in rest:
            rest.remove(x)
        else:
            out.append(x)
    return out


def _monitor(case: dict, trace: list) -> list[Violation]:
    """The property statement, evaluated on what the remote ends RECEIVED.

    CURRENT CHILD, observably. The library makes an incoming distributed connection its child by writing our
    DistributedBranchLevel to it, and it writes branch levels to nobody but children (`_add_child`,
    `_notify_children_of_branch_values`). Reading used here: connection c is a current child for carrier X when
      (1) c is an incoming (not requested by us) distributed connection,
      (2) the library had BEGUN to write a DistributedBranchLevel to c before the bytes of X were handed to the library's
          socket (logical clock of the harness: `told_at[c] < inj[X]`) — so X is *handled* after that send began, whether
          the send has completed, is still suspended in drain(), or completes 1–2 loop iterations later —, and
      (3) c is open at both ends when the op has quiesced (a connection that closes meanwhile, by either side or by the
          library's own write time-out, is exempt: a carrier handled around a close may or may not still be written).
    Every such c must receive X exactly once. This does not flag the unchanged tree: `children.append` precedes the level
    write in `_add_child`, and an entry leaves `children` only through the CLOSED event of its connection
    (theorems `C14_told_is_child`, `C14_child_until_closed`, `C14_adding_served` state this for the model).
    In addition (as before) the connections the library itself lists as children before the op are required — for
    composite ops with faults / membership changes only those that are still listed and open at the end.
    Nobody may receive a carrier more often than it was sent to us, nor with other user / ticket / query.
    RECEIVED means: decoded by a remote end that follows the protocol for its connection (a distributed connection is read in
    the clear after the PeerInit also when it came through the obfuscated listening port; a peer connection through an
    obfuscated port is read obfuscated) — a message object queued by the library, or bytes the remote end cannot read, are no
    delivery.

    REPLIES are counted at the asking user over ALL of its connections: per carrier with matches exactly one (when the first
    write of the reply was not accepted whole by the socket — "rfault fail-before / fail-mid" — none or one), and over the whole
    history never more replies per (user, ticket) than carriers issued for it."""
    vs: list[Violation] = []
    layout = case.get('layout', 1)

    def add(sig, what, k, observed=None, required=None):
        cfg = trace[k].get('before', {}).get('configured', ME)
        if cfg != ME:
            what += (f' [the configured login name (settings.credentials.username) is user {cfg} since a "creds" op; the '
                     f'logged-in user is the session\'s, user {ME}]')
        vs.append(Violation(sig, f'after op #{k} {case["ops"][k]}: {what}', case, observed=observed,
                            required=required))

    issued: dict = {}         # (user, ticket) -> carriers handed to the library so far
    received: dict = {}       # (user, ticket) -> replies that user received so far (any connection, any op)
    flagged: set = set()

    for k, (op, s) in enumerate(zip(case['ops'], trace)):
        subs = _flat_ops(op)
        composite = s['status'].startswith(COMPOSITE)
        statuses = s['status'].split(':')[1].split(',') if composite else [s['status']]
        inj = s.get('inj') or []
        reqs_t, j = [], 0
        for o, st in zip(subs, statuses):
            if o[0] == 'search':
                t = inj[j] if j < len(inj) else None
                j += 1
                if st == 'ok':
                    reqs_t.append((o, t))
                    issued[(o[5], o[6])] = issued.get((o[5], o[6]), 0) + 1
        # --- whole history: a user never receives more replies for a ticket than carriers were issued for it
        #     (replies that arrive late, during an op that carries no search, are counted here too)
        for r in s['replies']:
            key = (r['to'], r['ticket'])
            received[key] = received.get(key, 0) + 1
            if r['to'] in BLOCKED_SEARCH or r['to'] == ME or key in flagged:
                continue
            if received[key] > issued.get(key, 0):
                flagged.add(key)
                add('C14-reply-duplicate', f'user {r["to"]} has received {received[key]} search replies with ticket '
                    f'{r["ticket"]} (over all of its connections) for {issued.get(key, 0)} carrier(s) with that ticket',
                    k, observed=[x for x in s['replies'] if (x['to'], x['ticket']) == key],
                    required='at most one reply per carrier')
        if not reqs_t:
            continue
        reqs = [o for o, _t in reqs_t]
        b = s['before']
        parent = b['parent']
        logged_in = b['session'] and b['dn_session'] and b['sm_session']
        kids_b, kids_a = list(b['children']), list(s['children'])
        incoming, told, open_end = set(s.get('incoming', [])), s.get('told_at', {}), set(s['open'])
        if op[0] in ('fault', 'join', 'rfault', 'closing'):
            # membership changes / faults while the carrier is being passed on: of the connections the library lists
            # as children, those are required that were listed when the op began AND still are at the end, open (a
            # child whose own write failed or that was closed meanwhile — the victim of a "closing" op — is exempt)
            listed = [c for c in kids_b if c in kids_a and c in open_end and c in b['open']]
        else:
            listed = [c for c in kids_b if c in b['open']]

        def observed_children(t):
            return [c for c in incoming if t is not None and c in told and told[c] < t and c in open_end]
        allowed = set(kids_b) | set(kids_a) | {c for c in incoming if c in told}
        # --- to no other connection: a forwarded search is only ever received by a current child
        for c, frs in s['fwd'].items():
            if c not in allowed:
                role = 'the parent' if c == parent else ('a closed/unregistered connection' if c not in b['live']
                                                         else 'a candidate / other distributed connection')
                add('C14-forward-to-non-child', f'connection {c} ({role}) received {len(frs)} forwarded search '
                    f'request(s); children are {sorted(allowed, key=str)}', k, observed=frs)
        # --- never back to the parent, judged per USER on the wire: while connection `parent` is our parent (before and
        #     after the op: the same connection throughout), no OTHER connection of the parent's user receives a forwarded
        #     search either — the library refuses the parent's user as a child (`_check_if_new_child`) and a child's user
        #     as parent (`_check_if_new_parent`), whatever the potential-parents cache still remembers
        names = s.get('names', {})
        if parent is not None and s['parent'] == parent and names.get(parent) is not None:
            for c, frs in s['fwd'].items():
                if c != parent and c in allowed and names.get(c) == names[parent]:
                    add('C14-forward-to-parent-user', f'connection {c}, another connection of user {names[c]} whose '
                        f'connection {parent} is our parent, received {len(frs)} forwarded search request(s): the searches '
                        f'go back to the parent (children listed by the library: {kids_a})', k, observed=frs,
                        required='nothing to any connection of the parent\'s user')
        own = [r for r in reqs if r[5] == ME]
        foreign_t = [(r, t) for r, t in reqs_t if r[5] != ME]
        # --- own searches: neither forwarded nor answered
        if logged_in and own:
            for c, frs in s['fwd'].items():
                bad = [fr for fr in frs if fr[1] == ME]
                if bad:
                    add('C14-own-search-forwarded', f'a search of the logged-in user was forwarded to connection '
                        f'{c}', k, observed=bad, required='not forwarded')
            badr = [r for r in s['replies'] if r['to'] == ME]
            if badr:
                add('C14-own-search-answered', 'a search of the logged-in user was answered', k, observed=badr,
                    required='not answered')

        # --- in-scope requests: from the server while we are branch root, or from the parent
        def in_scope(r):
            if r[2] == 'server':
                return parent is None
            if r[2] == 'legacy' and r[3] != SEARCH_CODE:
                return False                      # not a search request
            return r[1] == parent
        scoped_t = [(r, t) for r, t in foreign_t if in_scope(r)]
        unscoped = [r for r, _t in foreign_t if not in_scope(r)]
        if not unscoped and not (own and not logged_in):
            # every frame seen is attributable to the scoped requests: exactly once per child, fields preserved
            want_all = [[r[5], r[6], r[7]] for r, _t in scoped_t]
            seen_by = {c: [t for r, t in scoped_t if c in observed_children(t)] for c in incoming}
            conns = set(listed) | set(s['fwd'].keys()) | {c for c, ts in seen_by.items() if ts}
            for c in sorted(conns, key=str):
                if c not in allowed:
                    continue
                got = [[fr[1], fr[2], fr[3]] for fr in s['fwd'].get(c, []) if fr[1] != ME or not logged_in]
                must = [[r[5], r[6], r[7]] for r, t in scoped_t
                        if c in listed or c in observed_children(t)]
                extra = _sub_multiset(got, want_all)
                missing = _sub_multiset(must, got)
                if not extra and not missing:
                    continue
                if missing and extra and len(missing) == len(extra) and not any(x in want_all for x in extra):
                    sig, what = 'C14-fanout-altered', 'received the search request with altered user/ticket/query'
                elif missing:
                    sig, what = 'C14-fanout-missing', 'did not receive the search request'
                    if c not in listed:
                        what += (' (the library had begun to send it our branch level before the carrier was handed over and '
                                 'the connection is still open: a current child)')
                    elif op[0] == 'fault':
                        what += (f' (it was a child when the carrier arrived and still is; connection {op[1]} '
                                 f'had a faulty socket [{op[2]}] meanwhile)')
                    elif op[0] == 'join':
                        what += ' (it was a child when the op began and still is; another child was being added)'
                    elif op[0] == 'closing':
                        what += (f' (it was a child when the op began and still is, its connection is open; connection '
                                 f'{op[1]} was between its CLOSING and CLOSED notification [{"/".join(op[2])}] meanwhile)')
                    if c in s.get('via_obf', ()):
                        what += (f' [it joined through the obfuscated listening port: after the PeerInit a distributed '
                                 f'connection is read in the clear; {s.get("unread", {}).get(c, 0)} bytes that are no '
                                 f'readable message are waiting at its end]')
                elif any(x in want_all for x in extra):
                    sig, what = 'C14-fanout-duplicate', 'received the search request more than once'
                else:
                    sig, what = 'C14-fanout-altered', 'received a search request with altered user/ticket/query'
                add(sig, f'child connection {c} {what}', k, observed=sorted(got), required=sorted(must))
            # --- answers
            if logged_in:
                want_r = []
                for r, _t in scoped_t:
                    if r[5] in BLOCKED_SEARCH:
                        continue                  # search-blocked users: nothing demanded either way
                    v, l = _expected(layout, r[5], r[7])
                    if v or l:
                        want_r.append({'to': r[5], 'ticket': r[6], 'username': ME, 'visible': v, 'locked': l})
                got_r = [r for r in s['replies'] if r['to'] not in BLOCKED_SEARCH and r['to'] != ME]
                key = lambda r: (r['to'], r['ticket'], str(r['username']), r['visible'], r['locked'])
                if op[0] == 'rfault' and op[1] in RFAULT_NOT_ACCEPTED and s.get('fault_hit') is not None:
                    # the socket refused the first write of a reply (the one with ticket `fault_hit`, to op[2]'s user)
                    # before accepting a byte: nothing can have arrived from that attempt; whether the library tries
                    # again is not demanded
                    lost = _sub_multiset(sorted(map(key, want_r)), sorted(map(key, got_r)))
                    for x in want_r:
                        if (x['to'], x['ticket']) == (op[2][5], s['fault_hit']) and key(x) in lost:
                            want_r.remove(x)
                            break
                if sorted(map(key, got_r)) != sorted(map(key, want_r)):
                    gk, wk = sorted(map(key, got_r)), sorted(map(key, want_r))
                    if not wk:
                        sig, what = 'C14-reply-without-match', 'a reply was sent although the shares hold no match'
                    elif len(gk) < len(wk):
                        sig, what = 'C14-reply-missing', 'no reply reached the asking user although the shares hold matches'
                    elif len(gk) > len(wk):
                        sig, what = 'C14-reply-duplicate', ('the asking user received more replies (over all of its '
                                                            'connections) than requests with matches were sent to us')
                    elif sorted((g[0], g[1]) for g in gk) != sorted((x[0], x[1]) for x in wk):
                        sig, what = 'C14-reply-wrong-user-or-ticket', 'reply sent to another user or with another ticket'
                    elif any(g[2] != str(ME) for g in gk):
                        sig, what = 'C14-reply-wrong-username', 'reply does not carry the own username'
                    else:
                        sig, what = 'C14-reply-content', 'reply does not carry exactly the matching visible / locked files'
                    if op[0] == 'rfault':
                        what += (f' (the first write of the reply met a faulty socket [{op[1]}'
                                 f'{"" if s.get("fault_hit") is not None else ", not reached"}])')
                    elif op[0] == 'closing':
                        what += (f' (connection {op[1]} was between its CLOSING and CLOSED notification '
                                 f'[{"/".join(op[2])}] meanwhile)')
                    if case.get('aport', 'plain') != 'plain' or any(
                            o[0] == 'pconn' and _via_obf(o) for oo in case['ops'][:k + 1] for o in _flat_ops(oo)):
                        what += (f' [obfuscated ports in play: the server reports "{case.get("aport", "plain")}" port(s) for '
                                 f'askers, network.peer.obfuscate={bool(case.get("prefer_obf", False))}; a peer connection through '
                                 f'an obfuscated port is read obfuscated]')
                    add(sig, what, k, observed=got_r, required=want_r)
    return vs


# ------------------------------------------------------------------------------------------------
# Generator
# ------------------------------------------------------------------------------------------------

TICKETS = [0, 1, 2, 77, 1000, 65535, 65536, 2 ** 31, 2 ** 32 - 1]
UNKNOWNS = [0x31, 0x31, 0x31, 0, 1, 2 ** 32 - 1]
CODES = [3, 3, 3, 3, 0, 4, 93, 255]


def _gen_case(rng: random.Random, kind: Optional[str] = None) -> dict:
    peers = [1, 2, 3, 4]
    kind = kind or rng.choice(['root', 'root', 'parent', 'parent', 'parent', 'churn', 'churn', 'sources', 'burst',
                               'nosession', 'fault', 'fault', 'join', 'join', 'join', 'rfault', 'rfault',
                               'closing', 'closing', 'closing', 'creds', 'creds', 'parentback', 'parentback'])
    # how the remote ends reach us / we reach the askers: a quarter of the joins and of the askers' own connections go
    # through the obfuscated listening port; the server reports a plain port, both, or only an obfuscated one for askers
    p_obf = rng.choice([0.0, 0.25, 0.25, 0.6])
    aport = rng.choice(['plain', 'plain', 'plain', 'both', 'both', 'obf'])
    prefer_obf = rng.random() < 0.5

    def inop(n):
        return ['in', n, 'o'] if rng.random() < p_obf else ['in', n]

    def pconn(n):
        return ['pconn', n, 'o'] if rng.random() < p_obf else ['pconn', n]
    layout = rng.choice([0, 1, 1, 2, 2, 2, 3])
    ops: list = []
    nconn = 0
    up = False

    def do(op):
        nonlocal nconn, up
        ops.append(op)
        for o in _flat_ops(op):
            if o[0] == 'session':
                up = True
            elif o[0] == 'lost':
                up = False
            elif o[0] == 'in':
                nconn += 1
            elif o[0] == 'pp' and up:
                nconn += len(o[1])

    def user():
        x = rng.random()
        if x < 0.17:
            return ME
        if x < 0.30:
            return rng.choice(BLOCKED_SEARCH + BLOCKED_OTHER)
        return rng.choice([1, 2, 2, 3, 4, 5, 5, 8])

    def query():
        return rng.choice(QUERIES) if rng.random() < 0.85 else rng.choice(QUERIES[:9])

    def search(src, carrier=None, foreign=False):
        if src == 's':
            carrier = 'server'
        elif carrier is None:
            carrier = rng.choice(['dist', 'dist', 'legacy'])
        code = rng.choice(CODES) if carrier != 'dist' and not foreign else 3
        return ['search', src, carrier, code, rng.choice(UNKNOWNS),
                rng.choice([1, 2, 3, 4, 5, 8]) if foreign else user(),
                rng.choice(TICKETS) if rng.random() < 0.7 else rng.randrange(2 ** 32), query()]

    def conn():
        if nconn == 0 or rng.random() < 0.05:
            return rng.randint(0, nconn + 1)
        return rng.randrange(nconn)

    child_names: list = []

    def children(n):
        for p in rng.sample(peers, n):
            child_names.append(p)
            do(inop(p))

    def get_parent(also_candidate: bool):
        """returns (parent conn id, candidate conn id or None). The parent is a proposed peer that announced level
        and root; a candidate is a peer proposed afterwards that has not announced anything (it stays connected
        as neither parent nor child)."""
        free = [p for p in peers if p not in child_names] or peers
        if rng.random() < 0.1:
            free = peers                               # sometimes a child's user is proposed (it is refused)
        name = rng.choice(free)
        base = nconn
        do(['pp', [name]])
        for o in rng.choice([[['level', base, rng.choice(LEVELS)], ['root', base, rng.choice([5, 6])]],
                             [['root', base, rng.choice([5, 6])], ['level', base, rng.choice(LEVELS)]],
                             [['level', base, 0]]]):
            do(o)
        cand = None
        if also_candidate:
            cand = nconn
            do(['pp', [rng.choice([p for p in peers if p != name])]])
        return base, cand

    if kind != 'nosession' or rng.random() < 0.5:
        do(['session'])
    if kind in ('root', 'parent', 'churn', 'sources', 'burst') and rng.random() < 0.2:
        for _ in range(rng.choice([1, 1, 2])):         # askers that already have a peer connection to us (re-used
            do(pconn(rng.choice([2, 5, 5, 8])))    # for the reply; two of them: still exactly one reply)
    nchild = rng.choice([0, 1, 2, 3, 3])
    if kind == 'root':
        children(nchild)
        if rng.random() < 0.4:
            do(['pp', [rng.choice(peers)]])          # a candidate that never becomes the parent
        for _ in range(rng.choice([1, 2, 3])):
            do(search('s'))
    elif kind == 'parent':
        if rng.random() < 0.5:
            children(nchild)
            par, cand = get_parent(rng.random() < 0.5)
        else:
            par, cand = get_parent(rng.random() < 0.5)
            children(nchild)
        for _ in range(rng.choice([1, 2, 3])):
            do(search(par))
    elif kind == 'churn':
        children(nchild)
        par = None
        if rng.random() < 0.6:
            par, _ = get_parent(rng.random() < 0.3)
        for _ in range(rng.choice([2, 3, 4])):
            do(search(par if par is not None else 's'))
            x = rng.random()
            if x < 0.45 and nconn:
                do(['close', conn()])
            elif x < 0.8:
                do(inop(rng.choice(peers)))
            elif x < 0.9:
                do(['reset'])
                par = None
            else:
                do(['stats', ME, rng.choice([0, 1024, 51200])])
        do(search(par if par is not None else 's'))
    elif kind == 'sources':
        children(max(1, nchild))
        par, cand = get_parent(True)
        for _ in range(rng.choice([2, 3, 4])):
            src = rng.choice(['s', par, cand, conn(), conn()])
            do(search(src))
    elif kind == 'burst':
        children(nchild)
        par = None
        if rng.random() < 0.5:
            par, _ = get_parent(False)
        src = par if par is not None else 's'
        do(['burst', [search(src) for _ in range(rng.choice([2, 2, 3]))]])
    elif kind == 'fault':
        # a carrier arrives with 2..4 children while one child's socket fails its write / blocks in drain()
        names = [1, 2, 3, 4, 5, 8]
        par, pname = None, None
        if rng.random() < 0.5:
            pname = rng.choice(peers)
            par = nconn
            do(['pp', [pname]])
            do(['level', par, rng.choice([1, 2, 3])])
            do(['root', par, rng.choice([5, 6])])
        k = rng.choice([2, 3, 3, 4])
        first = nconn
        for nm in rng.sample([x for x in names if x != pname], k):
            do(inop(nm))
        kids = list(range(first, first + k))
        victim = rng.choice([kids[0], kids[0], kids[-1], kids[len(kids) // 2], rng.choice(kids)])
        others = [c for c in kids if c != victim]
        mode = rng.choice(['fail', 'block', 'block', 'late', 'timeout'])
        during: list = []
        x = rng.random()
        if mode in ('block', 'timeout'):
            if x < 0.40:
                during = [['close', victim]]
            elif x < 0.75:
                during = [['close', rng.choice(others)]]
            elif x < 0.85:
                during = [['close', rng.choice(others)], ['close', victim]]
            elif x < 0.93:
                during = [inop(rng.choice([n for n in names if n != pname]))]
        elif x < 0.2:
            during = [['close', rng.choice(others)]]
        src = par if par is not None else 's'
        do(['fault', victim, mode, search(src, foreign=True), during])
        if rng.random() < 0.5:
            do(search(src, foreign=True))
    elif kind == 'join':
        # carriers arrive while a child is being added (`_add_child` suspended in its sends to the joining peer)
        names = [1, 2, 3, 4, 5, 8]
        par, pname = None, None
        if rng.random() < 0.5:
            pname = rng.choice(peers)
            par = nconn
            do(['pp', [pname]])
            do(['level', par, rng.choice([0, 1, 2, 3])])
            if ops[-1][2] != 0 or rng.random() < 0.5:
                do(['root', par, rng.choice([5, 6])])
        k = rng.choice([0, 1, 1, 2, 2, 3])
        first = nconn
        pool = [x for x in names if x != pname]
        for nm in rng.sample(pool, k):
            do(inop(nm))
        kids = list(range(first, first + k))
        if rng.random() < 0.15:
            do(['stats', ME, 5120 * rng.choice([k, k + 1])])      # the joining peer takes the last slot / finds none
        src = par if par is not None else 's'
        mode = rng.choice([['soon', rng.choice([0, 0, 1, 1, 2, 3, 5]), rng.choice([0, 0, 1, 2])]] * 3 +
                          [['block'], ['block'], ['timeout']])
        newc = nconn
        during = [search(src, foreign=rng.random() < 0.85) for _ in range(rng.choice([1, 1, 2, 3]))]
        if mode[0] != 'soon':
            x = rng.random()
            if x < 0.15 and kids:
                during.insert(rng.randrange(len(during) + 1), ['close', rng.choice(kids)])
            elif x < 0.27:
                during.insert(rng.randrange(len(during) + 1), ['close', newc])
            elif x < 0.37:
                during.insert(rng.randrange(len(during) + 1), inop(rng.choice(pool)))
        joiner = rng.choice(pool) if rng.random() < 0.93 else rng.choice(names)
        do(['join', joiner, mode, during] + (['o'] if rng.random() < p_obf else []))
        for _ in range(rng.choice([0, 1, 1, 2])):
            do(search(src, foreign=True))
    elif kind == 'rfault':
        # the write of the reply fails before / after the socket accepted it, or blocks
        layout = rng.choice([1, 2, 2])
        asker = rng.choice([1, 2, 3, 4, 5, 8])
        q = rng.choice(QUERIES[:9])
        for _ in range(6):
            if any(_expected(layout, asker, q)) or rng.random() < 0.12:
                break
            q = rng.choice(QUERIES[:9])
        par = None
        children(rng.choice([0, 1, 2]))
        if rng.random() < 0.5:
            par, _ = get_parent(False)
        src = par if par is not None else 's'

        def ask(ticket=None, query=None):
            carrier = 'server' if src == 's' else rng.choice(['dist', 'dist', 'legacy'])
            return ['search', src, carrier, 3, rng.choice(UNKNOWNS), asker,
                    rng.choice(TICKETS) if ticket is None else ticket, q if query is None else query]
        for _ in range(rng.choice([0, 0, 1, 1, 2])):
            do(pconn(asker))                          # the asker has peer connections to us already
        if rng.random() < 0.3:
            do(ask())                                  # an earlier reply (opens a connection when there is none)
        mode = rng.choice(RFAULT_MODES)
        first = ask()
        during: list = []
        x = rng.random()
        if x < 0.2:
            during = [ask(ticket=first[6] + 1 if first[6] < 2 ** 32 - 1 else 5)]
        elif x < 0.3:
            during = [pconn(asker)]
        elif x < 0.4:
            during = [ask(ticket=first[6] + 1 if first[6] < 2 ** 32 - 1 else 5, query=rng.choice(QUERIES[:9]))]
        do(['rfault', mode, first, during])
        if rng.random() < 0.5:
            do(ask(ticket=first[6] + 2 if first[6] < 2 ** 32 - 2 else 6))
    elif kind == 'closing':
        # carriers arrive while a connection (mostly a child that is not the last of the list) is between its CLOSING and
        # its CLOSED notification
        names = [1, 2, 3, 4, 5, 8]
        par, pname = None, None
        if rng.random() < 0.5:
            pname = rng.choice(peers)
            par = nconn
            do(['pp', [pname]])
            do(['level', par, rng.choice([1, 2, 3])])
            do(['root', par, rng.choice([5, 6])])
        k = rng.choice([2, 3, 3, 4])
        first = nconn
        pool = [x for x in names if x != pname]
        for nm in rng.sample(pool, k):
            do(inop(nm))
        kids = list(range(first, first + k))
        src = par if par is not None else 's'
        asker = rng.choice([2, 5, 5, 8])
        trigger = 'eof'
        x = rng.random()
        if x < 0.62:
            victim = rng.choice(kids[:-1])
            if rng.random() < 0.25:
                trigger = 'werr'
        elif x < 0.72:
            victim = kids[-1]
        elif x < 0.80 and par is not None:
            victim, src = par, 's'                     # the parent is going away: only the server can still deliver
        else:
            victim = ['p', asker]
            layout = rng.choice([1, 2, 2])
            for _ in range(rng.choice([1, 1, 2])):
                do(pconn(asker))
        hold = rng.choice(CLOSING_HOLDS)
        if trigger == 'werr' and rng.random() < 0.8:
            hold = 'listener'          # (a failed write cancels its own task on the way: only a listener keeps CLOSING open)

        def carrier():
            c = search(src, foreign=rng.random() < 0.85)
            if not isinstance(victim, int) and rng.random() < 0.8:
                c[5], c[7] = asker, rng.choice(QUERIES[:9])        # the user whose own connection is closing asks
            return c
        during = [carrier() for _ in range(rng.choice([1, 1, 2, 3]))]
        if trigger == 'werr':
            during[0] = search(src, foreign=True)      # forwarded for sure: its write to the victim sets the close off
        x = rng.random()
        others = [c for c in kids if c != victim]
        if x < 0.15 and others:
            during.insert(rng.randrange(1, len(during) + 1), ['close', rng.choice(others)])
        elif x < 0.27:
            during.insert(rng.randrange(1, len(during) + 1), inop(rng.choice(pool)))
        elif x < 0.32:
            during.insert(rng.randrange(1, len(during) + 1), pconn(asker))
        do(['closing', victim, [trigger, hold], during])
        for _ in range(rng.choice([0, 1, 1, 2])):
            do(search(src if victim != par else 's', foreign=True))
    elif kind == 'creds':
        # the configured login name is changed while the session lasts (an account switch stored for the next login): "the
        # logged-in user" stays the session's. Carriers by the session's user, by the newly configured user and by others,
        # over all three carriers, with 1-3 children, as branch root or below a parent
        layout = rng.choice([1, 1, 2, 2, 3])
        children(max(1, nchild))
        par = None
        if rng.random() < 0.5:
            par, _ = get_parent(rng.random() < 0.2)
        src = par if par is not None else 's'
        other = rng.choice([1, 2, 3, 4, 5, 5, 8, 8, 6, 7])

        def ask(u):
            carrier = 'server' if src == 's' else rng.choice(['dist', 'dist', 'legacy'])
            return ['search', src, carrier, 3 if rng.random() < 0.9 else rng.choice(CODES), rng.choice(UNKNOWNS), u,
                    rng.choice(TICKETS) if rng.random() < 0.7 else rng.randrange(2 ** 32),
                    rng.choice(QUERIES[:9]) if rng.random() < 0.8 else query()]
        if rng.random() < 0.3:
            do(ask(rng.choice([ME, other])))               # before the change
        do(['creds', other])
        for _ in range(rng.choice([2, 3, 4])):
            do(ask(rng.choice([ME, ME, other, other, other, user()])))
        if rng.random() < 0.35:
            do(['creds', rng.choice([ME, ME, rng.choice([1, 2, 5, 8])])])      # changed back / changed again
            do(ask(rng.choice([ME, other, ops[-1][1]])))
            if rng.random() < 0.5:
                do(inop(rng.choice([5, 8] + peers)))
                do(ask(rng.choice([ME, other])))
    elif kind == 'parentback':
        # the parent's user opens a second (unrequested) connection after its name has dropped out of the 20-entry
        # potential-parents cache (the server went on proposing names): refused as a child by the user-name guard alone.
        # (19 / 10 further names: the cache still remembers it.) Carriers from the parent and the server afterwards
        pn = rng.choice(peers)
        others = [q for q in peers if q != pn]
        for nm in rng.sample(others + [5, 8], rng.choice([0, 1, 1, 2])):
            do(inop(nm))
        par = nconn
        do(['pp', [pn]])
        for o in rng.choice([[['level', par, rng.choice([1, 2, 3])], ['root', par, rng.choice([5, 6])]],
                             [['root', par, rng.choice([5, 6])], ['level', par, rng.choice([1, 2, 3])]],
                             [['level', par, 0]], [['level', par, 0]]]):
            do(o)
        left = rng.choice([20, 20, 20, 20, 24, 19, 10])
        while left > 0:
            n = min(10, left)
            do(['pp', [rng.choice(others) for _ in range(n)]])
            left -= n

        def carrier():
            return search(rng.choice([par, par, par, 's']), foreign=rng.random() < 0.9)
        if rng.random() < 0.75:
            do(inop(pn))
        else:
            mode = rng.choice([['soon', rng.choice([0, 1, 2]), rng.choice([0, 1])], ['block']])
            do(['join', pn, mode, [carrier() for _ in range(rng.choice([1, 2]))]] + (['o'] if rng.random() < p_obf else []))
        if rng.random() < 0.5:
            do(inop(rng.choice([5, 8])))
        for _ in range(rng.choice([1, 2, 3])):
            do(carrier())
    elif kind == 'nosession':
        children(nchild)
        if up and rng.random() < 0.7:
            par, _ = get_parent(False)
            do(['lost'])
            do(search(par))
            do(search('s'))
            if rng.random() < 0.5:
                do(['session'])
                do(search(par))
        else:
            do(search(conn()))
    while len(ops) < 12 and rng.random() < 0.35:
        x = rng.random()
        if x < 0.5:
            do(search(rng.choice(['s', conn()])))
        elif x < 0.7:
            do(['close', conn()])
        elif x < 0.85:
            do(inop(rng.choice(peers)))
        else:
            do(['lost'] if up else ['session'])
    return {'ops': ops[:18 if kind == 'parentback' else 14], 'kind': kind, 'layout': layout, 'asker_closes': rng.random() < 0.6,
            'aport': aport, 'prefer_obf': prefer_obf}


# ------------------------------------------------------------------------------------------------
# Model side
# ------------------------------------------------------------------------------------------------

def _model_lines(case: dict) -> tuple[list[str], list[int]]:
    """driver input lines and, per op, how many output lines belong to it"""
    out = ['new', 'blocked ' + ' '.join(map(str, BLOCKED_SEARCH))]
    pairs = set()
    for op in case['ops']:
        for o in _flat_ops(op):
            if o[0] == 'search':
                pairs.add((o[5], o[7]))
    for u, q in sorted(pairs):
        v, l = _expected(case.get('layout', 1), u, q)
        if v or l:
            out.append(f"ans {u} {_hx(q)} {_lst(map(_hx, v), ',')}|{_lst(map(_hx, l), ',')}")
    head = len(out)
    spans = []

    def line(o):
        if o[0] == 'pp':
            return 'pp ' + ' '.join(str(n) for n in o[1])
        if o[0] in ('in', 'pconn'):
            return f'{o[0]} {o[1]}'                # (the port it came through makes no difference to the model)
        if o[0] == 'search':
            return ' '.join(['search'] + [str(x) for x in o[1:7]] + [_hx(o[7])])
        return ' '.join(str(x) for x in o)
    for op in case['ops']:
        if op[0] == 'join':
            # the add of the joining peer is suspended (`addbegin`) while the listed ops are handled; it ends by
            # resuming (`addend`) or by the library's write time-out closing the connection (`addtimeout`)
            ls = [f'addbegin {op[1]}'] + [line(o) for o in op[3]] + ['addtimeout' if op[2][0] == 'timeout' else 'addend']
        elif op[0] == 'closing' and isinstance(op[1], int):
            # the connection is reported CLOSING (`closebegin`), the listed ops are handled, it is reported CLOSED (`close`)
            ls = [f'closebegin {op[1]}'] + [line(o) for o in op[3]] + [f'close {op[1]}']
        elif op[0] == 'closing':
            ls = [f'pconn {op[1][1]}'] + [line(o) for o in op[3]]     # a peer connection closing: no effect on the tree
        else:
            ls = [line(o) for o in _flat_ops(op)]
        out += ls
        spans.append(len(ls))
    return out, [head] + spans


def _monitor_only(case) -> bool:
    """faulty / slow sockets: the model is atomic per op and assumes every write goes through"""
    return any(op[0] in ('fault', 'rfault') or (op[0] == 'closing' and op[2][0] == 'werr') for op in case['ops'])


def _eval_case(case):
    try:
        tr = _run_impl(case)
        return {'trace': tr, 'lines': [_canon(s) for s in tr]}
    except Exception as e:       # the harness or the real code raised out of the scenario
        import traceback
        return {'error': f'{type(e).__name__}: {e}', 'tb': traceback.format_exc()[-1500:]}


# histories that violate the property on the tree without the proposed fix (regression witnesses)
WITNESSES = {
    'own-search-from-parent': {
        'ops': [['session'], ['in', 1], ['pp', [2]], ['level', 1, 1], ['root', 1, 5],
                ['search', 1, 'dist', 3, 49, ME, 77, 'rock']],
        'kind': 'witness', 'layout': 1, 'asker_closes': True},
    'own-search-legacy-carrier': {
        'ops': [['session'], ['in', 1], ['in', 3], ['pp', [2]], ['level', 2, 0],
                ['search', 2, 'legacy', 3, 49, ME, 78, 'one']],
        'kind': 'witness', 'layout': 2, 'asker_closes': False},
    # faulty / slow sibling while a carrier is passed on (the property holds on HEAD: one queued task per child)
    'fault-first-child-write-fails': {
        'ops': [['session'], ['in', 1], ['in', 2], ['in', 3],
                ['fault', 0, 'fail', ['search', 's', 'server', 3, 49, 5, 77, 'rock'], []]],
        'kind': 'witness', 'layout': 1, 'asker_closes': True},
    'fault-child-closed-while-its-write-drains': {
        'ops': [['session'], ['pp', [4]], ['level', 0, 1], ['root', 0, 5], ['in', 1], ['in', 2], ['in', 3],
                ['fault', 1, 'block', ['search', 0, 'dist', 3, 49, 5, 78, 'one'], [['close', 1]]]],
        'kind': 'witness', 'layout': 2, 'asker_closes': True},
    'fault-sibling-closed-while-a-write-drains': {
        'ops': [['session'], ['in', 1], ['in', 2], ['in', 3],
                ['fault', 1, 'block', ['search', 's', 'server', 3, 49, 8, 79, 'jazz'], [['close', 0]]]],
        'kind': 'witness', 'layout': 1, 'asker_closes': False},
    # carriers handled while a child is being added (the property holds on HEAD: `children.append` precedes the sends)
    'join-search-right-after-level-write': {
        'ops': [['session'], ['in', 1], ['join', 2, ['soon', 0, 0], [['search', 's', 'server', 3, 49, 5, 77, 'rock']]],
                ['search', 's', 'server', 3, 49, 5, 78, 'rock']],
        'kind': 'witness', 'layout': 1, 'asker_closes': True},
    'join-parent-search-while-level-send-blocks': {
        'ops': [['session'], ['pp', [4]], ['level', 0, 1], ['root', 0, 5], ['in', 1],
                ['join', 2, ['block'], [['search', 0, 'dist', 3, 49, 5, 77, 'rock'],
                                        ['search', 0, 'legacy', 3, 49, 8, 78, 'one']]]],
        'kind': 'witness', 'layout': 1, 'asker_closes': True},
    'join-level-send-times-out': {
        'ops': [['session'], ['in', 1], ['join', 2, ['timeout'], [['search', 's', 'server', 3, 49, 5, 77, 'rock']]],
                ['search', 's', 'server', 3, 49, 5, 79, 'rock']],
        'kind': 'witness', 'layout': 1, 'asker_closes': True},
    # the write of the reply fails late: the asker must still have exactly one copy (HEAD does not try again)
    'reply-write-times-out-after-the-bytes-were-accepted': {
        'ops': [['session'], ['pconn', 5], ['pconn', 5],
                ['rfault', 'timeout', ['search', 's', 'server', 3, 49, 5, 77, 'rock'], []]],
        'kind': 'witness', 'layout': 1, 'asker_closes': False},
    'reply-reset-after-flush-on-a-fresh-connection': {
        'ops': [['session'], ['rfault', 'late-reset', ['search', 's', 'server', 3, 49, 5, 77, 'rock'], []]],
        'kind': 'witness', 'layout': 1, 'asker_closes': True},
    'reply-slow-asker-flushed-at-close': {
        'ops': [['session'], ['pconn', 5],
                ['rfault', 'slow-timeout', ['search', 's', 'server', 3, 49, 5, 77, 'rock'], []]],
        'kind': 'witness', 'layout': 1, 'asker_closes': True},
    # carriers handled while a child is between CLOSING and CLOSED (the property holds on HEAD: the entry stays in `children`
    # until CLOSED, `send_message` refuses to write on it, its siblings are served)
    'closing-stalled-first-child': {
        'ops': [['session'], ['in', 1], ['in', 2], ['in', 3],
                ['closing', 0, ['eof', 'release'], [['search', 's', 'server', 3, 49, 5, 77, 'rock']]],
                ['search', 's', 'server', 3, 49, 5, 78, 'rock']],
        'kind': 'witness', 'layout': 1, 'asker_closes': True},
    'closing-middle-child-disconnect-timeout': {
        'ops': [['session'], ['pp', [4]], ['level', 0, 1], ['root', 0, 5], ['in', 1], ['in', 2], ['in', 3],
                ['closing', 2, ['eof', 'expire'], [['search', 0, 'dist', 3, 49, 5, 77, 'rock'],
                                                    ['search', 0, 'legacy', 3, 49, 8, 78, 'one']]]],
        'kind': 'witness', 'layout': 1, 'asker_closes': True},
    'closing-listener-suspended': {
        'ops': [['session'], ['in', 1], ['in', 2],
                ['closing', 0, ['eof', 'listener'], [['search', 's', 'server', 3, 49, 5, 77, 'rock'], ['in', 3],
                                                      ['search', 's', 'server', 3, 49, 5, 78, 'rock']]]],
        'kind': 'witness', 'layout': 1, 'asker_closes': True},
    'closing-after-failed-write': {
        'ops': [['session'], ['in', 1], ['in', 2], ['in', 3],
                ['closing', 0, ['werr', 'listener'], [['search', 's', 'server', 3, 49, 5, 77, 'rock'],
                                                      ['search', 's', 'server', 3, 49, 5, 78, 'rock']]]],
        'kind': 'witness', 'layout': 1, 'asker_closes': True},
    'closing-askers-own-connection': {
        'ops': [['session'], ['in', 1], ['pconn', 5],
                ['closing', ['p', 5], ['eof', 'release'], [['search', 's', 'server', 3, 49, 5, 77, 'rock']]]],
        'kind': 'witness', 'layout': 1, 'asker_closes': False},
    # through the obfuscated ports (the property holds on HEAD: a "D" connection is plain after its PeerInit, a "P"
    # connection stays obfuscated)
    'obfuscated-port-child-and-asker': {
        'ops': [['session'], ['in', 1], ['in', 2, 'o'], ['pconn', 5, 'o'],
                ['search', 's', 'server', 3, 49, 5, 77, 'rock'], ['search', 's', 'server', 3, 49, 8, 78, 'one']],
        'kind': 'witness', 'layout': 1, 'asker_closes': False, 'aport': 'obf', 'prefer_obf': False},
    'obfuscated-port-join-below-parent': {
        'ops': [['session'], ['pp', [4]], ['level', 0, 1], ['root', 0, 5], ['in', 1, 'o'],
                ['join', 2, ['block'], [['search', 0, 'dist', 3, 49, 5, 77, 'rock']], 'o'],
                ['search', 0, 'legacy', 3, 49, 8, 78, 'one']],
        'kind': 'witness', 'layout': 1, 'asker_closes': True, 'aport': 'both', 'prefer_obf': True},
    # the configured login name changes during the session (the property holds on HEAD: "own" is the session's user)
    'creds-changed-during-session': {
        'ops': [['session'], ['in', 1], ['in', 2], ['creds', 5], ['search', 's', 'server', 3, 49, 5, 77, 'rock'],
                ['search', 's', 'server', 3, 49, ME, 78, 'rock'], ['creds', ME],
                ['search', 's', 'server', 3, 49, 5, 79, 'one']],
        'kind': 'witness', 'layout': 1, 'asker_closes': True},
    'creds-changed-below-parent': {
        'ops': [['session'], ['in', 1], ['pp', [2]], ['level', 1, 1], ['root', 1, 5], ['creds', 8],
                ['search', 1, 'dist', 3, 49, 8, 77, 'rock'], ['search', 1, 'legacy', 3, 49, ME, 78, 'one'],
                ['search', 1, 'dist', 3, 49, ME, 79, 'one']],
        'kind': 'witness', 'layout': 2, 'asker_closes': False},
    # the parent's user connects a second time after its name left the potential-parents cache (the property holds on
    # HEAD: refused as a child by user name)
    'parent-user-second-connection': {
        'ops': [['session'], ['in', 5], ['pp', [1]], ['level', 1, 0], ['pp', [2, 3] * 5], ['pp', [3, 4] * 5], ['in', 1],
                ['in', 8], ['search', 1, 'dist', 3, 49, 5, 77, 'rock'], ['search', 1, 'legacy', 3, 49, 8, 78, 'one']],
        'kind': 'witness', 'layout': 1, 'asker_closes': True},
    'fanout-child-write-fails-late': {
        'ops': [['session'], ['in', 1], ['in', 2], ['in', 3],
                ['fault', 1, 'late', ['search', 's', 'server', 3, 49, 5, 77, 'rock'], []]],
        'kind': 'witness', 'layout': 1, 'asker_closes': True},
}


def _corpus_cases() -> list[dict]:
    """failing inputs of earlier seeded / own changes (corpus/C14/*.json); the property holds on them on the unchanged tree"""
    import json
    out = []
    p = common.CORPUS / 'C14'
    if p.is_dir():
        for f in sorted(p.glob('*.json')):
            try:
                c = json.loads(f.read_text())
                c = dict(c.get('case', c))
                c['kind'] = 'corpus'
                out.append(c)
            except ValueError:
                pass
    return out


class C14(Property):
    id = 'C14'
    props_module = 'AioslskVerif.Props.C14'
    driver_module = 'AioslskVerif.Driver.C14'
    rule = ('histories of <= 14 ops (<= 18 in the family parentback): C13 tree ops (session, lost, pp, in, level, root, close, reset, stats) building '
            '0..3 children, a parent and a candidate, interleaved with search carriers (server / distributed / '
            'legacy wrapped, from the server, the parent, a child, a candidate or a dead connection; user in '
            '{own, tree peers, others, search-blocked, otherwise-blocked}; boundary tickets/unknown/codes; 29 '
            'queries incl. empty, exclusion-only, non-word, unicode, 300 chars) over 4 share layouts (nothing / '
            'public / public+friends+users / locked only), generated from VERIF_SEED (families: branch root, '
            'below a parent, churn = children joining/leaving between requests, mixed sources, back-to-back '
            'bursts, no session, askers with 1-2 peer connections of their own [pconn], '
            'join = 1-3 carriers from the server / the parent handled WHILE A CHILD IS BEING ADDED [the carriers are handed '
            'to the library 0-5 loop iterations after it began to write our branch level to the joining peer, or while '
            'drain() of that socket blocks (released later / never: 10 s write time-out), also with a close or a further '
            'join meanwhile; modelled: SOp.addBegin/addEnd], '
            'faulty/slow child [monitor only: the write to a chosen child fails before a byte is accepted, or is accepted '
            'and then fails, or its drain() blocks (released later / write time-out) while that child or a sibling is '
            'closed / a child joins], '
            'rfault [monitor only: the first write of a search reply towards the asker — on a connection of its own or one the '
            'library opens — fails before a byte is accepted / is accepted and then reset / accepted and drain() never '
            'returns (write time-out, bytes delivered at once or flushed at close) / blocks and is released; 0-2 open '
            'peer connections of the asker, a second carrier or a new connection meanwhile; 15 virtual seconds observed '
            'afterwards], '
            'closing = 1-3 carriers handled WHILE A CONNECTION IS BETWEEN ITS CLOSING AND ITS CLOSED NOTIFICATION [2-4 children, '
            'the victim mostly a child that is not the last of the list, also the last child, the parent, or a peer connection '
            'of the asking user; the remote end closes (or, monitor only, a write of the library fails) and disconnect() is '
            'kept suspended: wait_closed() of the socket blocks and is released / never returns (DISCONNECT_TIMEOUT, 5 virtual '
            'seconds) / a listener of the CLOSING event suspends; a sibling closes or a peer joins meanwhile; modelled: '
            'SOp.closeBegin … Op.closed], '
            'obfuscated ports [in every family 0 / 25 / 60 % of the joins and of the askers\' own connections go through the '
            'obfuscated listening port (obfuscated PeerInit; a D connection is then read in the clear, a P connection '
            'obfuscated, by the harness\'s own codec), the server reports a plain / both / only an obfuscated port for the '
            'askers and network.peer.obfuscate is on or off], '
            'creds = THE CONFIGURED LOGIN NAME CHANGES DURING THE SESSION [settings.credentials.username is assigned another '
            'user\'s name (tree peer, other user, blocked user; later changed back or again) with 1-3 children, as branch root '
            'or below a parent; carriers by the session\'s user, by the newly configured user and by others over all three '
            'carriers before and after; modelled: SOp.credentials], '
            'parentback = THE PARENT\'S USER OPENS A SECOND CONNECTION [a proposed peer becomes the parent, the server proposes '
            '20 / 24 further names in lists of 10 so that the parent\'s name drops out of the 20-entry potential-parents cache '
            '(19 / 10: it is still cached), then the parent\'s user connects unrequested (plain / obfuscated port, also as a '
            'join with carriers handled meanwhile), another peer joins, 1-3 carriers from the parent / the server]); '
            'a case is non-trivial when some carrier was forwarded to a child or answered; '
            'distinct = distinct canonical (ops, layout, asker ports, obfuscation preference)')
    assumptions = [
        'every asking user is reachable: the server answers GetPeerAddress and the direct peer connection '
        'succeeds (connect_mode race; the indirect attempt stays unanswered and is cancelled)',
        'the shared files exist when the reply is built (convert_items_to_file_data drops files whose size cannot '
        'be read); result counts stay below searches.receive.max_results; no server-side excluded phrases',
        'which files match a query and how they split into visible / locked is C07/C08: here the expected answer '
        'is computed by the harness\'s own matcher on a plain vocabulary (lower/upper-case ASCII words, exclusion '
        'terms, no wildcards) and handed to the model as the abstract `answer` table',
        'ops are separated by quiescence of the event loop; back-to-back carriers (burst) and carriers handled while an '
        'add is suspended (join) are compared as the union of the per-carrier model outputs; faulty-socket cases (fault, '
        'rfault) are evaluated by the monitor only (the model assumes every write goes through)',
        '"current child" is read on what the remote ends see: an incoming distributed connection to which the library had '
        'begun to write our branch level before the carrier was handed to the library, and that is open at both ends when '
        'the op has quiesced, must receive the carrier exactly once (theorems C14_told_is_child, C14_adding_served, '
        'C14_child_until_closed); in addition the connections the library lists as children before the op (for ops with '
        'faults / membership changes: those still listed and open at the end). A connection that closes during the op '
        '(either side, or the write time-out) is exempt; nobody may receive a carrier twice or altered',
        'replies are counted at the asking user over all of its connections (own ones, ones the library opened, ones opened '
        'for a later attempt): exactly one per carrier with matches — none or one when the socket refused the first write '
        'before accepting a byte —, and over the whole history never more per (user, ticket) than carriers were issued',
        'a fake socket delivers what write() accepted (at once, or at close when the asker is "slow"); drain() of a socket '
        'closed cleanly meanwhile returns normally (asyncio flow control); virtual time only advances in the time-out modes '
        '(< 30 s per history, below the 60 s peer read time-out)',
        'a remote end follows the protocol: it decodes what it receives in the form its connection has — a distributed '
        'connection in the clear after the PeerInit (whichever listening port it used), a peer connection obfuscated iff it '
        'goes through an obfuscated port; bytes it cannot decode are not a delivery. The obfuscation codec itself is C01\'s: '
        'the harness uses its own implementation of it',
        'a connection between its CLOSING and CLOSED notification ("closing" op) ends closed: it is exempt like every '
        'connection that closes during an op; demanded is that the OTHER children (listed before and after, open) receive '
        'each carrier exactly once and the asker its one reply (over another connection when its own one is closing). '
        'wait_closed() of a fake socket returns when the harness releases it (a real transport: when its buffer is flushed or '
        'the connection is lost)',
        'C13 assumptions for the tree part (debug.search_for_parent, reachable potential parents)',
        '"searches that originate from the logged-in user" is read on the session\'s user name; without a session '
        'nothing is demanded for own-name carriers. settings.credentials.username is configuration for the NEXT login: '
        'changing it while the session lasts ("creds") changes neither who the logged-in user is nor whose searches are '
        'passed on and answered (theorems C14_configured_name_irrelevant, C14_own_is_session_user); the harness keeps '
        'the session of user 0 for the whole history (no re-login under the new name is generated after a "creds" op)',
        '"never back to the parent" is judged per USER on the wire: while a connection is our parent (the same connection '
        'before and after the op) no other connection of that connection\'s user may receive a forwarded search, whatever '
        'the library lists as children (theorems C14_not_to_others, C14_never_back_to_parent_user; C13\'s invariant '
        '"no child has the parent\'s user name")',
    ]
    modelled = ('distributed.py: _on_server_search_request, _on_distributed_search_request, '
                '_on_distributed_server_search_request, send_messages_to_children, and the suspension point of '
                '_add_child (children.append before the awaited sends: SOp.addBegin / addEnd), the suspension point of '
                'DataConnection.disconnect between the CLOSING and the CLOSED notification with send_message refusing to write '
                'meanwhile (SOp.closeBegin, SState.closing / sent), the wire form of a connection after its initialisation '
                '(Network._finalize_peer_connection / PeerConnection.set_connection_state: table obfAfterInit, read off the code '
                'behaviourally), an assignment of settings.credentials.username during the session (SOp.credentials: read by '
                'none of the handlers); search/manager.py: the three '
                'carrier handlers and _query_shares_and_reply (session / own name / search-blocked / no-match '
                'guards, reply fields, SearchRequestReceivedEvent); tree state = Model/Dist.lean (C13). '
                'Exercised, not modelled: Network.send_peer_messages / get_peer_connection / '
                'create_peer_connection (GetPeerAddress, direct vs indirect race, connection reuse), '
                'PeerConnection.queue_messages / send_message / _send (closing guard, write errors, 10 s write time-out), '
                'SharesManager.query and '
                'convert_items_to_file_data (abstract `answer`), zlib/codec of PeerSearchReply, reply task '
                'bookkeeping, received_searches deque, has_slots_free/avg_speed/queue_size of the reply')

    def regenerate(self):
        from translate import dist_constants, distsearch_constants
        return [dist_constants.generate(common.REPO, common.LEAN),
                distsearch_constants.generate(common.REPO, common.LEAN)]

    def cases(self, seed, tier, widen=1):
        rng = random.Random(f'C14-{seed}')
        n = (8000 if tier == 'quick' else 200000) * widen
        cs = [dict(c) for c in WITNESSES.values()] + _corpus_cases()
        cs += [_gen_case(rng) for _ in range(n)]
        return cs

    def correspondence(self, seed, tier, model_ok, widen=1):
        res = KResult()
        _ensure_layouts()
        cases = self.cases(seed, tier, widen)
        impl = common.parallel_map(_eval_case, cases, chunksize=4)
        for i, r in enumerate(impl):
            if 'error' in r:
                impl[i] = _eval_case(cases[i])
                res.notes.append(f'case {i} errored once ({r["error"][:80]}), re-run serially')
        model = None
        if model_ok:
            lines, layout = [], []
            for c in cases:
                if _monitor_only(c):
                    layout.append(None)
                    continue
                ls, spans = _model_lines(c)
                layout.append((len(lines), spans))
                lines += ls
            out = common.run_driver(self.driver_file, lines)
            model = []
            for ent, c in zip(layout, cases):
                if ent is None:
                    model.append(None)
                    continue
                start, spans = ent
                pos = start + spans[0]
                per_op = []
                for n, op in zip(spans[1:], c['ops']):
                    per_op.append(_canon_model(out[pos:pos + n], op[0]))
                    pos += n
                model.append(per_op)
        else:
            res.model_available = False
        for i, c in enumerate(cases):
            res.evaluations += 1
            res.count('kind:' + c['kind'])
            res.count('layout:%d' % c.get('layout', 1))
            res.count('ops', len(c['ops']))
            for op in c['ops']:
                for o in _flat_ops(op):
                    res.count('op:' + o[0])
                    if o[0] == 'search':
                        res.count('carrier:' + o[2])
                        res.count('user:' + ('own' if o[5] == ME else 'blocked' if o[5] in BLOCKED_SEARCH
                                             else 'other'))
            r = impl[i]
            if 'error' in r:
                res.violations.append(Violation('C14-harness-or-impl-error', r['error'], c, observed=r.get('tb')))
                continue
            tr = r['trace']
            if any(s['fwd'] or s['replies'] for s in tr):
                res.nontrivial_keys.add(common.sha([c['ops'], c.get('layout', 1), c.get('aport', 'plain'),
                                                    bool(c.get('prefer_obf', False))]))
            res.count('asker-ports:%s/%s' % (c.get('aport', 'plain'), 'prefer-obf' if c.get('prefer_obf') else 'prefer-plain'))
            for op, s in zip(c['ops'], tr):
                for o in _flat_ops(op):
                    if o[0] in ('in', 'pconn') and _via_obf(o):
                        res.count(f'op:{o[0]}-via-obfuscated-port')
                if any(cid in s.get('via_obf', ()) for cid in s['fwd']):
                    res.count('event:forwarded-to-a-child-of-the-obfuscated-port')
                if any(x.get('obf') for x in s['replies']):
                    res.count('event:answered-over-an-obfuscated-connection')
            for op, s in zip(c['ops'], tr):
                if op[0] == 'join':
                    res.count('join-mode:' + str(op[2][0]))
                    t0 = s.get('told_at', {}).get(s.get('joined'))
                    if t0 is not None and any(t is not None and t > t0 for t in s.get('inj') or []):
                        res.count('event:carrier-handled-while-add-suspended')
                    if s.get('joined') in s['children']:
                        res.count('event:joined-as-child')
                elif op[0] == 'rfault':
                    res.count('rfault-mode:' + str(op[1]))
                    if s.get('fault_hit') is not None:
                        res.count('event:reply-write-met-faulty-socket')
                    if len({x['conn'] for x in s['replies']}) > 1:
                        res.count('event:replies-over-several-connections')
                elif op[0] == 'fault':
                    res.count('fault-mode:' + str(op[2]))
                elif op[0] == 'closing':
                    res.count('closing-mode:' + '/'.join(op[2]))
                    res.count('closing-victim:' + ('none' if s.get('closing_victim') is None else
                                                   ('child' if op[1] in s['before']['children'] else
                                                    'parent' if op[1] == s['before']['parent'] else
                                                    'asker' if not isinstance(op[1], int) else 'candidate')))
                    n_in = sum(1 for o, seen in zip(op[3], s.get('closing_seen') or []) if seen and o[0] == 'search')
                    if n_in:
                        res.count('event:carrier-handled-between-closing-and-closed', n_in)
                    if isinstance(op[1], int) and op[1] in s['before']['children'][:-1] and n_in and s['fwd']:
                        res.count('event:forwarded-past-a-closing-child')
                if any(o[0] == 'search' for o in _flat_ops(op)):
                    b = s['before']
                    if b.get('configured', ME) != ME and b['session']:
                        res.count('search-state:configured-name-differs-from-session')
                        for o in _flat_ops(op):
                            if o[0] == 'search' and o[5] in (ME, b['configured']):
                                res.count('event:carrier-of-the-%s-user-after-creds' % ('session' if o[5] == ME else 'configured'))
                    if b['parent'] is not None and any(c != b['parent'] and s['names'].get(c) == s['names'].get(b['parent'])
                                                       for c in b['live']):
                        res.count('search-state:parent-user-has-a-second-connection')
                        if s['fwd']:
                            res.count('event:forwarded-past-a-second-connection-of-the-parent-user')
                    res.count('search-state:children=%d' % len(b['children']))
                    res.count('search-state:' + ('has-parent' if b['parent'] is not None else 'no-parent'))
                    if len(b['live']) > len(b['children']) + (1 if b['parent'] is not None else 0):
                        res.count('search-state:has-candidate')
                    if s['fwd']:
                        res.count('event:forwarded')
                    if s['replies']:
                        res.count('event:answered')
                        if any(x['locked'] for x in s['replies']):
                            res.count('event:answered-with-locked')
                    if s['events'] and not s['replies']:
                        res.count('event:queried-no-match')
                    if s['status'] in ('no-conn', 'no-server'):
                        res.count('status:' + s['status'])
                    if not b['session']:
                        res.count('search-state:no-session')
            if model is not None and model[i] is None:
                res.count('monitor-only')
            if model is not None and model[i] is not None:
                res.traces_validated += 1
                if model[i] != r['lines']:
                    k = next((j for j, (a, b) in enumerate(zip(model[i], r['lines'])) if a != b),
                             min(len(model[i]), len(r['lines'])))
                    res.disagreements.append(Disagreement(
                        c, r['lines'][k] if k < len(r['lines']) else None,
                        model[i][k] if k < len(model[i]) else None,
                        f'op #{k} {c["ops"][k] if k < len(c["ops"]) else ""}'))
            res.violations += _monitor(c, tr)
            if len(res.samples) < 3 and 4 <= len(c['ops']) <= 9 and c['kind'] not in ('witness', 'corpus') and \
                    any(s['replies'] for s in tr):
                res.samples.append({'case': c, 'impl': r['lines']})
        # what the round-5 families are there for has to be reached (a note, not a verdict: a library in which CLOSING and
        # CLOSED are reported in one step, or without an obfuscated port, has no such window / connection)
        for key, what in (('event:forwarded-past-a-closing-child', 'no carrier was forwarded past a child between CLOSING and CLOSED'),
                          ('event:forwarded-to-a-child-of-the-obfuscated-port', 'no carrier was forwarded to a child of the obfuscated port'),
                          ('event:answered-over-an-obfuscated-connection', 'no reply travelled over an obfuscated connection'),
                          ('event:carrier-of-the-configured-user-after-creds', 'no carrier of the newly configured user after a change of the configured name'),
                          ('event:forwarded-past-a-second-connection-of-the-parent-user', 'no carrier was forwarded while the parent\'s user had a second connection')):
            if res.evaluations >= 1000 and not res.distribution.get(key):
                res.notes.append(f'coverage: {what} in {res.evaluations} cases')
        return res

    def replay(self, case):
        r = _eval_case(case)
        if 'error' in r:
            return [Violation('C14-harness-or-impl-error', r['error'], case, observed=r.get('tb'))]
        return _monitor(case, r['trace'])

    def known_witnesses(self):
        return []


PROPERTY = C14()
