"""C02 — hostile bytes never crash a reader or desynchronise the stream (DESIGN.md, C02).

K_C02a: byte strings → the four real family dispatchers vs. the Lean decoders (ok value / error class).
K_C02b: byte streams cut into segments → real Server/PeerConnection reader loops under the virtual-time
        loop vs. `Stream.reader`; monitor: exactly the decodable frames delivered once, in order; the reader
        task ends only with the connection.
K_C02c: full client, every server message class through the real handlers; monitor: reader alive while
        the connection is CONNECTED, every message still delivered.
"""
from __future__ import annotations

import asyncio
import importlib
import logging
import random
import struct
import time

from vlib import common, simloop, fakenet, simserver, wirecodec as wc
from vlib.common import KResult, Violation, Disagreement, Property
from translate import schemas as schema_tr

logging.getLogger('aioslsk').setLevel(logging.CRITICAL)


def _mods():
    m = importlib.import_module('aioslsk.protocol.messages')
    p = importlib.import_module('aioslsk.protocol.primitives')
    o = importlib.import_module('aioslsk.protocol.obfuscation')
    return m, p, o


def mutate(rng: random.Random, data: bytes) -> tuple[str, bytes]:
    b = bytearray(data)
    k = rng.randrange(11)
    if k == 10:
        # large body (beyond typical buffer / size thresholds), garbage or a valid header + garbage
        n = rng.choice([4097, 8192, 8193, 16384, 65536, 70001])
        body = bytes(rng.randrange(256) for _ in range(64)) * (n // 64 + 1)
        return 'big', bytes(b[:8]) + body[:n]
    if k == 0 and len(b) > 0:
        return 'truncate', bytes(b[:rng.randrange(len(b))])
    if k == 1 and len(b) > 8:
        i = rng.randrange(8, len(b))
        b[i] ^= 1 << rng.randrange(8)
        return 'bitflip', bytes(b)
    if k == 2 and len(b) >= 12:
        i = rng.randrange(8, len(b) - 3)
        b[i:i + 4] = struct.pack('<I', rng.choice([0xFFFFFFFF, 0x7FFFFFFF, 0x80000000, len(b), 1000, 65536]))
        return 'lying-count', bytes(b)
    if k == 3:
        return 'trailing', bytes(b) + bytes(rng.randrange(256) for _ in range(rng.choice([1, 3, 4, 8])))
    if k == 4 and len(b) > 8:
        i = rng.randrange(8, len(b))
        b[i] = rng.choice([0x80, 0x81, 0x8d, 0x8f, 0x90, 0x9d, 0xc0, 0xc1, 0xf5, 0xff, 0xed, 0xa0, 0xe0, 0xf0])
        return 'bad-utf8', bytes(b)
    if k == 5 and len(b) >= 8:
        b[4] = rng.randrange(256)
        return 'other-code', bytes(b)
    if k == 6:
        return 'noise', bytes(rng.randrange(256) for _ in range(rng.choice([0, 1, 3, 4, 5, 7, 8, 9, 12, 20, 40])))
    if k == 7 and len(b) > 8:
        i = rng.randrange(4, len(b))
        b[i] = rng.randrange(256)
        return 'byte', bytes(b)
    if k == 8 and len(b) > 9:
        # corrupt zlib / cut in the middle of the body
        i = rng.randrange(8, len(b))
        return 'cut-body', bytes(b[:i]) + bytes(rng.randrange(256) for _ in range(rng.randrange(3)))
    return 'valid', bytes(b)


def fix_len(frame: bytes) -> bytes:
    """Make the length prefix truthful (a well-framed body with arbitrary content)."""
    if len(frame) < 4:
        frame = frame + b'\x00' * (4 - len(frame))
    return struct.pack('<I', len(frame) - 4) + frame[4:]


# ------------------------------------------------------------------------------------------------
# K_C02a
# ------------------------------------------------------------------------------------------------

class _ParseTimeout(BaseException):
    pass


DECODE_LIMIT = 8.0      # CPU seconds for ONE frame of at most a few KiB (the real decoders need well under a millisecond)


def eval_decode(args):
    import signal
    table, fam, d, frame = args
    m, _, _ = _mods()

    def on_alarm(_sig, _frm):
        raise _ParseTimeout()
    old = signal.signal(signal.SIGPROF, on_alarm)          # CPU time of this process: machine load is not the code's fault
    signal.setitimer(signal.ITIMER_PROF, DECODE_LIMIT)
    t0 = time.process_time()
    try:
        r = wc.impl_decode(m, table, fam, d, frame)
    except _ParseTimeout:
        r = 'HANG'                      # parsing did not terminate: stopped by the harness
    finally:
        signal.setitimer(signal.ITIMER_PROF, 0)
        signal.signal(signal.SIGPROF, old)
    dt = time.process_time() - t0
    if '_ParseTimeout' in r:            # (the decode wrapper reports any BaseException as "fatal <class>")
        r = 'HANG'
    return r, dt, wc.inflate_arg(frame, fam)


# ------------------------------------------------------------------------------------------------
# K_C02b — reader loops
# ------------------------------------------------------------------------------------------------

def eval_stream(case: dict) -> dict:
    """Run one stream through a real connection's reader loop."""
    from aioslsk.network.network import Network
    from aioslsk.network.connection import (PeerConnection, PeerConnectionState, ConnectionState, CloseReason)
    from aioslsk.settings import Settings
    from aioslsk.events import EventBus, MessageReceivedEvent, ConnectionStateChangedEvent
    m, _, _ = _mods()
    table = case['table']
    out = {'delivered': [], 'states': [], 'exc': None}

    async def main(loop):
        bus = EventBus()
        keep = []

        async def on_msg(ev):
            i = wc.schema_index(table, ev.message)
            out['delivered'].append(f'D {i} ' + wc.canon_message(ev.message, table[i]) if i is not None else 'D ?')

        async def on_state(ev):
            out['states'].append((id(ev.connection), ev.state.name, ev.close_reason.name))
        keep += [on_msg, on_state]
        bus.register(MessageReceivedEvent, on_msg)
        bus.register(ConnectionStateChangedEvent, on_state)
        s = Settings(credentials={'username': 'me', 'password': 'pw'})
        net = Network(s, bus)
        fn = fakenet.FakeNet()
        lr, lw, rr, rw = fn.make_pair(('10.0.0.2', 1234))
        kind = case['kind']
        if kind == 'server':
            conn = net.server_connection
            conn._reader, conn._writer = lr, lw
            await conn.set_state(ConnectionState.CONNECTED)
            conn.start_reader_task()
        else:
            conn = PeerConnection('10.0.0.2', 1234, net, obfuscated=case['obf'],
                                  connection_type='P' if kind == 'peer' else 'D', username='peer')
            conn._reader, conn._writer = lr, lw
            net.peer_connections.append(conn)
            await conn.set_state(ConnectionState.CONNECTED)
            conn.set_connection_state(PeerConnectionState.ESTABLISHED)
        # a bystander connection that must not be touched
        by = PeerConnection('10.0.0.3', 99, net, connection_type='P', username='other')
        b_lr, b_lw, _b_rr, _b_rw = fn.make_pair(('10.0.0.3', 99))
        by._reader, by._writer = b_lr, b_lw
        net.peer_connections.append(by)
        await by.set_state(ConnectionState.CONNECTED)
        task = conn._reader_task
        writes = [0]                    # messages the client wrote on this connection
        _w = lw.write

        def counting_write(data, _w=_w):
            writes[0] += 1
            return _w(data)
        lw.write = counting_write
        stream = case['stream']
        pos = 0
        for seg in case['segments']:
            rw.write(stream[pos:pos + seg])
            pos += seg
            await simloop.settle()
        if pos < len(stream):
            rw.write(stream[pos:])
            await simloop.settle()
        out['mid_task_done'] = task.done()
        out['mid_state'] = conn.state.name
        if case.get('end') == 'silence':
            # nothing more arrives and the connection stays open: the read that cannot complete (next header, truncated
            # header, body shorter than announced) must run into the read time-out and close the connection
            # (every message the client itself sends on the connection pushes the read deadline one time-out further —
            #  `_increase_read_timeout` — so the wait is counted per message written, as the code does)
            out['read_timeout'] = conn.read_timeout
            waited = 0
            while not task.done() and waited <= writes[0]:
                waited += 1
                await simloop.advance((conn.read_timeout or 0) + 2)
                await simloop.settle()
            out['timeouts_waited'] = waited
        else:
            rw.close()      # EOF
            await simloop.settle()
            await simloop.advance(1)
        out['task_done'] = task.done()
        out['task_exc'] = None
        if task.done() and not task.cancelled():
            e = task.exception()
            out['task_exc'] = repr(e) if e else None
        out['state'] = conn.state.name
        out['bystander'] = by.state.name
        out['registry_has_bystander'] = by in net.peer_connections
        out['conn_id'] = id(conn)
        out['loop_exc'] = list(loop.exceptions)
        await by.disconnect(CloseReason.REQUESTED)

    try:
        simloop.run(main, wall_timeout=20)
    except Exception as e:  # noqa: BLE001
        out['exc'] = f'{type(e).__name__}: {e}'
    closes = [r for cid, st, r in out['states'] if cid == out.get('conn_id') and st == 'CLOSED']
    out['close'] = closes
    return out


def stream_case(rng: random.Random, table: list, m, p) -> dict:
    kind = rng.choice(['server', 'peer', 'peer', 'distributed'])
    obf = kind == 'peer' and rng.random() < 0.5
    fam, d = {'server': ('server', 'response'), 'peer': ('peer', 'request'),
              'distributed': ('distributed', 'request')}[kind]
    cands = [i for i, s in enumerate(table) if s['family'] == fam and s['dir'] == d and not s['decompress']]
    frames = []
    n = rng.randrange(0, 9)
    for _ in range(n):
        idx = rng.choice(cands)
        vals = wc.gen_message(rng, table[idx])
        data = wc.build(m, p, table[idx], vals).serialize()
        tag = 'valid'
        if rng.random() < 0.05:
            # a large but perfectly valid message (long string field) when the class has one
            big = [i for i, f in enumerate(table[idx]['fields']) if f['ty'] == {'prim': 'str'} and f['cond'][0] == 'always' and not f['optional']]
            if big:
                vals = wc.gen_message(rng, table[idx])
                vals[big[0]] = ('S', 'x' * rng.choice([4100, 9000, 66000]))
                data = wc.build(m, p, table[idx], vals).serialize()
                tag = 'valid-big'
        elif rng.random() < 0.45:
            tag, data = mutate(rng, data)
            data = fix_len(data)           # well-formed prefix, arbitrary body
            if len(data) > 4 and data[4] in (0x05, 0x09, 0x25) and fam == 'peer':
                data = data[:4] + b'\xee' + data[5:]   # keep compressed classes out of streams
        frames.append((tag, data))
    tail = b''
    r = rng.random()
    if r < 0.15 and cands:
        # truncated last frame (header or body)
        idx = rng.choice(cands)
        data = wc.build(m, p, table[idx], wc.gen_message(rng, table[idx])).serialize()
        tail = data[:rng.randrange(1, len(data))]
    elif r < 0.22:
        # lying length: the header announces more than ever arrives (from a few bytes to 4 GiB)
        tail = struct.pack('<I', rng.choice([0xFFFFFFFF, 1 << 20, 10, 1 << 16, (1 << 18) + 1, 1 << 24, 1 << 31, 70000, 300])) + \
            bytes(rng.randrange(256) for _ in range(rng.choice([0, 1, 3, 5, 9, 200])))
    plain = [f for _, f in frames] + ([tail] if tail else [])
    if obf:
        from aioslsk.protocol import obfuscation
        wire = b''.join(obfuscation.encode(f, bytes(rng.randrange(256) for _ in range(4))) for f in plain)
    else:
        wire = b''.join(plain)
    # segmentation
    segs = []
    left = len(wire)
    mode = rng.choice(['one', 'bytes', 'random', 'random', 'header-cut'])
    while left > 0:
        if mode == 'one':
            k = left
        elif mode == 'bytes':
            k = 1 if len(wire) < 200 else rng.randrange(1, 8)
        elif mode == 'header-cut':
            k = rng.choice([1, 2, 3, 5, 6, 7, 9])
        else:
            k = rng.randrange(1, 40)
        k = min(k, left)
        segs.append(k)
        left -= k
    return {'kind': kind, 'obf': obf, 'fam': fam, 'dir': d, 'stream': wire, 'segments': segs,
            'frames': [(t, f.hex()) for t, f in frames], 'tail': tail.hex(), 'seg_mode': mode,
            'end': 'silence' if rng.random() < (0.6 if tail else 0.2) else 'eof'}


def expected_deliveries(case: dict, table, m) -> list:
    """Independent oracle (real dispatcher, frame by frame): decodable frames in order."""
    exp = []
    for _tag, fh in case['frames']:
        r = wc.impl_decode(m, table, case['fam'], case['dir'], bytes.fromhex(fh))
        if r.startswith('ok'):
            exp.append('D ' + r[3:])
    return exp


# ------------------------------------------------------------------------------------------------
# K_C02d — accepted connections: a bad first frame closes that connection only
# ------------------------------------------------------------------------------------------------

def eval_accept(case: dict) -> dict:
    from aioslsk.network.network import Network, PeerFuture
    from aioslsk.network.connection import ConnectionState
    from aioslsk.settings import Settings
    from aioslsk.events import EventBus, MessageReceivedEvent, ConnectionStateChangedEvent
    m, _, _ = _mods()
    out = {'exc': None}

    async def main(loop):
        fn = fakenet.FakeNet().install()
        try:
            bus = EventBus()
            keep = []
            delivered = []
            states = []

            async def on_msg(ev):
                delivered.append((id(ev.connection), type(ev.message).__qualname__))

            async def on_state(ev):
                states.append((id(ev.connection), ev.state.name, ev.close_reason.name))
            keep += [on_msg, on_state]
            bus.register(MessageReceivedEvent, on_msg)
            bus.register(ConnectionStateChangedEvent, on_state)
            s = Settings(credentials={'username': 'me', 'password': 'pw'},
                         network={'listening': {'port': 60000, 'obfuscated_port': 60001}, 'upnp': {'enabled': False}})
            net = Network(s, bus)
            await net.connect_listening_ports()
            port = 60001 if case['obf'] else 60000
            for t in case['tickets']:
                net._expected_connection_futures[t] = PeerFuture(t, 'waiting-user', 'P')
            # bystander: a well-behaved incoming peer
            b_r, b_w = await fn.connect_in(60000, ('10.0.0.7', 1111))
            b_w.write(m.PeerInit.Request('bystander', 'P', 5).serialize())
            await simloop.settle()
            by = [c for c in net.peer_connections if c.username == 'bystander']
            before = list(net.peer_connections)
            # the hostile / odd peer
            h_r, h_w = await fn.connect_in(port, ('10.0.0.8', 2222))
            await simloop.settle()
            new = [c for c in net.peer_connections if c not in before]
            stream = case['stream']
            pos = 0
            for seg in case['segments']:
                h_w.write(stream[pos:pos + seg])
                pos += seg
                await simloop.settle()
            if case['then_eof']:
                h_w.close()
                await simloop.settle()
            await simloop.advance(1)
            conn = new[0] if new else None
            out['accepted'] = conn is not None
            if conn is not None:
                out['state'] = conn.state.name
                out['registered'] = conn in net.peer_connections
                out['remote_sees_eof'] = h_r.at_eof()
                out['closes'] = [r for cid, st, r in states if cid == id(conn) and st == 'CLOSED']
                out['established'] = conn.connection_state.name != 'AWAITING_INIT'    # init accepted (it may have been closed by EOF since)
            # the bystander is unaffected and still served exactly once
            out['bystander_ok'] = bool(by) and by[0].state == ConnectionState.CONNECTED and by[0] in net.peer_connections
            n0 = len([d for d in delivered if by and d[0] == id(by[0])])
            b_w.write(m.PeerUserInfoRequest.Request().serialize())
            await simloop.settle()
            out['bystander_delivered'] = len([d for d in delivered if by and d[0] == id(by[0])]) - n0
            out['listening_ok'] = all(lc is None or lc.state == ConnectionState.CONNECTED for lc in net.listening_connections)
            out['loop_exc'] = list(loop.exceptions)
            if conn is not None and not case['then_eof'] and case['first'] in ('truncated', 'lying-length', 'nothing'):
                # a first frame that never completes, no EOF: the accepted connection must not stay around for ever —
                # the read time-out (whatever deadline the code uses for the first frame) closes it
                limit = max(float(conn.read_timeout or 0), 1.0)
                await simloop.advance(limit + 5)
                await simloop.settle()
                out['late'] = {'waited': limit + 5, 'state': conn.state.name, 'registered': conn in net.peer_connections,
                               'remote_sees_eof': h_r.at_eof(),
                               'closes': [r for cid, st, r in states if cid == id(conn) and st == 'CLOSED']}
            if (conn is not None and not case['then_eof'] and case['first'] == 'peerinit'
                    and case.get('ctype') not in (None, 'F')):
                # a complete, decodable init and the peer stays connected: its next frame is parsed (delivered, or the
                # connection is closed) and a peer that then goes silent is dropped by the read time-out — whatever the
                # connection type it announced. (Type F is handed to the transfer manager, which is not part of this rig.)
                n0 = len([d for d in delivered if d[0] == id(conn)])
                nxt = (m.DistributedBranchLevel.Request(3) if case.get('ctype') == 'D'
                       else m.PeerUserInfoRequest.Request()).serialize()
                if case['obf']:
                    from aioslsk.protocol import obfuscation
                    nxt = obfuscation.encode(nxt, b'\x11\x22\x33\x44') if conn.obfuscated else nxt
                try:
                    h_w.write(nxt)
                except Exception:  # noqa: BLE001  (already closed by the library: fine)
                    pass
                await simloop.settle()
                await simloop.advance(1)
                after = {'delivered': len([d for d in delivered if d[0] == id(conn)]) - n0, 'state': conn.state.name,
                         'reader': bool(conn._reader_task is not None and not conn._reader_task.done()),
                         'connection_state': conn.connection_state.name}
                limit = max(float(conn.read_timeout or 0), 1.0)
                await simloop.advance(limit + 5)
                await simloop.settle()
                after.update({'waited': limit + 5, 'state_late': conn.state.name, 'registered_late': conn in net.peer_connections,
                              'remote_sees_eof_late': h_r.at_eof(),
                              'closes': [r for cid, st, r in states if cid == id(conn) and st == 'CLOSED']})
                out['after_init'] = after
            await net.disconnect()
        finally:
            fn.uninstall()

    try:
        simloop.run(main, wall_timeout=20)
    except Exception as e:  # noqa: BLE001
        out['exc'] = f'{type(e).__name__}: {e}'
    return out


ODD_TYPES = ['Q', 'T', 'p', 'd', 'f', '\x10', 'X', '', 'PD', 'PP', 'DD', 'FP', 'é', 'P ', ' P', 'P\x00', 'x' * 40]


def accept_case(rng: random.Random, table: list, m, p) -> dict:
    obf = rng.random() < 0.4
    ctype = None
    tickets = rng.choice([[], [77], [77, 78]])
    kind = rng.choice(['peerinit', 'pierce-known', 'pierce-unknown', 'other-msg', 'undecodable', 'unknown-code',
                       'truncated', 'nothing', 'lying-length', 'garbage-body'])
    then_eof = rng.random() < 0.5
    if kind == 'peerinit':
        # a well-formed init whose connection type is one of the three the protocol knows — or is not (a flipped bit, a
        # lower-case letter, empty, two letters …): decodable all the same, the connection must not be left without a reader
        ctype = rng.choice(['P', 'D', 'F']) if rng.random() < 0.55 else rng.choice(ODD_TYPES)
        frame = m.PeerInit.Request('someone', ctype, rng.choice([1, 5, 2 ** 32 - 1])).serialize()
    elif kind == 'pierce-known' and tickets:
        frame = m.PeerPierceFirewall.Request(tickets[0]).serialize()
    elif kind in ('pierce-known', 'pierce-unknown'):
        kind = 'pierce-unknown'
        frame = m.PeerPierceFirewall.Request(rng.choice([0, 1, 999, 2 ** 32 - 1])).serialize()
    elif kind == 'other-msg':
        frame = m.PeerUserInfoRequest.Request().serialize()      # a peer message where an init message is expected
    elif kind == 'undecodable':
        frame = fix_len(m.PeerInit.Request('someone', 'P', 5).serialize()[:rng.randrange(6, 14)])
    elif kind == 'unknown-code':
        frame = fix_len(struct.pack('<I', 0) + bytes([rng.choice([2, 7, 200, 255])]) + b'abc')
    elif kind == 'garbage-body':
        frame = fix_len(b'\x00\x00\x00\x00' + bytes(rng.randrange(256) for _ in range(rng.choice([1, 5, 40, 5000]))))
    elif kind == 'truncated':
        f = m.PeerInit.Request('someone', 'P', 5).serialize()
        frame = f[:rng.randrange(1, len(f))]
        then_eof = rng.random() < 0.5          # without EOF: the peer goes silent in the middle of its first frame
    elif kind == 'lying-length':
        frame = struct.pack('<I', rng.choice([1 << 20, 0xFFFFFFFF, 300, (1 << 18) + 1])) + b'\x01abc'
        then_eof = rng.random() < 0.5
    else:
        frame = b''
        then_eof = rng.random() < 0.5          # connects and never sends anything
    if obf and frame:
        from aioslsk.protocol import obfuscation
        wire = obfuscation.encode(frame, bytes(rng.randrange(256) for _ in range(4)))
        if kind in ('truncated', 'lying-length'):
            wire = wire[:max(1, len(wire) - rng.randrange(0, 3))] if kind == 'truncated' else wire
    else:
        wire = frame
    segs, left = [], len(wire)
    while left > 0:
        k = min(left, rng.choice([left, 1, 2, 3, 5, 9]))
        segs.append(k)
        left -= k
    return {'case_kind': 'accept', 'obf': obf, 'tickets': tickets, 'first': kind, 'stream': wire, 'segments': segs,
            'then_eof': then_eof, 'ctype': ctype}


# ------------------------------------------------------------------------------------------------
# K_C02c — full client, handlers
# ------------------------------------------------------------------------------------------------

def eval_client(case: dict) -> dict:
    from aioslsk.client import SoulSeekClient
    from aioslsk.settings import Settings
    from aioslsk.events import MessageReceivedEvent
    from aioslsk.network.connection import ConnectionState
    m, p, _ = _mods()
    table = case['table']
    out = {'received': 0, 'sent': 0, 'dead_after': None, 'exc': None}

    async def main(loop):
        net = fakenet.FakeNet().install()
        try:
            srv = simserver.SimServer()
            net.endpoints[2416] = fakenet.Endpoint('accept', srv.handler)
            s = Settings(credentials={'username': 'me', 'password': 'pw'},
                         network={'server': {'hostname': 'srv', 'port': 2416},
                                  'listening': {'port': 60000, 'obfuscated_port': 60001},
                                  'upnp': {'enabled': False}})
            c = SoulSeekClient(s)
            keep = []

            async def on_msg(ev):
                out['received'] += 1
            keep.append(on_msg)
            c.events.register(MessageReceivedEvent, on_msg)
            await c.start()
            await c.login()
            await asyncio.sleep(1)
            sc = c.network.server_connection
            base = out['received']
            for k, (idx, vals) in enumerate(case['msgs']):
                try:
                    data = wc.build(m, p, table[idx], vals).serialize()
                except Exception:
                    continue
                before = out['received']
                srv.send(data)
                out['sent'] += 1
                await asyncio.sleep(0.01)      # (a server-sent interval of 0 makes a background task spin on
                await asyncio.sleep(0.01)      #  sleep(0): the loop never quiesces; time advances by `tick`)
                task = sc._reader_task
                dead = task is None or task.done()
                if (dead and sc.state == ConnectionState.CONNECTED) or out['received'] == before:
                    out['dead_after'] = {'index': k, 'class': f'{table[idx]["name"]}.{table[idx]["dir"]}',
                                         'reader_done': dead, 'state': sc.state.name,
                                         'delivered': out['received'] > before}
                    break
            out['loop_exc'] = [e for e in loop.exceptions]
            await c.stop()
        finally:
            net.uninstall()

    try:
        simloop.run(main, wall_timeout=30, tick=1e-4)
    except Exception as e:  # noqa: BLE001
        out['exc'] = f'{type(e).__name__}: {e}'
    return out


def eval_client_peer(case: dict) -> dict:
    """Full client; a remote peer connects in (P or D connection) and sends every message class of that family
    through the real handlers of all managers. The reader must not stop while the connection stays CONNECTED."""
    from aioslsk.client import SoulSeekClient
    from aioslsk.settings import Settings
    from aioslsk.events import MessageReceivedEvent
    from aioslsk.network.connection import ConnectionState
    m, p, _ = _mods()
    table = case['table']
    out = {'received': 0, 'sent': 0, 'dead_after': None, 'exc': None, 'reconnects': 0}

    async def main(loop):
        net = fakenet.FakeNet().install()
        try:
            srv = simserver.SimServer()
            net.endpoints[2416] = fakenet.Endpoint('accept', srv.handler)
            s = Settings(credentials={'username': 'me', 'password': 'pw'},
                         network={'server': {'hostname': 'srv', 'port': 2416},
                                  'listening': {'port': 60000, 'obfuscated_port': 60001},
                                  'upnp': {'enabled': False}})
            c = SoulSeekClient(s)
            keep = []
            seen = []

            async def on_msg(ev):
                seen.append(id(ev.connection))
            keep.append(on_msg)
            c.events.register(MessageReceivedEvent, on_msg)
            await c.start()
            await c.login()
            await asyncio.sleep(1)
            typ = case['typ']
            conn = w = None

            async def connect():
                nonlocal conn, w
                before = list(c.network.peer_connections)
                _r, w = await net.connect_in(60000, ('10.0.0.9', 40000 + out['reconnects']))
                w.write(m.PeerInit.Request('hostile', typ, 7).serialize())
                await asyncio.sleep(0.01)
                new = [x for x in c.network.peer_connections if x not in before]
                conn = new[0] if new else None
                out['reconnects'] += 1

            await connect()
            for k, (idx, vals) in enumerate(case['msgs']):
                if conn is None or conn.state != ConnectionState.CONNECTED or w._closed:
                    await connect()
                    if conn is None:
                        out['dead_after'] = {'index': k, 'class': 'PeerInit', 'reader_done': None,
                                             'state': 'not-accepted', 'delivered': False}
                        break
                try:
                    data = wc.build(m, p, table[idx], vals).serialize()
                except Exception:
                    continue
                n0 = len([x for x in seen if x == id(conn)])
                w.write(data)
                out['sent'] += 1
                await asyncio.sleep(0.01)
                await asyncio.sleep(0.01)
                task = conn._reader_task
                dead = task is None or task.done()
                delivered = len([x for x in seen if x == id(conn)]) > n0
                if (dead and conn.state == ConnectionState.CONNECTED) or \
                        (not delivered and conn.state == ConnectionState.CONNECTED):
                    out['dead_after'] = {'index': k, 'class': f'{table[idx]["name"]}.{table[idx]["dir"]}',
                                         'reader_done': dead, 'state': conn.state.name, 'delivered': delivered}
                    break
            out['loop_exc'] = [e for e in loop.exceptions]
            await c.stop()
        finally:
            net.uninstall()

    try:
        simloop.run(main, wall_timeout=30, tick=1e-4)
    except Exception as e:  # noqa: BLE001
        out['exc'] = f'{type(e).__name__}: {e}'
    return out


class C02(Property):
    id = 'C02'
    props_module = 'AioslskVerif.Props.C02'
    driver_module = 'AioslskVerif.Driver.C02'
    rule = ('(a) frames: valid encodings of every class mutated by truncation, bit flips, lying counts, trailing '
            'bytes, invalid UTF-8/cp1252, other codes, noise, cut bodies; (b) streams of 0..8 well-framed frames '
            '(45% with hostile bodies) + optional truncated / lying tail, plain or obfuscated, cut into segments '
            '(whole, 1-byte, header cuts, random) on server / peer / distributed connections; (c) full client: '
            'sequences of server messages of every class through the real handlers. non-trivial = frame that is '
            'not a verbatim valid encoding / stream with >= 2 frames / client sequence with >= 3 messages; '
            'distinct = distinct bytes')
    assumptions = [
        'read time-outs are not modelled (virtual time in the harness; streams end with EOF)',
        'compressed classes are kept out of the stream correspondence (the Lean driver has no zlib); their '
        'decoders are covered by K_C02a with the inflated payload supplied',
        'TCP segmentation is modelled by feeding a real asyncio.StreamReader in segments',
    ]
    modelled = ('decoders of primitives.py / dispatchers (see C01), DataConnection._read_message, _read, '
                '_message_reader_loop, decode_message_data (connection.py:295-383, 520-551); exercised only: '
                'on_peer_accepted, message handlers of all managers (full-client configuration)')

    def __init__(self):
        self.table = None

    def regenerate(self):
        rel, self.table = schema_tr.generate(common.REPO, common.LEAN)
        return [rel]

    def _table(self):
        if self.table is None:
            self.table = schema_tr.extract(common.REPO)
        return self.table

    def correspondence(self, seed, tier, model_ok, widen=1):
        res = KResult()
        rng = random.Random(f'C02-{seed}')
        table = self._table()
        m, p, _ = _mods()
        # ---- (a) decoders
        per = (12 if tier == 'quick' else 200) * widen
        acases, tags = [], []
        for idx, s in enumerate(table):
            for _ in range(per):
                data = wc.build(m, p, s, wc.gen_message(rng, s)).serialize()
                tag, fr = mutate(rng, data)
                fam, d = s['family'], s['dir']
                if rng.random() < 0.1:
                    fam, d = rng.choice(list(wc.FAMILY_DISPATCH))
                acases.append((table, fam, d, fr))
                tags.append(tag)
        aout = common.parallel_map(eval_decode, acases, chunksize=64)
        model = None
        if model_ok:
            lines = [f'dec {fam} {d} {wc.hexs(fr)} {infl}' for (_t, fam, d, fr), (_r, _dt, infl) in zip(acases, aout)]
            model = common.run_driver(self.driver_file, lines)
        else:
            res.model_available = False
        for k, ((_t, fam, d, fr), (r, dt, _infl)) in enumerate(zip(acases, aout)):
            res.evaluations += 1
            res.count('a:' + tags[k])
            res.count('a-result:' + ' '.join(r.split()[:2] if r.startswith('err') else r.split()[:1]))
            case = {'kind': 'frame', 'family': fam, 'dir': d, 'frame': wc.hexs(fr), 'mutation': tags[k]}
            if tags[k] != 'valid':
                res.nontrivial_keys.add(common.sha(case['frame'] + fam + d))
            if r.startswith('fatal'):
                res.violations.append(Violation('C02-decoder-fatal', f'dispatcher raised a non-Exception: {r}', case, observed=r))
            if r == 'HANG':
                res.violations.append(Violation('C02-decoder-hang', f'parsing a frame of {len(fr)} bytes does not terminate '
                                                f'(stopped by the harness after {DECODE_LIMIT:.0f} s)', case, observed=r))
                continue
            if dt > 2.0:
                res.violations.append(Violation('C02-decoder-work', f'decoding {len(fr)} bytes took {dt:.1f}s', case, observed=dt))
            if model is not None:
                res.traces_validated += 1
                if model[k] != r:
                    res.disagreements.append(Disagreement(case, r[:200], model[k][:200], 'decode'))
        # ---- (b) reader loops
        nb = (260 if tier == 'quick' else 5000) * widen
        bcases = []
        for _ in range(nb):
            c = stream_case(rng, table, m, p)
            c['table'] = table
            bcases.append(c)
        bout = common.parallel_map(eval_stream, bcases, chunksize=8)
        bmodel = None
        if model_ok:
            blines = [f'{"readerSilent" if c.get("end") == "silence" else "reader"} {1 if c["obf"] else 0} {c["fam"]} {c["dir"]} '
                      f'{wc.hexs(c["stream"])}' for c in bcases]
            bmodel = common.run_driver(self.driver_file, blines)
        for k, (c, o) in enumerate(zip(bcases, bout)):
            res.evaluations += 1
            res.count('b:' + c['kind'] + (':obf' if c['obf'] else ''))
            res.count('b-seg:' + c['seg_mode'])
            case = {k2: v for k2, v in c.items() if k2 != 'table'}
            case['stream'] = wc.hexs(c['stream'])
            case['case_kind'] = 'stream'
            if len(c['frames']) >= 2:
                res.nontrivial_keys.add(common.sha(case['stream'] + c['kind']))
            if o.get('exc'):
                res.violations.append(Violation('C02-harness-or-impl-error', o['exc'], case, observed=o['exc']))
                continue
            close = o['close'][0] if o['close'] else None
            impl_line = ' | '.join(o['delivered'] + ['C ' + {'EOF': 'eof', 'READ_ERROR': 'readError', 'TIMEOUT': 'timeout'}.get(close, str(close))])
            res.count('b-end:' + c.get('end', 'eof') + (':tail' if c['tail'] else ''))
            # monitor
            exp = expected_deliveries(c, table, m)
            if o['delivered'] != exp:
                res.violations.append(Violation(
                    'C02-delivery', 'delivered messages differ from the decodable frames in order', case,
                    observed=[x[:80] for x in o['delivered']], required=[x[:80] for x in exp]))
            if o['mid_task_done'] and o['mid_state'] == 'CONNECTED':
                res.violations.append(Violation('C02-reader-died', 'reader task ended while the connection stayed CONNECTED',
                                                case, observed=o.get('task_exc')))
            if o['task_done'] and o['state'] == 'CONNECTED':
                res.violations.append(Violation('C02-reader-died', 'reader task ended while the connection stayed CONNECTED',
                                                case, observed=o.get('task_exc')))
            if not o['task_done']:
                if c.get('end') == 'silence':
                    res.violations.append(Violation(
                        'C02-reader-parked', f'the peer went silent ({"in the middle of a frame" if c["tail"] else "between frames"}): '
                        f'{o.get("timeouts_waited")} x ({o.get("read_timeout")} s read time-out + 2 s) later the reader still waits and the connection is '
                        f'{o["state"]} — it never gives up on a frame that does not complete', case, observed=o['state'],
                        required='closed by the read time-out'))
                else:
                    res.violations.append(Violation('C02-reader-stuck', 'reader task still running after EOF', case))
            if len(o['close']) != 1:
                res.violations.append(Violation('C02-close-count', f'CLOSED reported {len(o["close"])} times', case))
            if o['bystander'] != 'CONNECTED' or not o['registry_has_bystander']:
                res.violations.append(Violation('C02-bystander', 'another connection was affected', case, observed=o['bystander']))
            if o['loop_exc']:
                res.violations.append(Violation('C02-loop-exception', 'exception reached the loop handler', case, observed=o['loop_exc'][:2]))
            if bmodel is not None:
                res.traces_validated += 1
                if bmodel[k] != impl_line:
                    res.disagreements.append(Disagreement(case, impl_line[:300], bmodel[k][:300], 'reader'))
            if len(res.samples) < 2 and 1 <= len(c['frames']) <= 3 and len(c['stream']) < 120:
                res.samples.append({'case': case, 'impl': impl_line[:200]})
        # ---- (d) accepted connections
        nd = (150 if tier == 'quick' else 3000) * widen
        dcases = [accept_case(rng, table, m, p) for _ in range(nd)]
        dout = common.parallel_map(eval_accept, dcases, chunksize=8)
        dmodel = None
        if model_ok:
            dlines = [f'accept {1 if c["obf"] else 0} {wc.hexs(c["stream"])} {",".join(map(str, c["tickets"])) or "-"}'
                      for c in dcases]
            dmodel = common.run_driver(self.driver_file, dlines)
        for k, (c, o) in enumerate(zip(dcases, dout)):
            res.evaluations += 1
            res.count('d:first=' + c['first'])
            case = dict(c)
            case['stream'] = wc.hexs(c['stream'])
            res.nontrivial_keys.add(common.sha(case))
            if o.get('exc') or not o.get('accepted'):
                res.violations.append(Violation('C02-harness-or-impl-error', str(o.get('exc') or 'connection not accepted'), case))
                continue
            # the model speaks about a stream that ended (EOF); without EOF a still-incomplete first frame is pending
            complete = c['then_eof'] or c['first'] not in ('truncated', 'lying-length', 'nothing')
            if o['established']:
                impl_line = 'established'
            elif o['closes']:
                impl_line = 'closed ' + {'EOF': 'eof', 'READ_ERROR': 'readError', 'REQUESTED': 'requested'}.get(o['closes'][0], o['closes'][0])
            else:
                impl_line = 'pending'
            bad = c['first'] in ('undecodable', 'unknown-code', 'garbage-body', 'other-msg', 'pierce-unknown')
            if bad and (not o['closes'] or o['registered'] or not o['remote_sees_eof']):   # (state attribute: C10)
                res.violations.append(Violation(
                    'C02-bad-first-frame-not-closed', f'accepted connection with first frame "{c["first"]}" was not closed '
                    f'(state {o["state"]}, registered {o["registered"]}, remote sees EOF {o["remote_sees_eof"]})', case, observed=o))
            if not o['bystander_ok'] or o['bystander_delivered'] != 1 or not o['listening_ok']:
                res.violations.append(Violation('C02-bystander', 'another connection / the listening port was affected',
                                                case, observed=o))
            if o['loop_exc']:
                res.violations.append(Violation('C02-loop-exception', 'exception reached the loop handler', case, observed=o['loop_exc'][:2]))
            late = o.get('late')
            if late is not None and (len(late['closes']) != 1 or late['registered'] or not late['remote_sees_eof']):
                res.violations.append(Violation(
                    'C02-first-frame-parked', f'accepted connection whose first frame ("{c["first"]}") never completes and that '
                    f'gets no EOF is still there {late["waited"]:.0f} s later (state {late["state"]}, registered '
                    f'{late["registered"]}, remote sees EOF {late["remote_sees_eof"]}, CLOSED reported {len(late["closes"])} times)',
                    case, observed=late, required='closed by the read time-out, unregistered'))
            after = o.get('after_init')
            if after is not None:
                res.count('d:init-then-next-frame:' + ('known-type' if c.get('ctype') in ('P', 'D') else 'odd-type'))
                closed_early = after['state'] == 'CLOSED'
                # the frame may be delivered, or dropped as undecodable for that connection type (the stream stays in frame),
                # or the connection may be closed; what must not happen is that NOBODY reads the connection any more
                if not closed_early and after['delivered'] < 1 and not after['reader']:
                    res.violations.append(Violation(
                        'C02-nobody-reads-after-init', f'accepted connection that announced type {c.get("ctype")!r} in a '
                        f'well-formed PeerInit is open but has no reader: its next frame was neither parsed nor was the '
                        f'connection closed (state {after["state"]} / {after["connection_state"]})',
                        case, observed=after, required='a reader parses the next frame, or the connection is closed'))
                if len(after['closes']) != 1 or after['registered_late'] or not after['remote_sees_eof_late']:
                    res.violations.append(Violation(
                        'C02-connection-parked', f'accepted connection that announced type {c.get("ctype")!r} and then went '
                        f'silent is still there {after["waited"]:.0f} s later (state {after["state_late"]}, registered '
                        f'{after["registered_late"]}, remote sees EOF {after["remote_sees_eof_late"]}, CLOSED reported '
                        f'{len(after["closes"])} times)', case, observed=after, required='closed by the read time-out, unregistered'))
            if len(o.get('closes', [])) > 1:
                res.violations.append(Violation('C02-close-count', f'CLOSED reported {len(o["closes"])} times', case))
            if dmodel is not None and complete:
                res.traces_validated += 1
                if dmodel[k] != impl_line:
                    res.disagreements.append(Disagreement(case, impl_line, dmodel[k], 'accept'))
        # ---- (c) full client
        nc = (24 if tier == 'quick' else 400) * widen
        resp = [i for i, s in enumerate(table) if s['family'] == 'server' and s['dir'] == 'response' and s['name'] != 'Login']
        ccases = []
        for j in range(nc):
            msgs = []
            order = list(resp)
            rng.shuffle(order)
            for idx in order[:rng.randrange(20, 60)]:
                msgs.append((idx, wc.gen_message(rng, table[idx])))
                if rng.random() < 0.3:
                    msgs.append((idx, wc.gen_message(rng, table[idx])))     # same class twice in a row
            ccases.append({'table': table, 'msgs': msgs})
        cout = common.parallel_map(eval_client, ccases, chunksize=1)
        for c, o in zip(ccases, cout):
            res.evaluations += 1
            res.count('c:client-sequences')
            res.count('c:messages', o.get('sent', 0))
            case = {'case_kind': 'client', 'msgs': [[i, wc.show_message(v)] for i, v in c['msgs']]}
            if o.get('sent', 0) >= 3:
                res.nontrivial_keys.add(common.sha(case))
            if o.get('exc'):
                res.violations.append(Violation('C02-harness-or-impl-error', o['exc'], case, observed=o['exc']))
            elif o['dead_after'] is not None:
                da = o['dead_after']
                case['msgs'] = case['msgs'][:da['index'] + 1]
                res.violations.append(Violation(
                    'C02-reader-died', f'server reader stopped after {da["class"]} (message #{da["index"]}) while the '
                    f'connection is {da["state"]}', case, observed=da))
        # ---- (e) full client, peer / distributed connections through the real handlers
        ne = (16 if tier == 'quick' else 300) * widen
        ecases = []
        for j in range(ne):
            typ = 'P' if j % 2 == 0 else 'D'
            fam = 'peer' if typ == 'P' else 'distributed'
            cands = [i for i, s in enumerate(table) if s['family'] == fam and s['dir'] == 'request']
            msgs = []
            order = list(cands)
            rng.shuffle(order)
            for idx in (order * 3)[:rng.randrange(15, 40)]:
                msgs.append((idx, wc.gen_message(rng, table[idx])))
            ecases.append({'table': table, 'typ': typ, 'msgs': msgs})
        eout = common.parallel_map(eval_client_peer, ecases, chunksize=1)
        for c, o in zip(ecases, eout):
            res.evaluations += 1
            res.count('e:peer-client-sequences:' + c['typ'])
            res.count('e:messages', o.get('sent', 0))
            res.count('e:reconnects', o.get('reconnects', 0))
            case = {'case_kind': 'client-peer', 'typ': c['typ'], 'msgs': [[i, wc.show_message(v)] for i, v in c['msgs']]}
            if o.get('sent', 0) >= 3:
                res.nontrivial_keys.add(common.sha(case))
            if o.get('exc'):
                res.violations.append(Violation('C02-harness-or-impl-error', o['exc'], case, observed=o['exc']))
            elif o['dead_after'] is not None:
                da = o['dead_after']
                case['msgs'] = case['msgs'][:da['index'] + 1]
                res.violations.append(Violation(
                    'C02-reader-died', f'{c["typ"]} connection: reader stopped / message not delivered after {da["class"]} '
                    f'(message #{da["index"]}) while the connection is {da["state"]}', case, observed=da))
        return res

    def replay(self, case):
        table = self._table()
        m, p, _ = _mods()
        vs = []
        kind = case.get('case_kind', case.get('kind'))
        if kind == 'frame':
            fr = b'' if case['frame'] == '-' else bytes.fromhex(case['frame'])
            r, dt, _ = eval_decode((table, case['family'], case['dir'], fr))
            if r == 'HANG':
                vs.append(Violation('C02-decoder-hang', 'parsing does not terminate', case))
                return vs
            if r.startswith('fatal'):
                vs.append(Violation('C02-decoder-fatal', r, case))
            if dt > 2.0:
                vs.append(Violation('C02-decoder-work', f'{dt:.1f}s', case))
        elif kind == 'accept':
            c = dict(case)
            c['stream'] = b'' if case['stream'] == '-' else bytes.fromhex(case['stream'])
            o = eval_accept(c)
            bad = c['first'] in ('undecodable', 'unknown-code', 'garbage-body', 'other-msg', 'pierce-unknown')
            if bad and (not o.get('closes') or o.get('registered') or not o.get('remote_sees_eof')):
                vs.append(Violation('C02-bad-first-frame-not-closed', 'bad first frame, connection not closed', case, observed=o))
            late = o.get('late')
            if late is not None and (len(late['closes']) != 1 or late['registered'] or not late['remote_sees_eof']):
                vs.append(Violation('C02-first-frame-parked', 'unfinished first frame, no EOF: connection never closed', case,
                                    observed=late))
            if not o.get('bystander_ok') or o.get('bystander_delivered') != 1:
                vs.append(Violation('C02-bystander', 'another connection was affected', case, observed=o))
        elif kind == 'client-peer':
            msgs = [(i, _parse(table[i], txt)) for i, txt in case['msgs']]
            o = eval_client_peer({'table': table, 'typ': case['typ'], 'msgs': msgs})
            if o.get('dead_after') is not None:
                vs.append(Violation('C02-reader-died', f'peer reader stopped: {o["dead_after"]}', case, observed=o['dead_after']))
        elif kind == 'client':
            msgs = [(i, _parse(table[i], txt)) for i, txt in case['msgs']]
            o = eval_client({'table': table, 'msgs': msgs})
            if o['dead_after'] is not None:
                vs.append(Violation('C02-reader-died', f'server reader stopped: {o["dead_after"]}', case, observed=o['dead_after']))
        else:
            c = dict(case)
            c['stream'] = b'' if case['stream'] == '-' else bytes.fromhex(case['stream'])
            c['table'] = table
            o = eval_stream(c)
            exp = expected_deliveries(c, table, m)
            if o['delivered'] != exp:
                vs.append(Violation('C02-delivery', 'delivered != decodable frames in order', case,
                                    observed=o['delivered'], required=exp))
            if o.get('task_done') and o.get('state') == 'CONNECTED':
                vs.append(Violation('C02-reader-died', 'reader ended, connection CONNECTED', case))
            if not o.get('task_done') and c.get('end') == 'silence' and not o.get('exc'):
                vs.append(Violation('C02-reader-parked', 'reader still waits after the read time-out, connection '
                                    + str(o.get('state')), case))
        return vs


def _parse(schema, text):
    return wc.parse_message(text, schema)


PROPERTY = C02()
