"""C20 — bandwidth limits: correspondence K_C20 + monitor (see DESIGN.md, C20)."""
from __future__ import annotations

import random
import sys
import types
from typing import Any

from vlib import common
from vlib.common import KResult, Violation, Disagreement, Property
from translate import rate_constants

TPS = 1024          # ticks per second of the model clock; all readings are k/1024 s (dyadic → float-exact)
KNOWN_SIG = 'C20-full-bucket-stale-clock'


class _Clock:
    def __init__(self):
        self.ticks = 0

    def monotonic(self):
        return self.ticks / TPS


class _AsyncioProxy:
    """`asyncio` as seen by rate_limiter.py: everything real except `sleep`."""

    def __init__(self, sleep):
        self.sleep = sleep

    def __getattr__(self, name):
        import asyncio
        return getattr(asyncio, name)


def _run_impl(case: dict) -> list:
    """Run the op list on the real limiter / Network code under a real event loop. The limiter's
    `asyncio.sleep(INTERVAL)` is a gate the schedule opens; `time.monotonic` is the schedule's clock."""
    import asyncio
    import aioslsk.network.rate_limiter as rl
    from aioslsk.network.network import Network
    from aioslsk.settings import Settings
    from aioslsk.events import EventBus
    from vlib import simloop
    clock = _Clock()
    sleeps = []
    obs = []

    async def main(loop):
        gates = {}              # pid -> future: the poller is asleep inside take_tokens
        tasks = {}              # pid -> task of its pending take_tokens
        bound = {}              # pid -> limiter object of the pending call
        order = {}              # id(limiter) -> pids in order of arrival (harness bookkeeping)
        grants = []

        async def fake_sleep(d, *a, **k):
            pid = int(asyncio.current_task().get_name())
            sleeps.append(d)
            fut = loop.create_future()
            gates[pid] = fut
            await fut

        async def request(pid, lim):
            g = await lim.take_tokens()
            grants.append((pid, g))
            tasks.pop(pid, None)
            bound.pop(pid, None)
            if pid in order.get(id(lim), []):
                order[id(lim)].remove(pid)

        rl.asyncio = _AsyncioProxy(fake_sleep)
        net = None
        conns = []
        objs = []

        def idx(o):
            for i, x in enumerate(objs):
                if x is o:
                    return i
            objs.append(o)
            return len(objs) - 1

        async def drop_pending():
            for t in list(tasks.values()):
                t.cancel()
            if tasks:
                await asyncio.gather(*tasks.values(), return_exceptions=True)
            tasks.clear(); gates.clear(); bound.clear(); order.clear()

        for op in case['ops']:
            if op[0] == 'new':
                _, kbps, now = op
                await drop_pending()
                clock.ticks = now
                s = Settings(credentials={'username': 'u', 'password': 'p'},
                             network={'limits': {'upload_speed_kbps': kbps, 'download_speed_kbps': 0}})
                net = Network(s, EventBus())
                conns = [types.SimpleNamespace(upload_rate_limiter=net._upload_rate_limiter,
                                               download_rate_limiter=net._download_rate_limiter)
                         for _ in range(4)]
                net.peer_connections = conns
                objs[:] = [net._upload_rate_limiter]
                obs.append('ok')
            elif op[0] == 'set':
                net.set_upload_speed_limit(op[1])
                o = net._upload_rate_limiter
                idx(o)
                obs.append(f'ok {o.bucket} {_ticks(o.last_refill)}')
            elif op[0] == 'poll':
                _, pid, dt = op
                clock.ticks += dt
                grants.clear()
                if pid in tasks:
                    o = bound[pid]
                    if pid in gates:
                        gates.pop(pid).set_result(None)
                        status = 'polled'
                    else:
                        status = 'blocked'
                else:
                    o = conns[pid].upload_rate_limiter
                    locked = hasattr(o, '_lock') and o._lock.locked()
                    status = 'blocked' if locked else 'polled'
                    bound[pid] = o
                    order.setdefault(id(o), []).append(pid)
                    tasks[pid] = asyncio.ensure_future(request(pid, o))
                    tasks[pid].set_name(str(pid))
                await simloop.settle()
                holder = [q for q in order.get(id(o), []) if q in gates]
                queue = [q for q in order.get(id(o), []) if q not in gates]
                g = ','.join(f'{a}:{b}' for a, b in grants) or '-'
                if isinstance(o, rl.UnlimitedRateLimiter):
                    obs.append(f'{status} {idx(o)} {g} 0 0 - -')
                else:
                    obs.append(f'{status} {idx(o)} {g} {o.bucket} {_ticks(o.last_refill)} '
                               f'{holder[0] if holder else "-"} {",".join(map(str, queue)) or "-"}')
        await drop_pending()
        bad_sleeps = [d for d in sleeps if d != rl.INTERVAL]
        if bad_sleeps:
            obs.append(f'sleep-args {sorted(set(bad_sleeps))}')

    saved = (rl.time, rl.asyncio)
    rl.time = types.SimpleNamespace(monotonic=clock.monotonic)
    try:
        from vlib import simloop
        simloop.run(main, patch_clock=False, wall_timeout=30)
    finally:
        rl.time, rl.asyncio = saved
    return obs


def _run_free(case: dict) -> dict:
    """Monitor-only: k connections request tokens continuously through the REAL take_tokens with the real
    asyncio.sleep under virtual time (lockstep schedules). Returns per-connection (requests, max wait)."""
    import asyncio
    import aioslsk.network.rate_limiter as rl
    from vlib import simloop

    async def main(loop):
        lim = rl.RateLimiter.create_limiter(case['kbps'])
        waits = {i: [] for i in range(case['k'])}
        t_end = loop.time() + case['seconds']

        async def conn(i):
            await asyncio.sleep(case['offsets'][i])
            while loop.time() < t_end:
                t0 = loop.time()
                await lim.take_tokens()
                waits[i].append(loop.time() - t0)
                if case.get('pause'):
                    await asyncio.sleep(case['pause'])
        ts = [asyncio.ensure_future(conn(i)) for i in range(case['k'])]
        await asyncio.sleep(case['seconds'] + 5)
        pending = [i for i, t in enumerate(ts) if not t.done()]
        for t in ts:
            t.cancel()
        await asyncio.gather(*ts, return_exceptions=True)
        return {'served': {i: len(w) for i, w in waits.items()},
                'max_wait': {i: (max(w) if w else None) for i, w in waits.items()}, 'stuck': pending}
    res, _ = simloop.run(main, wall_timeout=60)        # time.monotonic follows the virtual clock
    return res


def _ticks(t: float):
    v = t * TPS
    return int(v) if v == int(v) else repr(v)


def _model_lines(case: dict) -> list[str]:
    out = []
    for op in case['ops']:
        out.append(' '.join(str(x) for x in op))
    return out


def _parse_obs(o: str):
    """`<status> <obj> <pid:grant,…|-> <bucket> <last> <holder|-> <queue|->`"""
    parts = o.split()
    grants = [] if parts[2] == '-' else [tuple(int(x) for x in g.split(':')) for g in parts[2].split(',')]
    return {'status': parts[0], 'obj': int(parts[1]), 'grants': grants, 'bucket': int(parts[3]),
            'holder': None if parts[5] == '-' else int(parts[5]),
            'queue': [] if parts[6] == '-' else [int(x) for x in parts[6].split(',')]}


def _monitor(case: dict, obs: list) -> list[Violation]:
    """Property statement on the implementation trace: per limiter *object* with limit L, grants in any window
    [t_i, t_j] ≤ L*(t_j - t_i) + L; unlimited grants are immediate; with disciplined polls every request is
    served within 16 holder polls per waiter ahead of it (no waiter is starved)."""
    import aioslsk.network.rate_limiter as rl
    vs = []
    now = 0
    limit_of = {}       # object index → limit in bytes/s (0 = unlimited)
    events = {}         # object index → list of (time, bytes granted at that instant, bucket full before?)
    n_objs = 0
    prev_bucket = {}
    waiting = {}        # pid → [object, holder polls seen since it arrived, waiters ahead at arrival]
    for op, o in zip(case['ops'], obs):
        if op[0] == 'new':
            now = op[2]
            limit_of = {0: op[1] * 1024}
            events = {}
            n_objs = 1
            prev_bucket = {0: 0}
            waiting = {}
        elif op[0] == 'set':
            limit_of[n_objs] = op[1] * 1024
            parts = o.split()
            prev_bucket[n_objs] = int(parts[1])
            n_objs += 1
        else:
            now += op[2]
            r = _parse_obs(o)
            oi = r['obj']
            L = limit_of.get(oi)
            pid = op[1]
            if L == 0:
                if not r['grants'] or r['grants'][0][1] <= 0:
                    vs.append(Violation('C20-unlimited-throttled', 'unlimited limiter did not grant at once',
                                        case, observed=o))
                continue
            full_before = prev_bucket.get(oi) == L
            tot = sum(g for _, g in r['grants'])
            if r['status'] == 'polled':
                events.setdefault(oi, []).append((now, tot, full_before))
                prev_bucket[oi] = r['bucket']
            # starvation bookkeeping (only meaningful for disciplined schedules)
            if pid not in waiting and not any(p == pid for p, _ in r['grants']):
                ahead = len([q for q in ([r['holder']] if r['holder'] is not None else []) + r['queue'] if q != pid])
                waiting[pid] = [oi, 0, ahead]
            if r['status'] == 'polled':
                for w in waiting.values():
                    if w[0] == oi:
                        w[1] += 1
            for p, _g in r['grants']:
                waiting.pop(p, None)
            if case.get('disciplined'):
                for p, (woi, polls, ahead) in waiting.items():
                    if polls > 17 * (ahead + 1) + 1:
                        vs.append(Violation('C20-starved', f'request of poller {p} not served after {polls} disciplined '
                                            f'holder polls of object {woi} ({ahead} waiters were ahead of it)', case))
                        waiting = {}
                        break
    q = rl.LimitedRateLimiter.MIN_BUCKET_SIZE
    for oi, evs in events.items():
        L = limit_of[oi]
        n = len(evs)
        for i in range(n):
            tot = 0
            for j in range(i, n):
                tot += evs[j][1]
                T = evs[j][0] - evs[i][0]
                if tot * TPS > L * T + L * TPS:
                    excess = tot - (L * T + L * TPS) / TPS
                    # known finding: the window starts on a full bucket (its refill clock is stale)
                    if evs[i][2] and tot * TPS <= L * T + (L + q) * TPS:
                        sig = KNOWN_SIG
                    else:
                        sig = 'C20-window-exceeded'
                    vs.append(Violation(sig, f'limit {L} B/s: {tot} bytes granted in {T}/{TPS} s '
                                        f'(bound {L}*T+{L}, excess {excess:.1f} B)', case,
                                        observed={'object': oi, 'from': i, 'to': j, 'bytes': tot, 'ticks': T},
                                        required=f'<= {L * T / TPS + L}'))
                    break
            else:
                continue
            break
    return vs


def _monitor_free(case: dict, res: dict) -> list[Violation]:
    """Free-running connections (real sleep, virtual time): every request returns within a bounded time."""
    k = case['k']
    bound = 0.17 * k + 0.05 + case.get('pause', 0)
    vs = []
    worst = max([w for w in res['max_wait'].values() if w is not None] or [0])
    starved = [i for i, n in res['served'].items() if n <= 1]
    if res['stuck'] and (worst > bound or starved):
        pass
    if worst > bound or (starved and case['seconds'] > 5):
        vs.append(Violation('C20-starved', f'{k} connections at {case["kbps"]} KiB/s: a request waited {worst:.2f} s '
                            f'(bound {bound:.2f} s); requests served per connection {res["served"]}', case,
                            observed=res, required=f'every take_tokens() returns within {bound:.2f} s'))
    return vs


GAPS = [0, 0, 1, 1, 2, 5, 10, 11, 11, 12, 20, 64, 512, 1024, 1025, 5000, 3600 * 1024]


def _gen_case(rng: random.Random, size: int) -> dict:
    kind = rng.choice(['lone', 'fair', 'fair', 'multi', 'changes', 'changes', 'burst'])
    limits = [1, 1, 2, 3, 7, 50, 100, 1000, 9999, 10000, rng.randint(1, 10000)]
    k0 = rng.choice(limits + [0])
    ops: list = [['new', k0, rng.choice([0, 1, 1023, 1024, 5000, 10 ** 6, rng.randint(0, 10 ** 7)])]]
    n = rng.randint(1, size)
    if kind == 'lone':
        for _ in range(n):
            ops.append(['poll', 0, rng.choice([11, 11, 12, 20, 11, 1024, 100])])
    elif kind == 'fair':
        # up to 4 pollers, every step at least 11 ticks after the previous one: whoever holds the lock is
        # polled with the library's discipline; the others arrive / are stepped while blocked (no-ops)
        k = rng.randint(2, 4)
        ops[0][1] = rng.choice([1, 1, 2, 3, 50])
        for _ in range(max(n, 40)):
            ops.append(['poll', rng.randrange(k), rng.choice([11, 11, 12, 13, 20])])
    elif kind == 'burst':
        ops.append(['poll', 0, rng.choice([0, 2048, 10240])])
        for _ in range(n):
            ops.append(['poll', rng.randint(0, 3), rng.choice([0, 0, 0, 1])])
    else:
        for _ in range(n):
            r = rng.random()
            if kind == 'changes' and r < 0.12:
                ops.append(['set', rng.choice(limits + [0, 0])])
            else:
                ops.append(['poll', rng.randint(0, 3), rng.choice(GAPS)])
    return {'ops': ops, 'lone': kind == 'lone', 'disciplined': kind in ('lone', 'fair'), 'kind': kind}


def _gen_free(rng: random.Random) -> dict:
    k = rng.randint(2, 4)
    offs = rng.choice([[0.0] * k, [i * 0.0001 for i in range(k)], [i * 0.0025 for i in range(k)],
                       [rng.choice([0, 0.001, 0.005, 0.0099, 0.01]) for _ in range(k)]])
    return {'kind': 'free', 'k': k, 'kbps': rng.choice([1, 1, 2, 5, 50]), 'offsets': offs,
            'seconds': rng.choice([20, 40]), 'pause': rng.choice([0, 0, 0.003])}


# limit lowered onto a fuller bucket -> bucket full; 10 s idle; then 10 polls at one instant
WITNESS = {'ops': [['new', 2, 10240], ['poll', 0, 0], ['set', 1], ['poll', 0, 10240]] + [['poll', 0, 0]] * 10,
           'lone': False, 'disciplined': False, 'kind': 'witness'}
# fixed finding (dde9e7c): connections polling in lockstep starved each other
FREE_WITNESSES = [{'kind': 'free', 'k': 2, 'kbps': 1, 'offsets': [0, 0.0001], 'seconds': 40, 'pause': 0},
                  {'kind': 'free', 'k': 4, 'kbps': 1, 'offsets': [0, 0, 0, 0], 'seconds': 40, 'pause': 0}]


def _eval_free(case):
    try:
        return _run_free(case)
    except Exception as e:       # noqa: BLE001
        return {'exc': f'{type(e).__name__}: {e}'}


def _eval_case(case):
    try:
        return _run_impl(case)
    except Exception as e:       # the real code raised: an observation, not a harness crash
        return [f'EXC {type(e).__name__}: {e}']


class C20(Property):
    id = 'C20'
    props_module = 'AioslskVerif.Props.C20'
    driver_module = 'AioslskVerif.Driver.C20'
    rule = ('op sequences (new/poll/set) over 1..4 pollers, limits {0,1..10000} KiB/s, gaps from 0 to 1 h on a '
            '1/1024 s grid, derived from VERIF_SEED; a case is non-trivial when a limited limiter both granted and '
            'refused at least once; plus free-running lockstep connections (real sleep under virtual time, monitor only); '
            'distinct = distinct canonical op list')
    assumptions = [
        'time.monotonic is monotone; clock readings restricted to multiples of 1/1024 s where the float '
        'expression (limit-bucket)*dt is exact (float rounding off that grid is not modelled)',
        'asyncio.sleep(INTERVAL) is replaced by a scripted yield: the schedule decides how long a poller really slept',
    ]
    modelled = ('rate_limiter.py (create_limiter, refill, take_tokens loop with its FIFO lock, add_tokens, copy_tokens), '
                'Network.set_upload_speed_limit / set_download_speed_limit; not modelled: float rounding, the '
                'send_file/receive_file byte loops (C04)')

    def regenerate(self):
        return [rate_constants.generate(common.REPO, common.LEAN)]

    def correspondence(self, seed, tier, model_ok, widen=1):
        res = KResult()
        rng = random.Random(f'C20-{seed}')
        n = (400 if tier == 'quick' else 6000) * widen
        cases = [WITNESS] + [_gen_case(rng, rng.choice([8, 30, 80, 200])) for _ in range(n)]
        impl = common.parallel_map(_eval_case, cases)
        model = None
        if model_ok:
            lines, spans = [], []
            for c in cases:
                ls = _model_lines(c)
                spans.append((len(lines), len(ls)))
                lines += ls
            out = common.run_driver(self.driver_file, lines)
            model = [out[a:a + k] for a, k in spans]
        else:
            res.model_available = False
        for i, c in enumerate(cases):
            res.evaluations += 1
            res.count('kind:' + c['kind'])
            res.count('ops', len(c['ops']))
            io = impl[i]
            if any(o.startswith('EXC') or o.startswith('sleep-args') for o in io):
                res.count('impl-error')
                res.violations.append(Violation('C20-impl-error', 'limiter raised / slept a wrong interval', c, observed=io[-1]))
                continue
            polled = [o for op, o in zip(c['ops'], io) if op[0] == 'poll']
            if any(' - ' in o.split(' ', 2)[2][:3] or o.split()[2] == '-' for o in polled) and \
                    any(o.split()[2] != '-' for o in polled):
                res.nontrivial_keys.add(common.sha(c['ops']))
            if any(o.startswith('blocked') for o in polled):
                res.count('cases-with-blocked-waiter')
            if any(',' in o.split()[2] for o in polled):
                res.count('cases-with-cascade')
            if model is not None:
                res.traces_validated += 1
                if model[i] != io:
                    k = next((j for j, (a, b) in enumerate(zip(model[i], io)) if a != b), min(len(model[i]), len(io)))
                    res.disagreements.append(Disagreement(c, io[k] if k < len(io) else None,
                                                          model[i][k] if k < len(model[i]) else None,
                                                          f'op #{k} {c["ops"][k] if k < len(c["ops"]) else ""}'))
            res.violations += _monitor(c, io)
            if len(res.samples) < 3 and len(c['ops']) < 12:
                res.samples.append({'case': c, 'impl': io})
        # free-running lockstep connections: monitor only (real asyncio.sleep under virtual time)
        nf = (10 if tier == 'quick' else 200) * widen
        fcases = FREE_WITNESSES + [_gen_free(rng) for _ in range(nf)]
        fout = common.parallel_map(_eval_free, fcases, chunksize=1)
        for c, r in zip(fcases, fout):
            res.evaluations += 1
            res.count('kind:free')
            res.nontrivial_keys.add(common.sha(c))
            if 'exc' in r:
                res.violations.append(Violation('C20-impl-error', r['exc'], c, observed=r))
            else:
                res.violations += _monitor_free(c, r)
        return res

    def replay(self, case):
        if case.get('kind') == 'free':
            return _monitor_free(case, _eval_free(case))
        return _monitor(case, _eval_case(case))

    def known_witnesses(self):
        return [(KNOWN_SIG, WITNESS)]


PROPERTY = C20()
