"""C20 — bandwidth limits: correspondence K_C20 + monitor (see DESIGN.md, C20)."""
from __future__ import annotations

import random
import sys
import types
from typing import Any

from vlib import common
from vlib.common import KResult, Violation, Disagreement, Property
from translate import rate_constants

TPS = 1024          # ticks per second of the model clock; all readings are k/1024 s (dyadic → float-exact)
KNOWN_SIG = 'C20-full-bucket-stale-clock'


class _Yield:
    def __await__(self):
        yield None


class _Clock:
    def __init__(self):
        self.ticks = 0

    def monotonic(self):
        return self.ticks / TPS


def _run_impl(case: dict) -> list:
    """Run the op list on the real limiter / Network code. Returns one observation per op."""
    import aioslsk.network.rate_limiter as rl
    from aioslsk.network.network import Network
    from aioslsk.settings import Settings
    from aioslsk.events import EventBus
    clock = _Clock()
    sleeps = []

    async def fake_sleep(d, *a, **k):
        sleeps.append(d)
        await _Yield()

    fake_time = types.SimpleNamespace(monotonic=clock.monotonic)
    fake_asyncio = types.SimpleNamespace(sleep=fake_sleep)
    saved = (rl.time, rl.asyncio)
    rl.time, rl.asyncio = fake_time, fake_asyncio
    obs = []
    try:
        net = None
        conns = []
        objs = []               # limiter objects in creation order (identity → index)
        coros = {}              # poller → (coroutine, limiter object)

        def idx(o):
            for i, x in enumerate(objs):
                if x is o:
                    return i
            objs.append(o)
            return len(objs) - 1

        for op in case['ops']:
            if op[0] == 'new':
                _, kbps, now = op
                clock.ticks = now
                s = Settings(credentials={'username': 'u', 'password': 'p'},
                             network={'limits': {'upload_speed_kbps': kbps, 'download_speed_kbps': 0}})
                net = Network(s, EventBus())
                conns = [types.SimpleNamespace(upload_rate_limiter=net._upload_rate_limiter,
                                               download_rate_limiter=net._download_rate_limiter)
                         for _ in range(4)]
                net.peer_connections = conns
                objs = [net._upload_rate_limiter]
                for c, _o in coros.values():
                    c.close()
                coros = {}
                obs.append('ok')
            elif op[0] == 'set':
                net.set_upload_speed_limit(op[1])
                o = net._upload_rate_limiter
                idx(o)
                obs.append(f'ok {o.bucket} {_ticks(o.last_refill)}')
            elif op[0] == 'poll':
                _, pid, dt = op
                clock.ticks += dt
                if pid in coros:
                    co, o = coros[pid]
                else:
                    o = conns[pid].upload_rate_limiter
                    co = o.take_tokens()
                try:
                    co.send(None)
                    coros[pid] = (co, o)
                    grant = 0
                except StopIteration as e:
                    coros.pop(pid, None)
                    grant = e.value
                obs.append(f'{grant} {idx(o)} {o.bucket} {_ticks(o.last_refill)}')
        for c, _o in coros.values():
            c.close()
        bad_sleeps = [d for d in sleeps if d != rl.INTERVAL]
        if bad_sleeps:
            obs.append(f'sleep-args {sorted(set(bad_sleeps))}')
    finally:
        rl.time, rl.asyncio = saved
    return obs


def _ticks(t: float):
    v = t * TPS
    return int(v) if v == int(v) else repr(v)


def _model_lines(case: dict) -> list[str]:
    out = []
    for op in case['ops']:
        out.append(' '.join(str(x) for x in op))
    return out


def _monitor(case: dict, obs: list) -> list[Violation]:
    """Property statement on the implementation trace: per limiter *object* with limit L,
    grants in any window [t_i, t_j] ≤ L*(t_j - t_i) + L; unlimited grants are positive."""
    import aioslsk.network.rate_limiter as rl
    vs = []
    now = 0
    limit_of = {}       # object index → limit in bytes/s (0 = unlimited)
    cur_limit = None
    events = {}         # object index → list of (time, grant, bucket_before_full?)
    n_objs = 0
    prev_bucket = {}
    for op, o in zip(case['ops'], obs):
        if op[0] == 'new':
            now = op[2]
            limit_of = {0: op[1] * 1024}
            events = {}
            n_objs = 1
            prev_bucket = {0: 0}
        elif op[0] == 'set':
            limit_of[n_objs] = op[1] * 1024
            parts = o.split()
            prev_bucket[n_objs] = int(parts[1])
            n_objs += 1
        else:
            now += op[2]
            parts = o.split()
            grant, oi, bucket = int(parts[0]), int(parts[1]), int(parts[2])
            L = limit_of.get(oi)
            if L == 0:
                if grant <= 0:
                    vs.append(Violation('C20-unlimited-throttled', 'unlimited limiter did not grant at once',
                                        case, observed=o))
                continue
            full_before = prev_bucket.get(oi) == L
            events.setdefault(oi, []).append((now, grant, full_before))
            prev_bucket[oi] = bucket
    q = rl.LimitedRateLimiter.MIN_BUCKET_SIZE
    for oi, evs in events.items():
        L = limit_of[oi]
        n = len(evs)
        for i in range(n):
            tot = 0
            for j in range(i, n):
                tot += evs[j][1]
                T = evs[j][0] - evs[i][0]
                if tot * TPS > L * T + L * TPS:
                    excess = tot - (L * T + L * TPS) / TPS
                    # known finding: the window starts on a full bucket (its refill clock is stale)
                    if evs[i][2] and tot * TPS <= L * T + (L + q) * TPS:
                        sig = KNOWN_SIG
                    else:
                        sig = 'C20-window-exceeded'
                    vs.append(Violation(sig, f'limit {L} B/s: {tot} bytes granted in {T}/{TPS} s '
                                        f'(bound {L}*T+{L}, excess {excess:.1f} B)', case,
                                        observed={'object': oi, 'from': i, 'to': j, 'bytes': tot, 'ticks': T},
                                        required=f'<= {L * T / TPS + L}'))
                    break
            else:
                continue
            break
    # progress: a lone poller obeying the discipline (dt >= 11 ticks > INTERVAL) on one object gets a grant
    # within 16 consecutive polls
    streak = {}
    for op, o in zip(case['ops'], obs):
        if op[0] != 'poll':
            streak = {}
            continue
        parts = o.split()
        grant, oi = int(parts[0]), int(parts[1])
        if limit_of.get(oi, 0) == 0:
            continue
        if grant == 0 and op[2] >= 11:
            streak[oi] = streak.get(oi, 0) + 1
            if streak[oi] > 16 and case.get('lone'):
                vs.append(Violation('C20-starved', f'17 disciplined polls of object {oi} without a grant', case))
                break
        else:
            streak[oi] = 0
    return vs


GAPS = [0, 0, 1, 1, 2, 5, 10, 11, 11, 12, 20, 64, 512, 1024, 1025, 5000, 3600 * 1024]


def _gen_case(rng: random.Random, size: int) -> dict:
    kind = rng.choice(['lone', 'lone', 'multi', 'changes', 'changes', 'burst'])
    limits = [1, 1, 2, 3, 7, 50, 100, 1000, 9999, 10000, rng.randint(1, 10000)]
    k0 = rng.choice(limits + [0])
    ops: list = [['new', k0, rng.choice([0, 1, 1023, 1024, 5000, 10 ** 6, rng.randint(0, 10 ** 7)])]]
    n = rng.randint(1, size)
    if kind == 'lone':
        for _ in range(n):
            ops.append(['poll', 0, rng.choice([11, 11, 12, 20, 11, 1024, 100])])
    elif kind == 'burst':
        ops.append(['poll', 0, rng.choice([0, 2048, 10240])])
        for _ in range(n):
            ops.append(['poll', rng.randint(0, 3), rng.choice([0, 0, 0, 1])])
    else:
        for _ in range(n):
            r = rng.random()
            if kind == 'changes' and r < 0.12:
                ops.append(['set', rng.choice(limits + [0, 0])])
            else:
                ops.append(['poll', rng.randint(0, 3) if kind != 'lone' else 0, rng.choice(GAPS)])
    return {'ops': ops, 'lone': kind == 'lone', 'kind': kind}


# limit lowered onto a fuller bucket -> bucket full; 10 s idle; then 10 polls at one instant
WITNESS = {'ops': [['new', 2, 10240], ['poll', 0, 0], ['set', 1], ['poll', 0, 10240]] + [['poll', 0, 0]] * 10,
           'lone': False, 'kind': 'witness'}


def _eval_case(case):
    try:
        return _run_impl(case)
    except Exception as e:       # the real code raised: an observation, not a harness crash
        return [f'EXC {type(e).__name__}: {e}']


class C20(Property):
    id = 'C20'
    props_module = 'AioslskVerif.Props.C20'
    driver_module = 'AioslskVerif.Driver.C20'
    rule = ('op sequences (new/poll/set) over 1..4 pollers, limits {0,1..10000} KiB/s, gaps from 0 to 1 h on a '
            '1/1024 s grid, derived from VERIF_SEED; a case is non-trivial when a limited limiter both granted and '
            'refused at least once; distinct = distinct canonical op list')
    assumptions = [
        'time.monotonic is monotone; clock readings restricted to multiples of 1/1024 s where the float '
        'expression (limit-bucket)*dt is exact (float rounding off that grid is not modelled)',
        'asyncio.sleep(INTERVAL) is replaced by a scripted yield: the schedule decides how long a poller really slept',
    ]
    modelled = ('rate_limiter.py (create_limiter, refill, take_tokens loop, add_tokens, copy_tokens), '
                'Network.set_upload_speed_limit / set_download_speed_limit; not modelled: float rounding, the '
                'send_file/receive_file byte loops (C04)')

    def regenerate(self):
        return [rate_constants.generate(common.REPO, common.LEAN)]

    def correspondence(self, seed, tier, model_ok, widen=1):
        res = KResult()
        rng = random.Random(f'C20-{seed}')
        n = (400 if tier == 'quick' else 6000) * widen
        cases = [WITNESS] + [_gen_case(rng, rng.choice([8, 30, 80, 200])) for _ in range(n)]
        impl = common.parallel_map(_eval_case, cases)
        model = None
        if model_ok:
            lines, spans = [], []
            for c in cases:
                ls = _model_lines(c)
                spans.append((len(lines), len(ls)))
                lines += ls
            out = common.run_driver(self.driver_file, lines)
            model = [out[a:a + k] for a, k in spans]
        else:
            res.model_available = False
        for i, c in enumerate(cases):
            res.evaluations += 1
            res.count('kind:' + c['kind'])
            res.count('ops', len(c['ops']))
            io = impl[i]
            grants = [int(o.split()[0]) for op, o in zip(c['ops'], io) if op[0] == 'poll' and o[0].isdigit()]
            if any(g == 0 for g in grants) and any(g == 128 for g in grants):
                res.nontrivial_keys.add(common.sha(c['ops']))
            if any(o.startswith('EXC') or o.startswith('sleep-args') for o in io):
                res.violations.append(Violation('C20-impl-error', 'limiter raised / slept a wrong interval', c, observed=io[-1]))
                continue
            if model is not None:
                res.traces_validated += 1
                if model[i] != io:
                    k = next((j for j, (a, b) in enumerate(zip(model[i], io)) if a != b), min(len(model[i]), len(io)))
                    res.disagreements.append(Disagreement(c, io[k] if k < len(io) else None,
                                                          model[i][k] if k < len(model[i]) else None, f'op #{k} {c["ops"][k] if k < len(c["ops"]) else ""}'))
            res.violations += _monitor(c, io)
            if len(res.samples) < 3 and len(c['ops']) < 12:
                res.samples.append({'case': c, 'impl': io})
        return res

    def replay(self, case):
        return _monitor(case, _eval_case(case))

    def known_witnesses(self):
        return [(KNOWN_SIG, WITNESS)]


PROPERTY = C20()
