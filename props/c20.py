"""C20 — bandwidth limits: correspondence K_C20 + monitor (see DESIGN.md, C20)."""
from __future__ import annotations

import random
import sys
import types
from typing import Any

from vlib import common
from vlib.common import KResult, Violation, Disagreement, Property
from translate import rate_constants

TPS = 1024          # ticks per second of the model clock; all readings are k/1024 s (dyadic → float-exact)
KNOWN_SIG = 'C20-full-bucket-stale-clock'
INFLIGHT_SIG = 'C20-inflight-read-grants'


class _Clock:
    def __init__(self):
        self.ticks = 0

    def monotonic(self):
        return self.ticks / TPS


class _AsyncioProxy:
    """`asyncio` as seen by rate_limiter.py: everything real except `sleep`."""

    def __init__(self, sleep):
        self.sleep = sleep

    def __getattr__(self, name):
        import asyncio
        return getattr(asyncio, name)


def _run_impl(case: dict) -> list:
    """Run the op list on the real limiter / Network code under a real event loop. The limiter's
    `asyncio.sleep(INTERVAL)` is a gate the schedule opens; `time.monotonic` is the schedule's clock."""
    import asyncio
    import aioslsk.network.rate_limiter as rl
    from aioslsk.network.network import Network
    from aioslsk.settings import Settings
    from aioslsk.events import EventBus
    from vlib import simloop
    clock = _Clock()
    sleeps = []
    obs = []

    via = case.get('via', 'direct')          # direct: the harness calls take_tokens; send_file / receive_file: the real
    down = via == 'receive_file'             # chunk loops of a FILE PeerConnection do, one chunk per poll op
    lim_attr = 'download_rate_limiter' if down else 'upload_rate_limiter'

    async def main(loop):
        gates = {}              # pid -> future: the poller is asleep inside take_tokens
        idle = {}               # pid -> future: the chunk loop finished a chunk and waits to start the next (via != direct)
        tasks = {}              # pid -> task (direct: the pending take_tokens; otherwise the whole send_file/receive_file)
        grants = []

        async def fake_sleep(d, *a, **k):
            pid = int(asyncio.current_task().get_name())
            sleeps.append(d)
            fut = loop.create_future()
            gates[pid] = fut
            await fut

        def granted(pid, g):
            grants.append((pid, g))

        async def request(pid, lim):
            g = await lim.take_tokens()
            tasks.pop(pid, None)
            granted(pid, g)

        async def park(pid):
            fut = loop.create_future()
            idle[pid] = fut
            await fut

        class Wire:                       # writer of an uploading file connection: a chunk on the wire = a grant
            def __init__(self, pid):
                self.pid = pid
            def write(self, data):
                granted(self.pid, len(data))
            async def drain(self):
                await park(self.pid)
            def close(self):
                pass
            def is_closing(self):
                return False
            async def wait_closed(self):
                return None
            def get_extra_info(self, k, d=None):
                return ('10.0.0.1', 1)

        class Src:
            async def read(self, n):
                return b'x' * n

        class Feed:                       # reader of a downloading file connection: as many bytes as asked for
            async def read(self, n):
                return b'y' * n

        class Sink:
            def __init__(self, pid):
                self.pid = pid
            async def write(self, data):
                granted(self.pid, len(data))
                await park(self.pid)

        def start_chunks(pid):
            c = conns[pid]
            co = c.receive_file(Sink(pid), 1 << 62) if down else c.send_file(Src())
            tasks[pid] = asyncio.ensure_future(co)
            tasks[pid].set_name(str(pid))

        def sleeping_on(pid):
            """the limiter object in whose take_tokens loop the poller is asleep (innermost take_tokens frame)"""
            t = tasks.get(pid)
            c = t.get_coro() if t is not None else None
            found = None
            while c is not None:
                fr = getattr(c, 'cr_frame', None)
                if fr is not None and fr.f_code.co_name == 'take_tokens':
                    found = fr.f_locals.get('self')
                c = getattr(c, 'cr_await', None)
            return found

        def show_obj(o):
            if isinstance(o, rl.UnlimitedRateLimiter):
                return f'U {o.bucket} {_ticks(o.last_refill)}'
            holder = [q for q in sorted(gates) if sleeping_on(q) is o]
            lock = getattr(o, '_lock', None)
            waiters = list(getattr(lock, '_waiters', None) or [])
            by_fut = {id(getattr(t, '_fut_waiter', None)): q for q, t in tasks.items()}
            queue = [by_fut.get(id(w), '?') for w in waiters if not w.cancelled()]
            return (f'L {o.bucket} {_ticks(o.last_refill)} {",".join(map(str, holder)) or "-"} '
                    f'{",".join(map(str, queue)) or "-"}')

        rl.asyncio = _AsyncioProxy(fake_sleep)
        net = None
        conns = []
        objs = []

        def idx(o):
            for i, x in enumerate(objs):
                if x is o:
                    return i
            objs.append(o)
            return len(objs) - 1

        async def drop_pending():
            for t in list(tasks.values()):
                t.cancel()
            if tasks:
                await asyncio.gather(*tasks.values(), return_exceptions=True)
            tasks.clear(); gates.clear(); idle.clear()

        for op in case['ops']:
            if op[0] == 'new':
                _, kbps, now = op
                await drop_pending()
                clock.ticks = now
                s = Settings(credentials={'username': 'u', 'password': 'p'},
                             network={'limits': {'upload_speed_kbps': 0 if down else kbps,
                                                 'download_speed_kbps': kbps if down else 0}})
                net = Network(s, EventBus())
                cur = net._download_rate_limiter if down else net._upload_rate_limiter
                if via == 'direct':
                    conns = [types.SimpleNamespace(upload_rate_limiter=net._upload_rate_limiter,
                                                   download_rate_limiter=net._download_rate_limiter)
                             for _ in range(4)]
                    net.peer_connections = conns
                else:
                    from aioslsk.network.connection import PeerConnection, ConnectionState
                    conns = []
                    for pid in range(4):
                        c = PeerConnection('10.0.0.2', 1000 + pid, net, connection_type='F', username=f'p{pid}')
                        c._writer = Wire(pid)
                        c._reader = Feed()
                        c.state = ConnectionState.CONNECTED
                        net.peer_connections.append(c)
                        net._finalize_peer_connection(c)       # the real hand-out of the limiter objects
                        conns.append(c)
                objs[:] = [cur]
                obs.append('ok')
            elif op[0] in ('set', 'load'):
                if op[0] == 'load':
                    # the limit comes from the settings and is (re)applied with load_speed_limits(), as the client does on a
                    # settings change — also when the settings still hold the value they had at the last load
                    lim = net._settings.network.limits
                    if down:
                        lim.download_speed_kbps = op[1]
                    else:
                        lim.upload_speed_kbps = op[1]
                    net.load_speed_limits()
                else:
                    (net.set_download_speed_limit if down else net.set_upload_speed_limit)(op[1])
                o = net._download_rate_limiter if down else net._upload_rate_limiter
                idx(o)
                obs.append(f'ok {o.bucket} {_ticks(o.last_refill)}')
            elif op[0] == 'poll':
                _, pid, dt = op
                clock.ticks += dt
                grants.clear()
                if pid in tasks and pid not in idle:          # a request of this poller is pending
                    if pid in gates:
                        gates.pop(pid).set_result(None)        # asleep as a lock holder: the sleep is over
                else:
                    o = getattr(conns[pid], lim_attr)
                    idx(o)
                    if via == 'direct':
                        tasks[pid] = asyncio.ensure_future(request(pid, o))
                        tasks[pid].set_name(str(pid))
                    elif pid in idle:
                        idle.pop(pid).set_result(None)          # next chunk: the loop looks its limiter up itself
                    else:
                        start_chunks(pid)
                await simloop.settle()
                dead = [q for q, t in tasks.items() if t.done() and via != 'direct']
                if dead:
                    obs.append(f'chunk-loop-ended {dead} {[repr(tasks[q].exception()) if not tasks[q].cancelled() else "cancelled" for q in dead]}')
                    break
                fate = 'granted' if any(a == pid for a, _ in grants) else 'asleep' if pid in gates else \
                    'queued' if (pid in tasks and pid not in idle) else 'none'
                g = ','.join(f'{a}:{b}' for a, b in grants) or '-'
                obs.append(f'{fate} {g} | ' + ' ; '.join(show_obj(x) for x in objs))
        await drop_pending()
        bad_sleeps = [d for d in sleeps if d != rl.INTERVAL]
        if bad_sleeps:
            obs.append(f'sleep-args {sorted(set(bad_sleeps))}')

    saved = (rl.time, rl.asyncio)
    rl.time = types.SimpleNamespace(monotonic=clock.monotonic)
    try:
        from vlib import simloop
        simloop.run(main, patch_clock=False, wall_timeout=30)
    finally:
        rl.time, rl.asyncio = saved
    return obs


def _run_free(case: dict) -> dict:
    """Monitor-only: k connections request tokens continuously through the REAL take_tokens with the real
    asyncio.sleep under virtual time (lockstep schedules). Returns per-connection (requests, max wait)."""
    import asyncio
    import aioslsk.network.rate_limiter as rl
    from vlib import simloop

    async def main(loop):
        lim = rl.RateLimiter.create_limiter(case['kbps'])
        waits = {i: [] for i in range(case['k'])}
        t_end = loop.time() + case['seconds']

        async def conn(i):
            await asyncio.sleep(case['offsets'][i])
            while loop.time() < t_end:
                t0 = loop.time()
                await lim.take_tokens()
                waits[i].append(loop.time() - t0)
                if case.get('pause'):
                    await asyncio.sleep(case['pause'])
        ts = [asyncio.ensure_future(conn(i)) for i in range(case['k'])]
        await asyncio.sleep(case['seconds'] + 5)
        pending = [i for i, t in enumerate(ts) if not t.done()]
        for t in ts:
            t.cancel()
        await asyncio.gather(*ts, return_exceptions=True)
        return {'served': {i: len(w) for i, w in waits.items()},
                'max_wait': {i: (max(w) if w else None) for i, w in waits.items()}, 'stuck': pending,
                'interval': rl.INTERVAL, 'quantum': rl.LimitedRateLimiter.MIN_BUCKET_SIZE}
    res, _ = simloop.run(main, wall_timeout=60)        # time.monotonic follows the virtual clock
    return res


def _run_wire(case: dict) -> dict:
    """Monitor-only: real PeerConnection.send_file / receive_file of FILE connections registered with a real
    Network, real limiter objects and the real asyncio.sleep under virtual time; the limit is changed at run time
    through Network.set_upload_speed_limit / set_download_speed_limit. Records every chunk put on / taken off
    the wire with its virtual time."""
    import asyncio
    from aioslsk.network.network import Network
    from aioslsk.network.connection import PeerConnection, ConnectionState
    from aioslsk.settings import Settings
    from aioslsk.events import EventBus
    from vlib import simloop
    up = case['dir'] == 'up'

    class Wire:
        def __init__(self, loop, log):
            self.loop, self.log, self._closed = loop, log, False
        def write(self, data):
            self.log.append((self.loop.time(), len(data)))
        async def drain(self):
            return None
        def close(self):
            self._closed = True
        def is_closing(self):
            return self._closed
        async def wait_closed(self):
            return None
        def get_extra_info(self, k, d=None):
            return ('10.0.0.1', 1)

    class Src:
        def __init__(self, n):
            self.left = n
        async def read(self, n):
            k = min(n, self.left)
            self.left -= k
            return b'x' * k

    class Sink:
        async def write(self, data):
            return len(data)

    async def main(loop):
        t0 = loop.time()
        lim = {'upload_speed_kbps': case['start'], 'download_speed_kbps': 0} if up else \
              {'upload_speed_kbps': 0, 'download_speed_kbps': case['start']}
        net = Network(Settings(credentials={'username': 'u', 'password': 'p'}, network={'limits': lim}), EventBus())
        log = []
        done = {}
        tasks = []
        for i in range(case['k']):
            conn = PeerConnection('10.0.0.2', 1000 + i, net, connection_type='F', username=f'p{i}')
            conn._writer = Wire(loop, log)
            conn.state = ConnectionState.CONNECTED
            net.peer_connections.append(conn)
            net._finalize_peer_connection(conn)
            if up:
                co = conn.send_file(Src(case['size']))
            else:
                r = asyncio.StreamReader()
                plan = (case.get('feeds') or [None] * case['k'])[i]
                if plan is None:
                    r.feed_data(b'y' * case['size'])             # everything is there already: reads are never short
                else:
                    async def feeder(r=r, plan=plan):             # packets arrive when the peer sends them: short reads, stalls
                        for at, n in plan:
                            await asyncio.sleep(max(0.0, t0 + at - loop.time()))
                            r.feed_data(b'y' * n)
                    tasks.append(asyncio.ensure_future(feeder()))
                conn._reader = r
                granted_at = [None]
                _rd = conn.receive_data

                async def receive_data(nb, _rd=_rd, granted_at=granted_at):
                    granted_at[0] = loop.time()              # the tokens for this read have just been granted
                    return await _rd(nb)
                conn.receive_data = receive_data
                co = conn.receive_file(Sink(), case['size'],
                                       callback=lambda d, g=granted_at: log.append((loop.time(), len(d), g[0])))

            async def run(i=i, co=co):
                await asyncio.sleep(case['offsets'][i])
                await co
                done[i] = loop.time() - t0
            tasks.append(asyncio.ensure_future(run()))

        async def control():
            for at, kbps in case['changes']:
                await asyncio.sleep(max(0.0, t0 + at - loop.time()))
                (net.set_upload_speed_limit if up else net.set_download_speed_limit)(kbps)
        ctl = asyncio.ensure_future(control())
        await asyncio.sleep(case['seconds'])
        for t in tasks + [ctl]:
            t.cancel()
        await asyncio.gather(*tasks, ctl, return_exceptions=True)
        return {'log': [(round(e[0] - t0, 6), e[1]) + ((round(e[2] - t0, 6),) if len(e) > 2 and e[2] is not None else ()) for e in log], 'done': done}
    res, _ = simloop.run(main, wall_timeout=90)
    return res


def _monitor_wire(case: dict, res: dict) -> list[Violation]:
    """bytes moved by all file connections together in any window inside a period with a positive limit
    ≤ ∫L dt + max L + one grant quantum at the start and per limit change (the bound of `C20_window_piecewise_partial`:
    the known full-bucket quantum; requests pending on a replaced limiter object are handed to its successor and are
    NOT served on top of the new limit); no throttling without a limit; progress."""
    vs = []
    changes = [(0.0, case['start'])] + [(a, k) for a, k in case['changes']]
    def limit_at(t):
        cur = changes[0][1]
        for a, k in changes:
            if a <= t:
                cur = k
        return cur * 1024
    # log entries: (time the bytes moved, bytes, time the tokens for them were granted). Uploads put a chunk on the wire in the
    # step in which it was granted; a download takes its tokens BEFORE the read and the bytes move when the peer delivers them.
    agg: dict = {}
    for e in res['log']:
        t, b_, tg = (e[0], e[1], e[2] if len(e) > 2 else e[0])
        a_ = agg.setdefault(t, [0, []])
        a_[0] += b_
        a_[1].append((b_, tg))
    log = sorted(agg.items())
    n = len(log)
    q = 128
    starts = [a for a, _ in changes]
    lims = [k * 1024 for _, k in changes]
    def seg_of(t):
        s_ = 0
        for m, a in enumerate(starts):
            if a < t or (a <= t and m == 0):
                s_ = m
            elif a == t:                # a chunk at the very instant of a change: judged by the more generous side
                if lims[s_] != 0 and (lims[m] == 0 or lims[m] > lims[s_]):
                    s_ = m
        return s_
    segs = [seg_of(t) for t, _ in log]
    known = None
    for i in range(n):
        if lims[segs[i]] == 0:
            continue
        tot, pre, mx, si = 0, 0, 0, segs[i]
        t1 = log[i][0]
        for j in range(i, n):
            sj = segs[j]
            if lims[sj] == 0:
                break
            mx = max([mx] + lims[si:sj + 1])
            tot += log[j][1][0]
            pre += sum(b_ for b_, tg in log[j][1][1] if tg < t1 - 1e-9)     # granted before the window began (reads in flight)
            t2 = log[j][0]
            # `C20_window_piecewise_partial`: Lmax·T + Lmax + one quantum at the start and per limit change
            bound = mx * (t2 - t1) + mx + q * (sj - si + 1)
            if tot - pre > bound + 1e-6:
                vs.append(Violation('C20-window-exceeded', f'{case["dir"]}load, {case["k"]} connection(s): {tot - pre} bytes granted and '
                                    f'moved in [{t1:.3f}, {t2:.3f}] s (+ {pre} granted earlier), allowed {bound:.0f} '
                                    f'(limits {changes})', case,
                                    observed={'bytes': tot - pre, 'granted_earlier': pre, 'from': t1, 'to': t2}, required=f'<= {bound:.0f}'))
                return vs
            if tot > bound + 1e-6 and known is None:
                known = Violation(INFLIGHT_SIG, f'download, {case["k"]} connection(s): {tot} bytes moved in [{t1:.3f}, {t2:.3f}] s, '
                                  f'allowed {bound:.0f}; {pre} of them were granted before the window began (reads in flight: '
                                  f'tokens are taken before the read, the bytes move when the peer delivers them)', case,
                                  observed={'bytes': tot, 'granted_earlier': pre, 'from': t1, 'to': t2}, required=f'<= {bound:.0f}')
    if known is not None:
        vs.append(known)
    # no limit at the end: everything still to send goes out at once; positive limit: keeps moving
    last_at, last_k = changes[-1]
    feeds = case.get('feeds') or [None] * case['k']
    total = sum(case['size'] if pl is None else min(case['size'], sum(n for _a, n in pl)) for pl in feeds)   # what the peers supply
    moved = sum(v[0] for _, v in log)
    if not any(pl is None for pl in feeds):
        return vs                     # every peer only trickles: how much moves is up to them (window bound judged above)
    tail = case['seconds'] - max(last_at, max(case['offsets']))
    if last_k == 0 and tail >= 1.0 and moved < total:
        vs.append(Violation('C20-unlimited-throttled', f'limit lifted at {last_at}s but only {moved} of {total} bytes moved '
                            f'{tail:.1f}s later', case, observed={'moved': moved, 'done': res['done']}))
    if last_k > 0 and tail >= 3.0 and moved < total:
        after = sum(v[0] for t, v in log if t >= max(last_at, max(case['offsets'])) + 1.0)
        expect = 0.5 * last_k * 1024 * (tail - 1.0)
        if after < min(expect, total - moved + after) * 0.5:
            vs.append(Violation('C20-starved', f'limit {last_k} KiB/s for the last {tail:.1f}s but only {after} bytes moved in it', case,
                                observed={'moved_after': after}))
    return vs


def _gen_wire(rng: random.Random) -> dict:
    k = rng.randint(1, 3)
    lims = [0, 1, 5, 10, 50, 200, 1000]
    start = rng.choice(lims)
    nchg = rng.choice([0, 1, 1, 2, 3])
    # change instants sit between the 10 ms polling grid points of the connections (offsets 0 / 1 ms / 0.3 s)
    ats = sorted(rng.choice([0.2, 0.5, 1.0, 1.5, 2.5, 4.0]) + rng.randrange(30) * 0.01 + 0.005 for _ in range(nchg))
    changes = [[round(a, 3), rng.choice(lims)] for a in ats]
    case = {'kind': 'wire', 'dir': rng.choice(['up', 'down']), 'k': k, 'start': start, 'changes': changes,
            'size': rng.choice([2048, 65536, 524288, 4 * 1024 * 1024]), 'seconds': (ats[-1] if ats else 1.0) + rng.choice([1.5, 3.5, 6.0]),
            'offsets': [rng.choice([0, 0, 0.001, 0.3]) for _ in range(k)]}
    if case['dir'] == 'down' and rng.random() < 0.6:
        # what the peers really send: some connections have everything available at once, others get small packets late
        # (reads that were started long before — possibly under another limit — return short)
        feeds = []
        for _ in range(k):
            r = rng.random()
            if r < 0.4:
                feeds.append(None)
            else:
                t, plan = 0.0, []
                for _ in range(rng.randint(1, 12)):
                    t += rng.choice([0.0, 0.013, 0.1, 0.5, 0.5, 1.0, 2.0])
                    plan.append([round(t, 3), rng.choice([1, 50, 100, 100, 127, 128, 129, 1000, 8191, 8192, 20000])])
                feeds.append(plan)
        case['feeds'] = feeds
        if changes and rng.random() < 0.5:
            # a peer with everything available that only starts after a limit change (one that starts while no limit is in
            # force is done at once): it is the traffic that can use whatever the others leave or hand back
            fl = [i for i, pl in enumerate(feeds) if pl is None] or [0]
            feeds[fl[0]] = None
            case['offsets'][fl[0]] = round(rng.choice(changes)[0] + rng.choice([0.05, 0.1, 0.5]), 3)
        case['seconds'] = max(case['seconds'], max([pl[-1][0] for pl in feeds if pl] or [0]) + 2.0)
    return case


# known finding: two downloads are granted 128 B each and then wait 3 s for their peers (the bucket refills meanwhile);
# when the data comes, the 2 x 128 B granted long ago move together with a whole fresh bucket
INFLIGHT_WITNESS = {'kind': 'wire', 'dir': 'down', 'k': 3, 'start': 1, 'changes': [], 'size': 65536, 'seconds': 6.0,
                    'offsets': [0, 0, 0], 'feeds': [[[3.0, 65536]], [[3.0, 65536]], [[3.0, 65536]]]}
WIRE_WITNESSES = [
    {'kind': 'wire', 'dir': 'down', 'k': 3, 'start': 0, 'changes': [[0.505, 4]], 'size': 4 * 1024 * 1024, 'seconds': 7.0,
     'offsets': [0.6, 0, 0], 'feeds': [None, [[3.0, 100]], [[3.5, 100], [4.0, 100]]]},
    {'kind': 'wire', 'dir': 'up', 'k': 1, 'start': 200, 'changes': [[1.0, 10]], 'size': 4 * 1024 * 1024, 'seconds': 4.5, 'offsets': [0]},
    {'kind': 'wire', 'dir': 'up', 'k': 2, 'start': 0, 'changes': [[0.5, 10]], 'size': 4 * 1024 * 1024, 'seconds': 4.0, 'offsets': [0, 0]},
    {'kind': 'wire', 'dir': 'down', 'k': 1, 'start': 200, 'changes': [[1.0, 10]], 'size': 4 * 1024 * 1024, 'seconds': 4.5, 'offsets': [0]},
    {'kind': 'wire', 'dir': 'up', 'k': 1, 'start': 10, 'changes': [[1.0, 0]], 'size': 524288, 'seconds': 3.0, 'offsets': [0]},
]


def _eval_wire(case):
    try:
        return _run_wire(case)
    except Exception as e:       # noqa: BLE001
        return {'exc': f'{type(e).__name__}: {e}'}


def _ticks(t: float):
    v = t * TPS
    return int(v) if v == int(v) else repr(v)


def _model_lines(case: dict) -> list[str]:
    out = []
    for op in case['ops']:
        out.append(' '.join(str(x) for x in (['set'] + list(op[1:]) if op[0] == 'load' else op)))
    return out


def _parse_obs(o: str):
    """`<fate> <pid:grant,…|-> | <obj> ; <obj> ; …` with obj = `U <bucket> <last>` | `L <bucket> <last> <holder|-> <queue|->`"""
    head, _, tail = o.partition(' | ')
    fate, g = head.split()
    grants = [] if g == '-' else [tuple(int(x) for x in y.split(':')) for y in g.split(',')]
    objs = []
    for t in tail.split(' ; '):
        f = t.split()
        if f[0] == 'U':
            objs.append({'kind': 'U', 'bucket': int(f[1])})
        else:
            objs.append({'kind': 'L', 'bucket': int(f[1]),
                         'holder': None if f[3] == '-' else int(f[3].split(',')[0]),
                         'queue': [] if f[4] == '-' else [int(x) if x != '?' else -1 for x in f[4].split(',')]})
    return {'fate': fate, 'grants': grants, 'objs': objs}


def _polls_needed(q: int, gap_ticks: float) -> int:
    """Empty polls (at least `gap_ticks`/1024 s apart) after which the holder of the lock is granted q tokens at the
    smallest limit (1 KiB/s): each credits at least floor((1024 - (q - 1)) * gap) tokens. 16 + 1 for the constants of
    the pinned source (q = 128, 10 ms); recomputed from the constants the code has now, so that a retuned quantum or
    sleep interval moves the bound instead of raising an alarm. 0: no progress is guaranteed at all."""
    gain = int((1024 - (q - 1)) * gap_ticks // 1024)
    return 0 if gain <= 0 else -(-q // gain) + 1


def _monitor(case: dict, obs: list) -> list[Violation]:
    """Property statement on the implementation trace. All requests together: the bytes granted in any window
    [t_i, t_j] during which a positive limit was in force throughout are ≤ ∫L dt + max L (limit changes included;
    + one grant quantum per poll that found the bucket full — the known stale-clock finding); while no limit is in
    force no request sleeps and a new request is granted at once; with disciplined polls every request is served
    within `need` holder polls per waiter ahead of it (no waiter is starved)."""
    import aioslsk.network.rate_limiter as rl
    vs = []
    now = 0
    L = 0               # limit in force, bytes/s (0 = unlimited)
    events = []         # (time, bytes granted in that step, limit in force, 1 if the poll found the bucket full)
    sets = []           # (time, new limit)
    pending = set()
    cur_bucket = 0
    waiting = {}        # pid → [holder polls seen since it arrived, waiters ahead at arrival]
    q = rl.LimitedRateLimiter.MIN_BUCKET_SIZE
    need = _polls_needed(q, 10)      # disciplined polls are >= 10 ticks apart
    for k, (op, o) in enumerate(zip(case['ops'], obs)):
        if op[0] == 'new':
            now, L = op[2], op[1] * 1024
            events, sets, pending, waiting, cur_bucket = [], [], set(), {}, 0
        elif op[0] in ('set', 'load'):
            L = op[1] * 1024
            sets.append((now, L, k))
            cur_bucket = int(o.split()[1])
        else:
            now += op[2]
            pid = op[1]
            try:
                r = _parse_obs(o)
            except (ValueError, IndexError):
                continue
            was_pending = pid in pending
            tot = sum(g for _, g in r['grants'])
            cur = r['objs'][-1]
            if L == 0:
                if r['fate'] == 'asleep' or (not was_pending and r['fate'] != 'granted') or \
                        any(g <= 0 for _, g in r['grants']):
                    vs.append(Violation('C20-unlimited-throttled', f'no limit in force but the request of poller {pid} was '
                                        f'not granted at once ({r["fate"]})', case, observed=o))
            else:
                polled = r['fate'] != 'queued' or bool(r['grants'])
                if polled or tot:
                    events.append((now, tot, L, 1 if (cur['kind'] == 'L' and cur_bucket == L and tot) else 0, k))
            cur_bucket = cur['bucket']
            # bookkeeping of pending requests
            for a, _g in r['grants']:
                pending.discard(a)
                waiting.pop(a, None)
            if r['fate'] in ('asleep', 'queued'):
                pending.add(pid)
            # starvation (only meaningful for disciplined schedules: one object, no limit changes)
            if case.get('disciplined') and cur['kind'] == 'L':
                if pid not in waiting and r['fate'] in ('asleep', 'queued') and not was_pending:
                    ahead = len([x for x in ([cur['holder']] if cur['holder'] is not None else []) + cur['queue'] if x != pid])
                    waiting[pid] = [0, ahead]
                if was_pending and r['fate'] != 'queued' or (not was_pending and r['fate'] in ('asleep', 'granted')):
                    for w in waiting.values():
                        w[0] += 1
                for x, (polls, ahead) in waiting.items():
                    if need and polls > need * (ahead + 1) + 1:
                        vs.append(Violation('C20-starved', f'request of poller {x} not served after {polls} disciplined '
                                            f'holder polls ({ahead} waiters were ahead of it)', case))
                        waiting = {}
                        break
    # window bound of `C20_window_piecewise_partial`: bytes granted while a limit is in force, in any window, are at most
    # Lmax·T + Lmax (Lmax = the largest limit in force at any moment of the window, T its whole length, periods without
    # a limit included) — plus one quantum per poll that found the bucket full (the known stale-clock finding)
    n = len(events)
    for i in range(n):
        tot, mx, full = 0, 0, 0
        for j in range(i, n):
            t, g, Lj, fb, k = events[j]
            mx = max([mx, Lj] + [l0 for (_a, l0, ks) in sets if events[i][4] < ks < k])
            tot += g
            full += fb
            T = t - events[i][0]
            if tot * TPS > mx * T + mx * TPS:
                excess = tot - (mx * T + mx * TPS) / TPS
                sig = KNOWN_SIG if (full and tot * TPS <= mx * T + (mx + q * full) * TPS) else 'C20-window-exceeded'
                vs.append(Violation(sig, f'largest limit in force {mx} B/s: {tot} bytes granted under a limit in {T}/{TPS} s '
                                    f'(bound {mx}*T+{mx}, excess {excess:.1f} B)', case,
                                    observed={'from_op': events[i][4], 'to_op': k, 'bytes': tot, 'ticks': T},
                                    required=f'<= {mx * T / TPS + mx}'))
                break
        else:
            continue
        break
    return vs


def _monitor_free(case: dict, res: dict) -> list[Violation]:
    """Free-running connections (real sleep, virtual time): every request returns within a bounded time."""
    k = case['k']
    # per waiter ahead in the FIFO: the polls a holder needs at the smallest limit, one sleep interval each
    # (0.17 s for q = 128 and 10 ms sleeps); no guaranteed gain per poll at all -> only starvation is judged
    need = _polls_needed(res.get('quantum', 128), res.get('interval', 0.01) * TPS)
    per = need * res.get('interval', 0.01) if need else case['seconds']
    bound = per * k + 0.05 + case.get('pause', 0)
    vs = []
    worst = max([w for w in res['max_wait'].values() if w is not None] or [0])
    starved = [i for i, n in res['served'].items() if n <= 1]
    if res['stuck'] and (worst > bound or starved):
        pass
    if worst > bound or (starved and case['seconds'] > 5):
        vs.append(Violation('C20-starved', f'{k} connections at {case["kbps"]} KiB/s: a request waited {worst:.2f} s '
                            f'(bound {bound:.2f} s); requests served per connection {res["served"]}', case,
                            observed=res, required=f'every take_tokens() returns within {bound:.2f} s'))
    return vs


GAPS = [0, 0, 1, 1, 2, 5, 10, 11, 11, 12, 20, 64, 512, 1024, 1025, 5000, 3600 * 1024]


def _gen_case(rng: random.Random, size: int) -> dict:
    kind = rng.choice(['lone', 'fair', 'fair', 'multi', 'changes', 'changes', 'burst', 'offon', 'sniper'])
    limits = [1, 1, 2, 3, 7, 50, 100, 1000, 9999, 10000, rng.randint(1, 10000)]
    k0 = rng.choice(limits + [0])
    ops: list = [['new', k0, rng.choice([0, 1, 1023, 1024, 5000, 10 ** 6, rng.randint(0, 10 ** 7)])]]
    n = rng.randint(1, size)
    if kind == 'lone':
        for _ in range(n):
            ops.append(['poll', 0, rng.choice([11, 11, 12, 20, 11, 1024, 100])])
    elif kind == 'fair':
        # up to 4 pollers, every step at least 11 ticks after the previous one: whoever holds the lock is
        # polled with the library's discipline; the others arrive / are stepped while blocked (no-ops)
        k = rng.randint(2, 4)
        ops[0][1] = rng.choice([1, 1, 2, 3, 50])
        for _ in range(max(n, 40)):
            ops.append(['poll', rng.randrange(k), rng.choice([11, 11, 12, 13, 20])])
    elif kind == 'sniper':
        # poller 0 waits as the lock holder and re-polls every 11..13 ticks (the library's discipline); the others time their
        # requests to arrive 1 tick before a poll of the holder, exactly when the bucket has accrued a whole quantum.
        # With first-come-first-served they just queue up behind the holder and it is served within `need` polls.
        k0 = rng.choice([1, 1, 2])
        L, q = k0 * 1024, 128
        ops[0][1] = k0
        st = {'b': 0, 'last': 0}
        now = ops[0][2]

        def sim(st, t, take):            # rate_limiter.refill + grant, integer arithmetic on the tick grid
            b, last = st['b'], st['last']
            if b != L:
                b = min(L, b + (L - b) * (t - last) // TPS)
                last = t
            if b >= q and take:
                b -= q
            st['b'], st['last'] = b, last
            return b
        # drain whatever the first refill credits (last_refill starts at 0)
        burst = 8 * k0 + 1
        ops.append(['poll', 0, 0])
        for _ in range(burst + 2):
            ops.append(['poll', rng.randint(1, 3), 0])
        st = {'b': 0, 'last': now}
        ops.append(['poll', 0, 0])                      # poller 0: bucket empty -> holder, asleep
        free = [1, 2, 3]
        for _ in range(rng.choice([60, 120])):
            gap = rng.choice([11, 11, 12, 13])
            probe = dict(st)
            if free and sim(probe, now + gap - 1, False) >= q:
                sn = free[0]
                ops.append(['poll', sn, gap - 1])        # the sniper's request, 1 tick before the holder's poll
                sim(st, now + gap - 1, True)             # (if it jumps the queue it takes the quantum and resets the clock)
                ops.append(['poll', 0, 1])
                sim(st, now + gap, True)
                free = free[1:] + [sn]
            else:
                ops.append(['poll', 0, gap])
                sim(st, now + gap, True)
            now += gap
    elif kind == 'offon':
        # a small limit, the bucket drained at one instant, then the limit is switched off and on again / re-applied /
        # raised / lowered (possibly while requests are pending), each time followed by another burst at the same instant
        k0 = rng.choice([1, 1, 2, 3])
        ops[0][1] = k0
        ops.append(['poll', 0, rng.choice([0, 1024, 2048, 10240])])
        burst = 8 * k0 + rng.randint(0, 3)
        for _ in range(burst):
            ops.append(['poll', rng.randint(0, 3), 0])
        for _ in range(rng.randint(1, 3)):
            for k in rng.choice([[0, k0], [0, k0], [k0], [0, 0, k0], [k0 + 1, k0], [0, 1], [0]]):
                ops.append(['set', k])
                if rng.random() < 0.3:
                    ops.append(['poll', rng.randint(0, 3), 0])
            for _ in range(burst):
                ops.append(['poll', rng.randint(0, 3), rng.choice([0, 0, 0, 0, 1])])
    elif kind == 'burst':
        ops.append(['poll', 0, rng.choice([0, 2048, 10240])])
        for _ in range(n):
            ops.append(['poll', rng.randint(0, 3), rng.choice([0, 0, 0, 1])])
    else:
        for _ in range(n):
            r = rng.random()
            if kind == 'changes' and r < 0.12:
                ops.append(['set', rng.choice(limits + [0, 0])])
            else:
                ops.append(['poll', rng.randint(0, 3), rng.choice(GAPS)])
    if any(o[0] == 'set' for o in ops):
        # the limit also changes through the settings + load_speed_limits(); the settings value is tracked so that loads of
        # the value they ALREADY hold (after direct setter calls changed the limit in force) occur often
        held = ops[0][1]
        out = []
        for o in ops:
            if o[0] == 'set':
                r = rng.random()
                if r < 0.25:
                    o = ['load', o[1]]
                    held = o[1]
                elif r < 0.45:
                    out.append(o)
                    o = ['load', held]              # re-apply what the settings say (unchanged since the last load)
            out.append(o)
        ops = out
    return {'ops': ops, 'lone': kind == 'lone', 'disciplined': kind in ('lone', 'fair', 'sniper'), 'kind': kind}


def _gen_free(rng: random.Random) -> dict:
    k = rng.randint(2, 4)
    offs = rng.choice([[0.0] * k, [i * 0.0001 for i in range(k)], [i * 0.0025 for i in range(k)],
                       [rng.choice([0, 0.001, 0.005, 0.0099, 0.01]) for _ in range(k)]])
    return {'kind': 'free', 'k': k, 'kbps': rng.choice([1, 1, 2, 5, 50]), 'offsets': offs,
            'seconds': rng.choice([20, 40]), 'pause': rng.choice([0, 0, 0.003])}


# limit lowered onto a fuller bucket -> bucket full; 10 s idle; then 10 polls at one instant
WITNESS = {'ops': [['new', 2, 10240], ['poll', 0, 0], ['set', 1], ['poll', 0, 10240]] + [['poll', 0, 0]] * 10,
           'lone': False, 'disciplined': False, 'kind': 'witness'}
# fixed finding (dde9e7c): connections polling in lockstep starved each other
FREE_WITNESSES = [{'kind': 'free', 'k': 2, 'kbps': 1, 'offsets': [0, 0.0001], 'seconds': 40, 'pause': 0},
                  {'kind': 'free', 'k': 4, 'kbps': 1, 'offsets': [0, 0, 0, 0], 'seconds': 40, 'pause': 0}]


def _eval_free(case):
    try:
        return _run_free(case)
    except Exception as e:       # noqa: BLE001
        return {'exc': f'{type(e).__name__}: {e}'}


def _eval_case(case):
    try:
        return _run_impl(case)
    except Exception as e:       # the real code raised: an observation, not a harness crash
        return [f'EXC {type(e).__name__}: {e}']


class C20(Property):
    id = 'C20'
    props_module = 'AioslskVerif.Props.C20'
    driver_module = 'AioslskVerif.Driver.C20'
    rule = ('op sequences (new/poll/set) over 1..4 pollers, limits {0,1..10000} KiB/s, gaps from 0 to 1 h on a '
            '1/1024 s grid, derived from VERIF_SEED; a case is non-trivial when a limited limiter both granted and '
            'refused at least once; the take_tokens calls are made by the harness or (60 %) by the real send_file / receive_file chunk loops of FILE PeerConnections registered with the Network (one chunk per poll op, bytes on the wire = grant), same exact comparison; plus free-running lockstep connections and whole send_file/receive_file transfers with limit changes mid-transfer (real sleep under virtual time, monitor only); '
            'distinct = distinct canonical op list')
    assumptions = [
        'time.monotonic is monotone; clock readings restricted to multiples of 1/1024 s where the float '
        'expression (limit-bucket)*dt is exact (float rounding off that grid is not modelled)',
        'asyncio.sleep(INTERVAL) is replaced by a scripted yield: the schedule decides how long a poller really slept',
    ]
    modelled = ('rate_limiter.py (create_limiter, refill, take_tokens loop with its FIFO lock, add_tokens, copy_tokens), '
                'Network.set_upload_speed_limit / set_download_speed_limit; not modelled: float rounding, the '
                'send_file/receive_file byte loops (C04; here they are exercised with run-time limit changes, monitor only)')

    def regenerate(self):
        return [rate_constants.generate(common.REPO, common.LEAN)]

    def correspondence(self, seed, tier, model_ok, widen=1):
        res = KResult()
        rng = random.Random(f'C20-{seed}')
        n = (400 if tier == 'quick' else 40000) * widen
        cases = [WITNESS] + [_gen_case(rng, rng.choice([8, 30, 80, 200])) for _ in range(n)]
        for c in cases[1:]:               # who calls take_tokens: the harness, or the real chunk loops of FILE connections
            c['via'] = rng.choice(['direct', 'direct', 'send_file', 'send_file', 'receive_file'])
        impl = common.parallel_map(_eval_case, cases)
        model = None
        if model_ok:
            lines, spans = [], []
            for c in cases:
                ls = _model_lines(c)
                spans.append((len(lines), len(ls)))
                lines += ls
            out = common.run_driver(self.driver_file, lines)
            model = [out[a:a + k] for a, k in spans]
        else:
            res.model_available = False
        for i, c in enumerate(cases):
            res.evaluations += 1
            res.count('kind:' + c['kind'])
            res.count('via:' + c.get('via', 'direct'))
            res.count('ops', len(c['ops']))
            io = impl[i]
            if any(o.startswith('EXC') or o.startswith('sleep-args') or o.startswith('chunk-loop-ended') for o in io):
                res.count('impl-error')
                res.violations.append(Violation('C20-impl-error', 'limiter raised / slept a wrong interval', c, observed=io[-1]))
                continue
            polled = [o for op, o in zip(c['ops'], io) if op[0] == 'poll']
            if any(o.split()[1] == '-' for o in polled) and any(o.split()[1] != '-' for o in polled):
                res.nontrivial_keys.add(common.sha(c['ops']))
            if any(o.startswith('queued') for o in polled):
                res.count('cases-with-blocked-waiter')
            if any(',' in o.split()[1] for o in polled):
                res.count('cases-with-cascade')
            if any(op[0] == 'set' for op in c['ops']) and any(o.count(' ; ') and o.split()[1] != '-' for o in polled):
                res.count('cases-with-grant-after-limit-change')
            if model is not None:
                res.traces_validated += 1
                if model[i] != io:
                    k = next((j for j, (a, b) in enumerate(zip(model[i], io)) if a != b), min(len(model[i]), len(io)))
                    res.disagreements.append(Disagreement(c, io[k] if k < len(io) else None,
                                                          model[i][k] if k < len(model[i]) else None,
                                                          f'op #{k} {c["ops"][k] if k < len(c["ops"]) else ""}'))
            res.violations += _monitor(c, io)
            if len(res.samples) < 3 and len(c['ops']) < 12:
                res.samples.append({'case': c, 'impl': io})
        # free-running lockstep connections: monitor only (real asyncio.sleep under virtual time)
        nf = (10 if tier == 'quick' else 1200) * widen
        fcases = FREE_WITNESSES + [_gen_free(rng) for _ in range(nf)]
        fout = common.parallel_map(_eval_free, fcases, chunksize=1)
        for c, r in zip(fcases, fout):
            res.evaluations += 1
            res.count('kind:free')
            res.nontrivial_keys.add(common.sha(c))
            if 'exc' in r:
                res.violations.append(Violation('C20-impl-error', r['exc'], c, observed=r))
            else:
                res.violations += _monitor_free(c, r)
        # real send_file / receive_file on FILE connections with limit changes at run time: monitor only
        nw = (24 if tier == 'quick' else 2500) * widen
        wcases = WIRE_WITNESSES + [_gen_wire(rng) for _ in range(nw)]
        wout = common.parallel_map(_eval_wire, wcases, chunksize=1)
        for c, r in zip(wcases, wout):
            res.evaluations += 1
            res.count('kind:wire:' + c['dir'])
            res.count('wire-limit-changes', len(c['changes']))
            res.nontrivial_keys.add(common.sha(c))
            if 'exc' in r:
                res.violations.append(Violation('C20-impl-error', r['exc'], c, observed=r))
            else:
                res.violations += _monitor_wire(c, r)
        return res

    def replay(self, case):
        if case.get('kind') == 'wire':
            r = _eval_wire(case)
            return [Violation('C20-impl-error', r['exc'], case)] if 'exc' in r else _monitor_wire(case, r)
        if case.get('kind') == 'free':
            return _monitor_free(case, _eval_free(case))
        return _monitor(case, _eval_case(case))

    def known_witnesses(self):
        return [(KNOWN_SIG, WITNESS), (INFLIGHT_SIG, INFLIGHT_WITNESS)]


PROPERTY = C20()
