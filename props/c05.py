"""C05 — active uploads never exceed the slot limit or one per user; priority holds.

Correspondence K_C05 + monitor (DESIGN.md, C05).

The REAL `TransferManager` (real management BackgroundTask, real Transfer / state classes, real
Settings, EventBus) and the REAL `UserManager` (real `_users` weak dictionary, real tracking manager and
tracking tasks) run on `vlib.simloop.SimLoop` against the scripted shares / peer network of
`vlib/xferrig.py` and the simulated server of `vlib/trackrig.py`.  What the scheduler knows about a user
is what the real user manager holds at the instant of the decision: a status reaches it only as a real
server message (`AddUser.Response` to the tracking request, `GetUserStatus.Response` for a watched user,
`PrivilegedUsers.Response`) and stays only as long as the real bookkeeping keeps the user tracked; full
garbage collections run before every management cycle and after every op.
A case is a slot setting and a list of ops, each preceded by a virtual delay:

    ['addUpload', u, dt] ['addDownload', u, dt] ['started', k, dt] ['finish', k, dt] ['failX', k, dt]
    ['backToQueue', k, stage, dt] ['requeue', k, dt] ['apiQueue', k, dt] ['abort', k, dt]
    ['setSlots', n, dt] ['wait', dt]
    ['setUser', u, status, friend, priv, dt]   the friend list gains / loses u; on the SERVER u's status / privilege become
                             these (status UNKNOWN = no such account); the server reports it (GetUserStatus) iff the
                             client currently has u on its watch list (AddUser sent, RemoveUser not)
    ['privList', [u..], dt]  the server sends the list of privileged users
    ['peerEvent', 'closed'|'connected', dt]   a peer connection changes state (says nothing about users; not a model op)
    dt = -1 (not for started / finish / failX / backToQueue): the op follows the previous one within the same loop step
    ['abortRace', k, dt]     abort(k) runs as its own task while, in the same step, a message about k's user (the truth once
                             more) requests a cycle: the cycle runs while abort waits for the task it cancelled
  optional case key 'net': {'reply_delay': d}   the server's answer to AddUser takes d s of virtual time (None: never
                             arrives); such cases are monitor-only (the model settles tracking within the step)
  optional case key 'disk': {'delays': [d, ...], 'lookup': [d, ...]}   a slow file system / busy executor
                             (`vlib/slowdisk.py`): the i-th call the library hands to the executor (aiofiles exists /
                             getsize / open / read / close / remove ...) takes delays[i % n] s of virtual time, the i-th
                             look-up of the shares manager lookup[i % m] s (default: like `delays`; 0 = one loop
                             iteration); whatever a task has decided but not yet recorded stays unrecorded that long.
                             Monitor-only (the model has no file system).

  optional case key 'settings': 'section'|'dict'|'transfers'|'copy'|'mixed'   HOW the application changes its configuration
                             (`setSlots`, the friend list of `setUser`): not by assigning to an attribute of the section
                             object the client was built with (default) but by installing a NEW object — `settings.transfers.
                             limits = TransferLimitSettings(..)` / `= {..}` (pydantic validates the dict into a new object) /
                             `= limits.model_copy(update=..)`, `settings.transfers = TransfersSettings(..)`; the friend list as
                             a new set / a new `users` section (`mixed`: a different way per op, in-place included).  All are
                             legal with the pydantic settings (validate_assignment), e.g. when a re-loaded configuration is
                             applied.  Same model ops (`setSlots n`, `friend u b`): exact correspondence.  The limit / friend
                             list every decision is judged against is the one IN THE SETTINGS at that instant, not what the
                             manager says it is.

  optional case key 'notice': True   the peer is hard to reach for anything but the transfer itself: the report of a broken
                             upload (`PeerUploadFailed`, sent by the upload's task after it made the upload FAILED) needs a
                             connection that is slow; the task lingers until ['notice', k, 'ok'|'fail', dt] ends the
                             attempt (delivered / connection failed).  Meanwhile the peer may queue the file again.
                             Model ops: `breakX k` (a `failX` that breaks a transfer in such a case), `noticeEnd k 0|1`.

The schedule's ops about the PEER's side (`started`, `failX`, `backToQueue`, `finish`) go by where the upload's task
waits on the network (its gate), not by the state the client shows for the upload: what a peer answers does not depend on
the uploader's bookkeeping.  (On the pinned tree a task waits at the `send` gate only while INITIALIZING.)

Management cycles are NOT scripted: the real job decides when it runs (coalescing queue of size 1,
0.05 s minimum interval); the harness only chooses the instants of the other events (including
instants that coincide with the job's timer, so that an op lands between a scheduling decision and
the state change that records it).  Every real cycle is logged where it happened and is fed to the
Lean driver as a `cycle` op at the same position of the op sequence; every real QUEUED -> INITIALIZING of an upload
(the first step of the task a cycle created: the decision is recorded) is fed as `record k` where it happened.  The
model keeps decision and record apart; its schedule theorems assume that no cycle is served in between (`Timely`):
the driver answers `untimely` to such a cycle and the rig reports it (granularity) on every real cycle.
"""
from __future__ import annotations

import asyncio
import os
import random
from typing import Any, Optional

from vlib import common, simloop
from vlib.common import KResult, Violation, Disagreement, Property

STATUSES = ['UNKNOWN', 'OFFLINE', 'AWAY', 'ONLINE']
STAGES = ['send-conn', 'send-write', 'conn', 'ticket', 'offset']
TASK_OPS = ('started', 'finish', 'failX', 'backToQueue', 'notice')
API_OPS = ('abort', 'addUpload', 'requeue', 'apiQueue', 'setUser', 'setSlots')
DOC_QUEUE_STATES = ('ABORTED', 'PAUSED', 'COMPLETE', 'INCOMPLETE', 'FAILED')
PROCESSING = ('INITIALIZING', 'UPLOADING', 'DOWNLOADING')
SAME_STEP = -1         # delay value: the op follows the previous one in the same loop step (two events dispatched in one
                       # iteration: no task, not even the first step of a task the previous op created, runs in between)


# --------------------------------------------------------------------------------------------
# implementation side
# --------------------------------------------------------------------------------------------

def _user(u: int) -> str:
    return f'user{u}'


SETTINGS_WAYS = ('section', 'dict', 'transfers', 'copy')
SETTINGS_MIXED = ('section', 'attr', 'dict', 'transfers', 'attr', 'copy')


def _way(case: dict, i: int) -> str:
    """how op #i of the case changes the configuration (case key 'settings')"""
    w = case.get('settings')
    if not w:
        return 'attr'
    if w == 'mixed':
        return SETTINGS_MIXED[i % len(SETTINGS_MIXED)]
    if w not in SETTINGS_WAYS:
        raise ValueError(f'bad settings key {w!r}')
    return w


def _set_slots(settings, n: int, way: str):
    from aioslsk.settings import TransferLimitSettings, TransfersSettings
    if way == 'attr':
        settings.transfers.limits.upload_slots = n
    elif way == 'section':
        settings.transfers.limits = TransferLimitSettings(upload_slots=n)
    elif way == 'dict':
        settings.transfers.limits = {'upload_slots': n}
    elif way == 'copy':
        settings.transfers.limits = settings.transfers.limits.model_copy(update={'upload_slots': n})
    elif way == 'transfers':
        settings.transfers = TransfersSettings(limits=TransferLimitSettings(upload_slots=n),
                                               report_interval=settings.transfers.report_interval)
    else:
        raise ValueError(way)
    assert settings.transfers.limits.upload_slots == n


def _set_friend(settings, name: str, friend: bool, way: str):
    if way == 'attr':
        (settings.users.friends.add if friend else settings.users.friends.discard)(name)
        return
    new = set(settings.users.friends)
    (new.add if friend else new.discard)(name)
    if way in ('section', 'copy'):
        settings.users.friends = new                   # a new set object in the same section
    elif way == 'dict':
        settings.users = {'friends': sorted(new), 'blocked': dict(settings.users.blocked)}
    else:
        settings.users = settings.users.model_copy(update={'friends': new})
    assert (name in settings.users.friends) == friend


async def _perform(rig, body: list, way: str = 'attr') -> str:
    """Executes one op on the real manager. Returns 'ok' | 'refused'."""
    from aioslsk.exceptions import InvalidStateTransition
    from aioslsk.protocol.messages import PeerTransferQueue
    mgr = rig.mgr
    kind = body[0]
    if kind == 'wait':
        return 'ok'
    if kind == 'addUpload':
        u = body[1]
        fn = f'f{len(rig.transfers)}'
        from vlib.xferrig import FakeConn
        n0 = len(mgr.transfers)
        await mgr._on_peer_transfer_queue(PeerTransferQueue.Request(fn), FakeConn(rig, _user(u)))
        assert len(mgr.transfers) == n0 + 1
        rig.adopt(mgr.transfers[-1])
        rig.log.append(('add', len(rig.transfers) - 1, _user(u), 'U'))
        return 'ok'
    if kind == 'addDownload':
        u = body[1]
        fn = f'f{len(rig.transfers)}'
        t = await mgr.download(_user(u), fn)
        rig.adopt(t)
        rig.log.append(('add', len(rig.transfers) - 1, _user(u), 'D'))
        return 'ok'
    if kind == 'setSlots':
        _set_slots(rig.settings, body[1], way)
        rig.log.append(('slots', body[1]))
        return 'ok'
    if kind == 'setUser':
        _, u, status, friend, priv = body
        _set_friend(rig.settings, _user(u), bool(friend), way)
        rig.log.append(('friend', _user(u), bool(friend)))
        await rig.server.set_user(_user(u), status, bool(priv))
        return 'ok'
    if kind == 'privList':
        await rig.server.privileged_list([_user(u) for u in body[1]])
        return 'ok'
    if kind == 'peerEvent':
        # something that happens all the time and says nothing about users: a peer connection opens / closes
        from aioslsk.events import ConnectionStateChangedEvent
        from aioslsk.network.connection import ConnectionState, CloseReason
        from vlib.xferrig import FakeConn
        st = ConnectionState.CLOSED if body[1] == 'closed' else ConnectionState.CONNECTED
        await rig.bus.emit(ConnectionStateChangedEvent(FakeConn(rig, 'somebody'), st,
                                                       CloseReason.EOF if body[1] == 'closed' else None))
        return 'ok'
    k = body[1]
    if k >= len(rig.transfers):
        return 'refused'
    t = rig.transfers[k]
    st = t.state.VALUE.name
    if kind == 'notice':
        # the connection attempt for the oldest pending failure report about upload k ends
        return 'ok' if rig.release_aux(k, 'ok' if body[2] == 'ok' else 'fail-conn') else 'refused'
    if kind == 'abort':
        try:
            await mgr.abort(t)
        except InvalidStateTransition:
            return 'refused'
        return 'ok'
    if kind == 'apiQueue':
        if st not in DOC_QUEUE_STATES:          # outside the documented precondition of TransferManager.queue
            return 'refused'
        await mgr.queue(t)
        return 'ok'
    if kind == 'requeue':
        if not t.is_upload():
            return 'refused'
        from vlib.xferrig import FakeConn
        before = st
        await mgr._on_peer_transfer_queue(PeerTransferQueue.Request(t.remote_path), FakeConn(rig, t.username))
        return 'ok' if (before in ('FAILED', 'COMPLETE') and t.state.VALUE.name == 'QUEUED') else 'refused'
    # task-driven ops: only possible when the upload's task waits at the right gate
    if not t.is_upload():
        return 'refused'
    g = rig.current_gate(k)
    at = g.blocked_at() if g is not None else None
    if kind == 'started':
        if at != 'send':
            return 'refused'
        for stage, out in (('reply', 'allow'), ('conn', 'ok'), ('ticket', 'ok'), ('offset', 'ok'), ('send', 'ok')):
            g.set(stage, out)
        return 'ok'
    # slow file system: an upload that is UPLOADING may still be opening the file; the peer's side of the transfer (the
    # schedule) is decided now, the task meets it when it gets there
    opening = (getattr(rig, 'disk', None) is not None and st == 'UPLOADING' and g is not None and at is None
               and 'file' not in g.reached)
    if kind == 'finish':
        if at != 'file' and not opening:
            return 'refused'
        g.set('file', 'ok')
        return 'ok'
    if kind == 'failX':
        if at == 'send':
            g.set('reply', 'deny')
            g.set('send', 'ok')
            return 'ok'
        if at == 'file' or opening:
            g.set('file', 'fail')
            return 'ok'
        return 'refused'
    if kind == 'backToQueue':
        stage = body[2]
        if at != 'send':
            return 'refused'
        plan = {'send-conn': [('send', 'fail-conn')], 'send-write': [('send', 'fail-write')],
                'conn': [('reply', 'allow'), ('conn', 'fail'), ('send', 'ok')],
                'ticket': [('reply', 'allow'), ('conn', 'ok'), ('ticket', 'fail'), ('send', 'ok')],
                'offset': [('reply', 'allow'), ('conn', 'ok'), ('ticket', 'ok'), ('offset', 'fail'), ('send', 'ok')]}[stage]
        for s_, o_ in plan:
            g.set(s_, o_)
        return 'ok'
    raise ValueError(f'bad op {body!r}')


async def _abort_race(rig, k: int):
    """abort(k) as its own task + a cycle request in the same step (see module doc). Logged as two model lines,
    each where its effect happens: the server's message now, `abort` in the step in which the call completes."""
    if k >= len(rig.transfers) or not rig.transfers[k].is_upload():
        rig.log.append(('opline', f'abort {k}', await _perform(rig, ['abort', k])))
        return
    t = rig.transfers[k]

    async def do_abort():
        res = await _perform(rig, ['abort', k])
        rig.log.append(('opline', f'abort {k}', res))

    task = asyncio.ensure_future(do_abort())
    await rig.server.nudge(t.username)           # logged as a 'told' entry where it is delivered
    await task


def _uidx(name: str) -> int:
    return int(name[len('user'):])


def _mark(t) -> str:
    """`*`: QUEUED upload with a running task (a cycle chose it and the decision is not recorded yet, or an earlier task
    of it lingers); `~`: FAILED upload whose task lingers (it reports the failure)"""
    if not t.is_upload() or t._transfer_task is None or t._transfer_task.done():
        return ''
    return {'QUEUED': '*', 'FAILED': '~'}.get(t.state.VALUE.name, '')


class _DiskShares:
    """the rig's shares stub behind a slow file system: every look-up asks the disk (the real shares manager stats the
    file through the executor), so it takes as long as the disk takes"""

    def __init__(self, inner, loop, delays):
        self._inner = inner
        self._loop = loop
        self._delays = list(delays)
        self._n = 0

    def __getattr__(self, name):
        return getattr(self._inner, name)

    async def _disk(self):
        d = self._delays[self._n % len(self._delays)]
        self._n += 1
        await asyncio.sleep(d)          # sleep(0) yields once: the shortest real suspension

    async def get_shared_item(self, remote_path, username=None):
        await self._disk()
        return await self._inner.get_shared_item(remote_path, username)

    async def find_shared_item(self, remote_path, username=None):
        await self._disk()
        return await self._inner.find_shared_item(remote_path, username)


def _snap(rig) -> str:
    # held() collects garbage first: a `User` object nothing refers to any more but a reference cycle (the frames of a
    # cancelled tracking task) would otherwise still answer `get_user_object` until the collector happens to run
    held = sorted((_uidx(n), v) for n, v in rig.held().items() if n.startswith('user'))
    _, ups = rig.mgr._get_queued_transfers()
    q = ','.join(str(rig.k_of(t)) for t in ups) or '-'
    ents = ' '.join(f'{i}:{t.state.VALUE.name}' + _mark(t) for i, t in enumerate(rig.transfers))
    known = ','.join(f'{u}:{st}/{int(pr)}' for u, (st, pr) in held) or '-'
    return f"p={1 if rig.pending() else 0} slots={rig.mgr.get_upload_slots()} q={q} known={known} | {ents}"


def _rig_class():
    from vlib.trackrig import TrackedRig

    class Rig05(TrackedRig):
        def cycle_info(self) -> dict:
            info = super().cycle_info()
            # transfers in the middle of a state change (abort / pause waiting for the task it cancelled): the scheduler
            # leaves them alone, the transition requests a cycle when it completes (manager.py:650-656)
            info['locked'] = [self.k_of(t) for t in self.mgr.transfers if t._state_lock.locked()]
            # the limit in force is the one in the settings (what the application configured), whatever the manager
            # believes it to be; what the manager reports is kept beside it
            info['reported_slots'] = info['slots']
            info['slots'] = self.settings.transfers.limits.upload_slots
            return info

    return Rig05


def _run_impl(case: dict) -> dict:
    TrackedRig = _rig_class()

    async def main(loop):
        rig = TrackedRig(loop, case['slots'], reply_delay=(case.get('net') or {}).get('reply_delay', 0.0))
        rig.disk = None
        if case.get('notice'):
            rig.aux_gates = True        # in this harness: PeerUploadFailed only (nothing else that names a file is sent)
        if case.get('disk'):
            from vlib.slowdisk import SlowDisk
            rig.disk = SlowDisk(loop, case['disk']['delays']).install()
            rig.shares = rig.mgr._shares_manager = _DiskShares(rig.shares, loop,
                                                               case['disk'].get('lookup') or case['disk']['delays'])
        await rig.mgr.start()
        await simloop.settle()
        inexact: list = []
        marks = []            # per entry: (log index before, log index after, snapshot)
        mark = 0
        ops = case['ops']
        for i, op in enumerate(ops):
            *body, dt = op
            if dt > 0:
                await asyncio.sleep(dt)          # no settle: the op may land inside the iteration of a cycle
            if body[0] in TASK_OPS:
                await simloop.settle()
            if (body[0] in ('abort', 'abortRace') and body[1] < len(rig.transfers) and _mark(rig.transfers[body[1]])
                    and case.get('notice')):
                # the abort cancels a lingering task and waits for it while it holds the state lock: the end of that task
                # can request a cycle that runs in the middle of the abort and leaves the locked upload alone — two steps
                # the model (abort = one step, no lock) does not tell apart: the case is judged by the monitor only
                inexact.append(f'abort of upload {body[1]} while an earlier task of it lingers')
            if body[0] == 'abortRace':
                await _abort_race(rig, body[1])
            elif case.get('notice') and body[0] in ('failX', 'notice'):
                # model lines of their own: a transfer that breaks leaves its task reporting the failure
                k = body[1]
                breaks = (body[0] == 'failX' and k < len(rig.transfers)
                          and rig.transfers[k].state.VALUE.name == 'UPLOADING')
                line = (f'noticeEnd {k} {int(body[2] == "ok")}' if body[0] == 'notice'
                        else f'breakX {k}' if breaks else f'failX {k}')
                res = await _perform(rig, body)
                rig.log.append(('opline', line, res))
            else:
                res = await _perform(rig, body, _way(case, i))
                rig.log.append(('op', i, res))
            if i + 1 < len(ops) and ops[i + 1][-1] == SAME_STEP and ops[i + 1][0] not in TASK_OPS:
                continue                         # the next op follows in the same loop step: nothing else runs in between
            await simloop.settle()
            marks.append((mark, len(rig.log), _snap(rig)))
            mark = len(rig.log)
        await asyncio.sleep(1.0)
        await simloop.settle()
        if rig.disk is not None:
            # on a slow disk things are still going on (an upload reads its file): the case ends with a full second in
            # which nothing happened and no call is with the executor
            for _ in range(12):
                n = len(rig.log)
                if rig.disk.pending == 0:
                    await asyncio.sleep(1.0)
                    await simloop.settle()
                    if len(rig.log) == n and rig.disk.pending == 0:
                        break
                else:
                    await asyncio.sleep(0.5)
                    await simloop.settle()
        marks.append((mark, len(rig.log), _snap(rig)))
        final_pending = rig.pending()
        final_running = [k for k, t in enumerate(rig.transfers)
                         if t._transfer_task is not None and not t._transfer_task.done()]
        end = loop.time()
        await rig.stop()
        return {'log': [list(e) for e in rig.log], 'marks': marks, 'granularity': rig.granularity,
                'final_pending': final_pending, 'final_running': final_running, 'times': list(rig.log.times), 'end': end,
                'inexact': inexact}

    res, loop = simloop.run(main)
    res['loop_exceptions'] = [e for e in loop.exceptions if e.get('type') not in (None, 'CancelledError')]
    return res


def _untimely(impl: dict) -> list:
    """The hypothesis `Timely` of the schedule theorems on the real trace: cycles that were served while an upload an
    EARLIER cycle had chosen (task created) was still QUEUED with that task running (decision not recorded)."""
    out = []
    chosen: set = set()
    for e in impl['log']:
        if e[0] == 'state':
            chosen.discard(e[1])
        elif e[0] == 'cycle':
            late = [k for k in e[2].get('inflight', []) if k in chosen]
            if late:
                out.append(('cycle-served-between-decision-and-record', late))
            chosen |= {k for kind, k in e[1] if kind == 'T'}
    return out


def _eval_case(case):
    try:
        return _run_impl(case)
    except AssertionError:
        raise
    except Exception as e:
        import traceback
        return {'harness_error': f'{type(e).__name__}: {e}', 'tb': traceback.format_exc()[-2000:]}


# --------------------------------------------------------------------------------------------
# model side
# --------------------------------------------------------------------------------------------

def _op_line(body: list) -> str:
    kind = body[0]
    if kind == 'backToQueue':
        return f'backToQueue {body[1]}'
    return ' '.join(str(x) for x in body)


def _seen_str(info: dict) -> str:
    """what the scheduler read at a cycle about every user with an unfinished transfer: u:STATUS/friend/priv (for a
    user whose transfers are all finalized the reading cannot matter, and the real untrack request is served one loop
    step after the decision)"""
    unf = {u for _k, u, _d, st in info['xs'] if st not in FINAL}
    ents = sorted((_uidx(n), v) for n, v in info['users'].items() if n in unf)
    return ','.join(f'{u}:{st}/{int(bool(fr))}/{int(bool(pr))}' for u, (st, fr, pr) in ents) or '-'


def _script(case: dict, impl: dict) -> tuple[list[str], list[str]]:
    """Model input lines (after `reset`) and the implementation's observation for each line.  Everything the
    server told the client and every real cycle is a model line at the position where it happened."""
    lines, obs = [], []
    log = impl['log']
    ups = {e[1] for e in log if e[0] == 'add' and e[3] == 'U'}
    ups |= {k for e in log if e[0] == 'cycle' for k, _u, d, _st in e[2]['xs'] if d == 'U'}
    for (a, b, snap) in impl['marks']:
        n0 = len(lines)
        for e in log[a:b]:
            if e[0] == 'cycle':
                lines.append('cycle')
                sel = ','.join(str(k) for kind, k in e[1] if kind == 'T') or '-'
                obs.append(f'cycle sel={sel} seen={_seen_str(e[2])}')
            elif e[0] == 'opline':
                lines.append(e[1])
                obs.append(f'op {e[2]}')
            elif e[0] == 'state' and e[1] is not None and e[2] == 'QUEUED' and e[3] == 'INITIALIZING' and e[1] in ups:
                lines.append(f'record {e[1]}')          # the first step of the task a cycle created
                obs.append('op ok')
            elif e[0] == 'friend':
                lines.append(f'friend {_uidx(e[1])} {int(e[2])}')
                obs.append('op ok')
            elif e[0] == 'told':
                _, kind, name, st, pr = e
                if kind == 'status':
                    lines.append(f'report {_uidx(name)} {st} {int(bool(pr))}')
                else:
                    lines.append(f'reply {_uidx(name)} {st or "NONE"}')
                obs.append('op ok')
            elif e[0] == 'privlist':
                lines.append('privList ' + (','.join(str(_uidx(n)) for n in e[1]) or '-'))
                obs.append('op ok')
            elif e[0] == 'op':
                body = case['ops'][e[1]][:-1]
                if body[0] in ('wait', 'setUser', 'privList', 'peerEvent'):       # logged by their effects / no effect
                    continue
                lines.append(_op_line(body))
                obs.append(f'op {e[2]}')
        if len(lines) == n0:
            lines.append('setSlots ' + snap.split('slots=')[1].split()[0])      # no-op line to carry the snapshot
            obs.append('op ok')
        obs[-1] += ' || ' + snap
    return lines, obs


def _run_driver_chunks(driver_file: str, lines: list[str], resets: list[int], parts: int = 8) -> list[str]:
    """`common.run_driver` over `lines`, cut at `reset` lines (indices `resets`) into up to `parts` pieces that run side by
    side (each piece is a whole number of cases: the driver's state starts afresh at every `reset`)."""
    if len(lines) < 4000 or len(resets) < parts * 2 or os.environ.get('VERIF_SERIAL'):
        return common.run_driver(driver_file, lines)
    from concurrent.futures import ThreadPoolExecutor
    cuts = sorted({resets[(len(resets) * i) // parts] for i in range(parts)} | {0})
    pieces = [lines[a:b] for a, b in zip(cuts, cuts[1:] + [len(lines)])]
    with ThreadPoolExecutor(len(pieces)) as ex:
        outs = list(ex.map(lambda ls: common.run_driver(driver_file, ls), pieces))
    for ls, o in zip(pieces, outs):
        if len(o) != len(ls):
            raise common.LeanError(f'driver answered {len(o)} lines for {len(ls)}')
    return [x for o in outs for x in o]


def _model_obs(lines: list[str], out: list[str], obs: list[str]) -> list[str]:
    res = []
    for ln, o, want in zip(lines, out, obs):
        # o = "<res> p=.. slots=.. sel=.. q=.. seen=.. known=.. | ents"
        head, _, ents = o.partition(' | ')
        toks = head.split()
        r = toks[0]
        kv = dict(t.split('=', 1) for t in toks[1:])
        s = f"cycle sel={kv.get('sel')} seen={kv.get('seen')}" if ln == 'cycle' else f'op {r}'
        if ln == 'cycle' and r == 'untimely':
            s = 'cycle untimely(an upload an earlier cycle chose is still QUEUED) ' + s
        elif ln == 'cycle' and r != 'ok':
            s = 'cycle refused(no request pending)'
        if ' || ' in want:
            s += f" || p={kv.get('p')} slots={kv.get('slots')} q={kv.get('q')} known={kv.get('known')} | {ents}"
        res.append(s)
    return res


# --------------------------------------------------------------------------------------------
# monitor: the property statement on the implementation trace (independent of the model)
# --------------------------------------------------------------------------------------------

FINAL = ('COMPLETE', 'ABORTED', 'FAILED')
OVERDUE = 0.3          # > MAX_TRANSFER_MGMT_INTERVAL: a requested cycle that has not run for this long is not coming


def _klass(info: list) -> tuple:
    """privileged > friend > online/away > unknown, lexicographic"""
    status, friend, priv = info
    return (1 if priv else 0, 1 if friend else 0, 1 if status in ('ONLINE', 'AWAY') else 0)


def _reference(log: list):
    """For every cycle of the log: what the property's ranking / offline clause is judged against — per user with a
    transfer `[status, friend, privileged]` where status / privileged are what the SERVER LAST REPORTED about the user
    (AddUser answer, GetUserStatus, privileged list) since the first cycle of the user's current run of cycles with an
    unfinished transfer.  At that first cycle nothing is claimed about what a client remembers of a user it had nothing
    to do for: what the scheduler itself read is taken, as long as it is something the client can have (status: UNKNOWN
    or the last status ever reported; privileged: per the last privileged list or the last report), else UNKNOWN /
    the privileged list.  friend: the friend list at the cycle.  Yields (log index, users)."""
    ref: dict[str, list] = {}
    last_status: dict[str, str] = {}
    last_priv: dict[str, bool] = {}
    plist: set = set()
    for idx, e in enumerate(log):
        tag = e[0]
        if tag == 'told':
            _, _kind, u, st, pr = e
            if st is not None:
                last_status[u] = st
            if pr is not None:
                last_priv[u] = bool(pr)
            if u in ref:
                if st is not None:
                    ref[u][0] = st
                if pr is not None:
                    ref[u][1] = bool(pr)
        elif tag == 'privlist':
            plist = set(e[1])
            for u in set(last_priv) | plist:
                last_priv[u] = u in plist
            for u in ref:
                ref[u][1] = u in plist
        elif tag == 'cycle':
            info = e[2]
            seen = info['users']
            unf = {u for _k, u, _d, st in info['xs'] if st not in FINAL}
            for u in list(ref):
                if u not in unf:
                    del ref[u]
            for u in unf:
                if u not in ref:
                    st, pr = seen[u][0], bool(seen[u][2])
                    if st not in ('UNKNOWN', last_status.get(u)):
                        st = 'UNKNOWN'
                    if pr not in (u in plist, last_priv.get(u)):
                        pr = u in plist
                    ref[u] = [st, pr]
            yield idx, {u: ([ref[u][0], bool(seen[u][1]), ref[u][1]] if u in ref else list(seen[u])) for u in seen}


def _candidate_of(info: dict) -> dict:
    """user -> the user's candidate at a cycle: the first QUEUED upload in list order (one candidate per user; a later
    queued upload of the same user is not looked at, whatever its task does)"""
    first: dict = {}
    for k, u, d, st in info['xs']:
        if d == 'U' and st == 'QUEUED':
            first.setdefault(u, k)
    return first


def _monitor(case: dict, impl: dict) -> list[Violation]:
    vs: list[Violation] = []

    def add(sig, what, observed=None, required=None):
        vs.append(Violation(sig, what, case, observed=observed, required=required))

    state: dict[int, str] = {}
    user_of: dict[int, str] = {}
    is_up: dict[int, bool] = {}
    slots = case['slots']
    decision_slots = slots
    started_under: dict[int, int] = {}        # upload -> slot limit at the decision that started it
    last_cycle_idx = -1
    last_change_idx = -1
    last_cycle = None
    reported = dict(_reference(impl['log']))
    for idx, e in enumerate(impl['log']):
        tag = e[0]
        if tag == 'add':
            _, k, u, d = e
            state.setdefault(k, 'VIRGIN')
            user_of[k], is_up[k] = u, d == 'U'
            last_change_idx = idx
        elif tag == 'slots':
            slots = e[1]
        elif tag == 'told':
            last_change_idx = idx          # AddUser / GetUserStatus responses request a cycle (manager.py:1211-1221)
        elif tag == 'state':
            _, k, old, new = e
            if k is None:
                continue
            state[k] = new
            last_change_idx = idx
            if is_up.get(k) and new in ('INITIALIZING', 'UPLOADING'):
                act = [j for j, s in state.items() if is_up.get(j) and s in ('INITIALIZING', 'UPLOADING')]
                # the limit that counts is the one in force when the upload was started (the decision that created its
                # task); lowering it afterwards lets what was started go on
                limit = max(slots, started_under.pop(k, decision_slots) if new == 'INITIALIZING' else slots)
                if new == 'INITIALIZING' and len(act) > limit:
                    add('C05-slot-limit-exceeded',
                        f'upload {k} became INITIALIZING: {len(act)} uploads are initialising/uploading, limit {limit}',
                        {'active': act, 'log_index': idx}, f'<= {limit}')
                same = [j for j in act if j != k and user_of[j] == user_of[k]]
                if same:
                    add('C05-two-uploads-one-user',
                        f'upload {k} became {new} while upload(s) {same} of the same user {user_of[k]} are active',
                        {'active': act, 'log_index': idx}, 'at most one active upload per user')
        elif tag == 'opline' and e[1].startswith('noticeEnd ') and e[2] == 'ok' and last_cycle is not None:
            # The lingering task of upload k ends now.  If the latest cycle passed k over because of that task (and
            # counted it as being served), k is still QUEUED, its user eligible and a slot free, then the queue must be
            # looked at again: a cycle within OVERDUE (the job sleeps at most MAX_TRANSFER_MGMT_INTERVAL).
            k = int(e[1].split()[1])
            _, started_l, info_l = last_cycle
            users_l = reported[last_cycle_idx]
            u = user_of.get(k)
            act = [j for j, s_ in state.items() if is_up.get(j) and s_ in ('INITIALIZING', 'UPLOADING')]
            others = [j for j in info_l.get('inflight', []) if j != k and state.get(j) == 'QUEUED']
            untouched = not any(x[0] == 'state' and x[1] == k for x in impl['log'][last_cycle_idx + 1:idx])
            # (a slot the application has opened SINCE that cycle was not kept for anybody by it: raising the limit does
            # not request a cycle by itself, see `assumptions`)
            slots_l = min(slots, info_l['slots'])
            if (k in info_l.get('inflight', []) and k not in {j for kind, j in started_l if kind == 'T'}
                    and _candidate_of(info_l).get(u) == k
                    and state.get(k) == 'QUEUED' and untouched and u in users_l and users_l[u][0] != 'OFFLINE'
                    and u not in {user_of[j] for j in act} and len(act) + len(others) < slots_l):
                t0 = impl['times'][idx]
                nxt = next((j for j in range(idx + 1, len(impl['log'])) if impl['log'][j][0] == 'cycle'), None)
                t1 = impl['times'][nxt] if nxt is not None else impl['end']
                if t1 - t0 > OVERDUE:
                    add('C05-skipped-upload-forgotten',
                        f'a cycle passed over queued upload {k} of {u} because an earlier task of it was still running; that '
                        f'task ended, the upload stayed QUEUED with {slots_l - len(act) - len(others)} free slot(s), and '
                        + (f'the next cycle ran {t1 - t0:.2f} s later' if nxt is not None else
                           f'no cycle ran in the remaining {t1 - t0:.2f} s'),
                        {'log_index': idx, 'passed_over_at': last_cycle_idx, 'before': info_l}, f'looked at again within {OVERDUE} s')
        elif tag == 'cycle':
            _, started, info = e
            last_cycle_idx = idx
            last_cycle = e
            decision_slots = info['slots']
            for k, u, d, st in info['xs']:          # a transfer a decision sees before the schedule logged its arrival
                if k not in user_of:
                    user_of[k], is_up[k], state[k] = u, d == 'U', st
            sel = [k for kind, k in started if kind == 'T' and is_up.get(k, True)]
            for k in sel:
                started_under[k] = info['slots']
            xs = {k: (u, d, st) for k, u, d, st in info['xs']}
            seen = info['users']
            users = reported[idx]
            active = [k for k, (u, d, st) in xs.items() if d == 'U' and st in ('INITIALIZING', 'UPLOADING')]
            busy = {xs[k][0] for k in active}
            # uploads an earlier decision already started whose state change is not recorded yet (task created,
            # first step not taken): they are being served, and they will take a slot
            inflight = [k for k in info.get('inflight', []) if k in xs and k not in sel]
            served = busy | {xs[k][0] for k in inflight}
            free = max(0, info['slots'] - len(active))
            where = {'log_index': idx, 'started': sel, 'before': info, 'last_reported': users}

            def lost(u):
                if users[u] != list(seen[u]):
                    return (f' (the scheduler read {seen[u][0]}/privileged={bool(seen[u][2])} for {u}; the server last '
                            f'reported {users[u][0]}/privileged={users[u][2]})')
                return ''

            if len(sel) > free:
                add('C05-slot-limit-exceeded', f'a cycle started {len(sel)} uploads with {free} free slots '
                    f'({len(active)} active, limit {info["slots"]})', where, f'<= {free}')
            sel_users = [xs[k][0] for k in sel if k in xs]
            if len(set(sel_users)) != len(sel_users):
                add('C05-two-uploads-one-user', 'a cycle started two uploads for one user', where)
            for k in sel:
                if k not in xs:
                    continue
                u, d, st = xs[k]
                if st != 'QUEUED':
                    add('C05-started-not-queued', f'a cycle started upload {k} which is {st}', where, 'QUEUED')
                if u in busy:
                    add('C05-two-uploads-one-user', f'a cycle started upload {k} for user {u} who has an active upload', where)
                if users[u][0] == 'OFFLINE':
                    add('C05-offline-user-started', f'a cycle started upload {k} of offline user {u}' + lost(u), where,
                        'never')
            # eligible users that were left waiting
            # (an upload in the middle of a state change — an abort waiting for the task it cancelled — is not waiting
            # for a slot: the scheduler leaves it alone, the end of the transition requests the next cycle)
            locked = set(info.get('locked', []))
            waiting = sorted({u for k, (u, d, st) in xs.items()
                              if d == 'U' and st == 'QUEUED' and users[u][0] != 'OFFLINE' and u not in served
                              and u not in sel_users and k not in locked})
            for k in sel:
                if k not in xs:
                    continue
                u = xs[k][0]
                for w in waiting:
                    if _klass(users[w]) > _klass(users[u]):
                        add('C05-priority-inverted',
                            f'upload {k} of {u} {users[u]} was started while eligible user {w} {users[w]} of a higher '
                            f'class was left waiting' + lost(u) + lost(w), where,
                            'privileged > friend > online/away > unknown')
            # An upload the cycle passed over because an earlier task of it is still running (it reports a failure to the
            # downloader, who has queued the file again) is the queued upload of an eligible user like any other: it is
            # "being served" only as long as a slot is kept for it.  The free slots go to the users of the highest
            # classes: an upload that is started needs a free slot for itself AND one for every eligible user of a
            # strictly higher class (started, passed over or waiting) — otherwise the slot of a user of a higher class went
            # to it, and that user waits behind it for a whole upload when the lingering task ends.
            passed: dict = {}
            first_q: dict = {}
            for k, (u, d, st) in xs.items():             # list order: the candidate of a user is the first QUEUED upload
                if d == 'U' and st == 'QUEUED':
                    first_q.setdefault(u, k)
            for k in inflight:
                u, d, st = xs[k]
                if (d == 'U' and st == 'QUEUED' and first_q.get(u) == k and users[u][0] != 'OFFLINE' and u not in busy
                        and u not in sel_users and k not in locked):
                    passed[u] = k
            if passed:
                cands = set(sel_users) | set(passed) | set(waiting)
                for k in sel:
                    if k not in xs:
                        continue
                    u = xs[k][0]
                    higher = sorted(w for w in cands if _klass(users[w]) > _klass(users[u]))
                    robbed = [w for w in higher if w in passed]
                    if robbed and 1 + len(higher) > free:
                        add('C05-priority-inverted',
                            f'upload {k} of {u} {users[u]} was started with {free} free slot(s) while the queued upload(s) '
                            f'{[passed[w] for w in robbed]} of eligible user(s) {robbed} '
                            f'{[users[w] for w in robbed]} of a higher class — passed over in this cycle because an '
                            f'earlier task of theirs still reports a failure — are left without a slot'
                            + lost(u) + ''.join(lost(w) for w in robbed), where,
                            'privileged > friend > online/away > unknown')
            if waiting and len(sel) + len(inflight) < free:
                add('C05-slot-left-idle', f'after a cycle {free - len(sel) - len(inflight)} slot(s) stay free while '
                    f'eligible user(s) {waiting} have queued uploads' + ''.join(lost(w) for w in waiting), where,
                    'work-conserving')
    # An upload the LAST cycle passed over because a task of it was still running was counted above as being served.  If
    # that task has ended without starting it — the upload is still QUEUED, nothing happened to it since, its user is
    # eligible, a slot is free — then, one quiet second after the last event and with no cycle requested, nothing will
    # ever start it: "a queued upload of an eligible user is eventually started while slots are free" fails.
    if last_cycle is not None and not impl.get('final_pending'):
        _, started_l, info_l = last_cycle
        users_l = reported[last_cycle_idx]
        sel_l = {k for kind, k in started_l if kind == 'T'}
        running = set(impl.get('final_running', []))
        act_end = [j for j, s_ in state.items() if is_up.get(j) and s_ in ('INITIALIZING', 'UPLOADING')]
        chosen_end = [j for j, s_ in state.items() if is_up.get(j) and s_ == 'QUEUED' and j in running]
        busy_end = {user_of[j] for j in act_end + chosen_end}
        touched = {e[1] for e in impl['log'][last_cycle_idx + 1:] if e[0] == 'state'}
        slots_l = min(slots, info_l['slots'])        # a slot opened since that cycle was not kept for anybody by it
        already = {v.observed.get('before') is info_l for v in vs if v.signature == 'C05-skipped-upload-forgotten'}
        for k in ([] if True in already else info_l.get('inflight', [])):
            u = user_of.get(k)
            if (k not in sel_l and state.get(k) == 'QUEUED' and k not in running and k not in touched
                    and _candidate_of(info_l).get(u) == k
                    and u in users_l and users_l[u][0] != 'OFFLINE' and u not in busy_end
                    and len(act_end) + len(chosen_end) < slots_l):
                add('C05-skipped-upload-forgotten',
                    f'the last cycle passed over queued upload {k} of {u} because an earlier task of it was still running; '
                    f'the task has ended, the upload is still QUEUED, {slots_l - len(act_end) - len(chosen_end)} slot(s) are '
                    f'free and no cycle is requested: nothing will start it',
                    {'log_index': last_cycle_idx, 'before': info_l, 'active_at_end': act_end}, 'eventually started')
    # every change is followed by a scheduling cycle (the queue request is served): the job sleeps at most
    # MAX_TRANSFER_MGMT_INTERVAL (0.25 s) between two cycles, the case ends with 1 s in which the schedule does nothing
    times, end = impl['times'], impl['end']
    t_cycle = times[last_cycle_idx] if last_cycle_idx >= 0 else None
    if impl.get('final_pending') and (t_cycle is None or end - t_cycle > OVERDUE):
        add('C05-cycle-not-run', f'a management cycle request is pending at the end, the last cycle ran '
            f'{"never" if t_cycle is None else "%.2f s earlier" % (end - t_cycle)}', None, f'served within {OVERDUE} s')
    if last_change_idx > last_cycle_idx and end - times[last_change_idx] > OVERDUE:
        e = impl['log'][last_change_idx]
        add('C05-cycle-not-run', f'no management cycle ran after the last change {e[:4]} '
            f'({end - times[last_change_idx]:.2f} s before the end)',
            {'log_index': last_change_idx}, 'every change of a transfer / report about a user is followed by a cycle')
    if impl.get('loop_exceptions'):
        add('C05-internal-error', 'exception reported to the loop exception handler', impl['loop_exceptions'][:2])
    return vs


# --------------------------------------------------------------------------------------------
# generator (a rough mirror of the scheduler keeps the ops mostly valid; it is NOT part of the verdict)
# --------------------------------------------------------------------------------------------

class _Mirror:
    """rough mirror of scheduler + tracking (answers of the server arrive right after the cycle that asks)"""

    def __init__(self, slots):
        self.slots = slots
        self.xs: list[list] = []          # [user, dir, state]
        self.users: dict[int, list] = {}  # the server's truth + friend flag: [status, friend, priv]
        self.known: dict[int, list] = {}  # what the client holds: u -> [status, priv] (tracked users only)
        self.plist: set = set()
        self.pending = False
        self.t = 0.0
        self.wake = 0.0

    def truth(self, u):
        return self.users.get(u, ['UNKNOWN', False, False])

    def info(self, u):
        st, pr = self.known.get(u, ['UNKNOWN', u in self.plist])
        return [st, self.truth(u)[1], pr]

    def set_user(self, u, st, fr, pr):
        self.users[u] = [st, fr, pr]
        if u in self.known and st != 'UNKNOWN':
            self.known[u] = [st, pr]
            self.pending = True

    def cycle(self):
        unf = {x[0] for x in self.xs if x[2] not in FINAL}
        asked = [u for u in unf if u not in self.known]
        for u in list(self.known):
            if u not in unf:
                del self.known[u]
        for u in asked:
            self.known[u] = ['UNKNOWN', u in self.plist]
        busy = {x[0] for x in self.xs if x[1] == 'U' and x[2] in ('INITIALIZING', 'UPLOADING')}
        seen, cand = set(), []
        for k, (u, d, st) in enumerate(self.xs):
            if self.info(u)[0] == 'OFFLINE' or d != 'U' or u in busy or u in seen:
                continue
            if st == 'QUEUED':
                seen.add(u)
                cand.append(k)
        def rk(k):
            s, f, p = self.info(self.xs[k][0])
            return (1 if s in ('ONLINE', 'AWAY') else 0) + (5 if f else 0) + (100 if p else 0)
        cand = list(reversed(sorted(cand, key=rk)))
        free = max(0, self.slots - len([x for x in self.xs if x[1] == 'U' and x[2] in ('INITIALIZING', 'UPLOADING')]))
        sel = cand[:free]
        for k in sel:
            self.xs[k][2] = 'INITIALIZING'
        self.pending = bool(sel) or bool(asked)
        for u in asked:                      # the answers
            if self.truth(u)[0] != 'UNKNOWN':
                self.known[u][0] = self.truth(u)[0]
        self.wake = self.t + 0.05
        return len(cand), free

    def tick(self, dt):
        end = self.t + dt
        while self.pending and max(self.wake, self.t) <= end + 1e-9:
            self.t = max(self.wake, self.t)
            self.cycle()
        self.t = end


def _gen_case(rng: random.Random, max_ops: int = 12, notice: bool = False) -> dict:
    """85 %: a contended population is set up first (more users with queued uploads than slots, mixed ranks, one to three
    uploads per user in interleaved arrival order); 15 %: free-form sequence from an empty manager (covers slots 0,
    single user, idle cycles).  Contended set-ups are `cold` (all queued inside one sleep of the management job: the
    cycle that has to rank has heard nothing from the server yet, friend list / privileged list decide) or `warm` (queued
    with no slot: the client starts tracking, the server answers, some queued uploads are aborted, statuses change; then
    slots open and the cycle ranks users it knows).  Then <= max_ops ops that keep freeing and re-filling slots."""
    ops: list[list] = []
    contended = rng.random() < 0.85
    warm = False
    if contended:
        slots = rng.choice([1, 1, 2, 2, 3, 3, 4])
        nusers = min(5, slots + rng.randint(1, 2))
        warm = rng.random() < 0.55
        m = _Mirror(0 if warm else slots)
        kind_profile = rng.choice(['contention', 'contention', 'limits', 'churn', 'churn', 'tracking', 'tracking'])
        # more eligible (not offline) users than slots: at most nusers - slots - 1 users start offline
        offline = set(rng.sample(range(nusers), rng.randint(0, max(0, nusers - slots - 1))))
        for u in range(nusers):
            st = 'OFFLINE' if u in offline else rng.choice(['UNKNOWN', 'AWAY', 'AWAY', 'ONLINE', 'ONLINE', 'ONLINE'])
            fr, pr = rng.random() < 0.4, rng.random() < 0.35
            ops.append(['setUser', u, st, fr, pr, 0])            # nobody is watched yet: the server says nothing
            m.set_user(u, st, fr, pr)
        if rng.random() < 0.6:
            pl = [u for u in range(nusers) if m.truth(u)[2]]
            ops.append(['privList', pl, 0])
            m.plist = set(pl)
        per_user = [rng.choice([1, 1, 2, 2, 3]) if (kind_profile == 'tracking' or rng.random() < 0.4) else 1
                    for _ in range(nusers)]
        arrivals = [u for u in range(nusers) for _ in range(per_user[u])]
        rng.shuffle(arrivals)
        arrivals = arrivals[:9]
        for u in arrivals:
            ops.append(['addUpload', u, 0])
            m.xs.append([u, 'U', 'QUEUED'])
            if not m.pending and m.t >= m.wake:
                m.pending = True
                m.cycle()                    # the idle job serves the first request at once
            m.pending = True
        w = rng.choice([0.05, 0.05, 0.1])
        ops.append(['wait', w])
        m.tick(w)
        if warm:
            # everybody is tracked and answered now; finalize some queued uploads (the later / earlier one of a user with
            # several), move statuses, then open the slots and trigger a cycle
            multi = [k for k, x in enumerate(m.xs) if sum(1 for y in m.xs if y[0] == x[0]) > 1]
            for k in rng.sample(multi, min(len(multi), rng.choice([0, 1, 1, 2, 3]))):
                ops.append(['abort', k, rng.choice([0, 0, 0.05])])
                m.xs[k][2] = 'ABORTED'
            for u in rng.sample(range(nusers), rng.choice([0, 1, 1, 2])):
                st0, fr0, pr0 = m.truth(u)
                st = rng.choice(['OFFLINE', 'OFFLINE', 'AWAY', 'ONLINE'])
                if sum(1 for v in range(nusers) if (st if v == u else m.truth(v)[0]) != 'OFFLINE') <= slots:
                    st = 'ONLINE'
                pr = pr0 if rng.random() < 0.7 else not pr0
                ops.append(['setUser', u, st, fr0, pr, rng.choice([0, 0, 0.05])])
                m.set_user(u, st, fr0, pr)
            w = rng.choice([0.05, 0.1, 0.3])
            ops.append(['wait', w])
            m.tick(w)
            ops.append(['setSlots', slots, 0])
            m.slots = slots
            u = rng.randrange(nusers)
            if rng.random() < 0.5:
                ops.append(['addUpload', u, 0])
                m.xs.append([u, 'U', 'QUEUED'])
            else:
                st0, fr0, pr0 = m.truth(u)
                ops.append(['setUser', u, st0 if st0 != 'UNKNOWN' else 'ONLINE', fr0, pr0, 0])
                m.set_user(u, st0 if st0 != 'UNKNOWN' else 'ONLINE', fr0, pr0)
            m.pending = True
            w = rng.choice([0.05, 0.1])
            ops.append(['wait', w])
            m.tick(w)
    else:
        slots = rng.choice([0, 0, 1, 1, 2, 2, 3, 4])
        nusers = rng.randint(1, 5)
        m = _Mirror(slots)
        kind_profile = rng.choice(['mixed', 'mixed', 'limits', 'churn', 'tracking'])
        # initial population of user attributes
        for u in range(nusers):
            if rng.random() < 0.75:
                st = rng.choice(['UNKNOWN', 'OFFLINE', 'AWAY', 'ONLINE', 'ONLINE'])
                fr, pr = rng.random() < 0.35, rng.random() < 0.3
                ops.append(['setUser', u, st, fr, pr, 0])
                m.set_user(u, st, fr, pr)
    n = rng.randint(6 if contended else 4, max_ops)
    weights = {'addUpload': 26, 'started': 12, 'finish': 10, 'failX': 5, 'backToQueue': 8, 'requeue': 4, 'apiQueue': 3,
               'abort': 6, 'abortRace': 3, 'setSlots': 6, 'setUser': 10, 'privList': 2, 'peerEvent': 2, 'addDownload': 2, 'wait': 6}
    if contended:
        # keep the slots turning over: completions / fall-backs / aborts free slots between cycles, arrivals and rank
        # changes re-order the waiting users, the limit moves while uploads are active
        weights = {'addUpload': 14, 'started': 16, 'finish': 16, 'failX': 7, 'backToQueue': 12, 'requeue': 5, 'apiQueue': 3,
                   'abort': 6, 'abortRace': 7, 'setSlots': 7, 'setUser': 9, 'privList': 2, 'peerEvent': 2, 'addDownload': 1, 'wait': 5}
    if kind_profile == 'contention':
        weights.update({'addUpload': weights['addUpload'] + 12, 'setUser': 14})
    elif kind_profile == 'limits':
        weights.update({'setSlots': 20})
    elif kind_profile == 'churn':
        weights.update({'finish': 20, 'backToQueue': 16, 'failX': 10, 'requeue': 8})
    elif kind_profile == 'tracking':
        # users come and go: their uploads are finalized one by one (the user must stay tracked while one is left, is let
        # go with the last one, comes back with the next request) while the server keeps reporting
        weights.update({'abort': 16, 'failX': 9, 'finish': 18, 'setUser': 18, 'requeue': 7, 'apiQueue': 5, 'addUpload': 18,
                        'privList': 3})
    linger: set = set()          # uploads whose task still tries to report a failure to the peer (notice cases)
    if notice and contended:
        # the uploads the set-up started get through: transfers are under way (they can break) when the ops begin
        for k, x in enumerate(m.xs):
            if x[1] == 'U' and x[2] == 'INITIALIZING' and rng.random() < 0.85:
                ops.append(['started', k, 0])
                x[2] = 'UPLOADING'
                m.pending = True
    if notice:
        # uploads break in mid-transfer, the report to the peer takes its time, the peer queues the file again meanwhile
        weights.update({'failX': weights['failX'] + 12, 'started': weights['started'] + 6, 'requeue': weights['requeue'] + 10,
                        'notice': 14})
    kinds = list(weights)
    for _ in range(n):
        dt = rng.choice([0, 0, 0, 0.05, 0.05, 0.02, 0.1, 0.3])
        kind = rng.choices(kinds, [weights[k] for k in kinds])[0]
        if (kind not in TASK_OPS and kind not in ('wait', 'abortRace') and ops and ops[-1][0] in API_OPS
                and rng.random() < 0.3):
            # two events in one loop step: this one is dispatched before anything the previous one set off has run; with
            # the management job idle (0.3 s since the last event) its cycle then runs right behind both
            dt = SAME_STEP
            if rng.random() < 0.6 and ops[-1][-1] != SAME_STEP:
                m.tick(max(0.0, 0.3 - ops[-1][-1]))
                ops[-1][-1] = 0.3
        m.tick(max(dt, 0))
        if len(m.xs) < 2:
            kind = 'addUpload' if rng.random() < 0.8 else kind
        by_state = lambda *sts: [k for k, x in enumerate(m.xs) if x[1] == 'U' and x[2] in sts]
        valid = rng.random() < (0.95 if contended else 0.9)
        def pick(cands):
            if cands and valid:
                return rng.choice(cands)
            return rng.randrange(len(m.xs) + 1) if m.xs else 0
        if kind == 'addUpload':
            u = rng.randrange(nusers)
            ops.append(['addUpload', u, dt])
            m.xs.append([u, 'U', 'QUEUED'])
            m.pending = True
        elif kind == 'addDownload':
            u = rng.randrange(nusers)
            ops.append(['addDownload', u, dt])
            m.xs.append([u, 'D', 'QUEUED'])
            m.pending = True
        elif kind == 'wait':
            ops.append(['wait', rng.choice([0.05, 0.05, 0.1, 0.3])])
            m.tick(ops[-1][-1])
            continue
        elif kind == 'setSlots':
            v = rng.choice([0, 1, 2, 3, 4])
            if contended and rng.random() < 0.6:
                v = max(0, min(4, m.slots + rng.choice([-1, -1, 1, 1, 2])))
            ops.append(['setSlots', v, dt])
            m.slots = v
        elif kind == 'peerEvent':
            ops.append(['peerEvent', rng.choice(['closed', 'closed', 'connected']), dt])
        elif kind == 'privList':
            pl = {u for u in range(nusers) if m.truth(u)[2]}
            pl ^= {rng.randrange(nusers)}
            ops.append(['privList', sorted(pl), dt])
            m.plist = set(pl)
            for u in range(nusers):
                st0, fr0, _ = m.truth(u)
                m.users[u] = [st0, fr0, u in pl]
                if u in m.known:
                    m.known[u][1] = u in pl
        elif kind == 'setUser':
            u = rng.randrange(nusers)
            if rng.random() < 0.6:
                # a user the client is doing something for (watched: the report is delivered)
                cur = sorted({x[0] for x in m.xs if x[2] not in FINAL})
                u = rng.choice(cur) if cur else u
            st = rng.choice(['UNKNOWN', 'OFFLINE', 'OFFLINE', 'OFFLINE', 'AWAY', 'ONLINE', 'ONLINE'])
            fr, pr = rng.random() < 0.35, rng.random() < 0.3
            if rng.random() < 0.5 and u in m.users:      # change one attribute only
                st0, fr0, pr0 = m.users[u]
                j = rng.randrange(3)
                st, fr, pr = (st if j == 0 else st0), (fr if j == 1 else fr0), (pr if j == 2 else pr0)
            ops.append(['setUser', u, st, fr, pr, dt])
            m.set_user(u, st, fr, pr)
        elif kind == 'notice':
            k = rng.choice(sorted(linger)) if linger and valid else (rng.randrange(len(m.xs) + 1) if m.xs else 0)
            out = rng.choice(['ok', 'fail'])
            ops.append(['notice', k, out, dt])
            if k in linger:
                linger.discard(k)
                if out == 'fail' and m.xs[k][2] == 'FAILED':
                    m.xs[k][2] = 'QUEUED'          # the downloader could not be told: the file is offered again
                    m.pending = True
        else:
            src = {'started': ('INITIALIZING',), 'finish': ('UPLOADING',), 'failX': ('INITIALIZING', 'UPLOADING'),
                   'backToQueue': ('INITIALIZING',), 'requeue': ('FAILED', 'COMPLETE'),
                   'apiQueue': ('ABORTED', 'FAILED', 'COMPLETE'),
                   'abort': ('QUEUED', 'INITIALIZING', 'UPLOADING'),
                   'abortRace': ('UPLOADING', 'UPLOADING', 'INITIALIZING')}[kind]
            cands = by_state(*src)
            if kind == 'failX' and notice and rng.random() < 0.7:
                cands = by_state('UPLOADING') or cands        # a transfer that breaks, not a refused request
            if kind == 'requeue' and notice and rng.random() < 0.7:
                cands = [k for k in cands if k in linger] or cands
            if kind == 'abort' and kind_profile == 'tracking' and rng.random() < 0.7:
                # an upload of a user who has another one that is not finalized, preferably not next to it in the list
                def apart(k):
                    return any(j != k and x[0] == m.xs[k][0] and x[2] not in FINAL and
                               any(y[0] != x[0] for y in m.xs[min(j, k) + 1:max(j, k)]) for j, x in enumerate(m.xs))
                pref = [k for k in cands if apart(k)]
                cands = pref or cands
            if kind == 'abortRace':
                # prefer an active upload whose user has another upload waiting (the cycle that runs while abort waits
                # must still see that user as busy)
                pref = [k for k in cands if any(x[0] == m.xs[k][0] and x[1] == 'U' and x[2] == 'QUEUED' for x in m.xs)]
                cands = pref or cands
                if rng.random() < 0.5:
                    dt2 = rng.choice([0.3, 0.3, 0.1])         # the management job is idle: the cycle runs at once
                    m.tick(max(0.0, dt2 - dt))
                    dt = dt2
            k = pick(cands)
            dst = {'started': 'UPLOADING', 'finish': 'COMPLETE', 'failX': 'FAILED', 'backToQueue': 'QUEUED',
                   'requeue': 'QUEUED', 'apiQueue': 'QUEUED', 'abort': 'ABORTED', 'abortRace': 'ABORTED'}[kind]
            if kind == 'backToQueue':
                ops.append([kind, k, rng.choice(STAGES), dt])
            else:
                ops.append([kind, k, dt])
            if k < len(m.xs) and m.xs[k][1] == 'U' and m.xs[k][2] in src:
                broke = notice and kind == 'failX' and m.xs[k][2] == 'UPLOADING'
                m.xs[k][2] = dst
                m.pending = True
                if broke:
                    linger.add(k)
                    if rng.random() < 0.6:
                        # the downloader has noticed the broken connection too and queues the file again while the
                        # uploader's task is still trying to report the failure; some time later that attempt ends
                        d2 = rng.choice([0, 0.05, 0.1, 0.3])
                        m.tick(d2)
                        ops.append(['requeue', k, d2])
                        m.xs[k][2] = 'QUEUED'
                        m.pending = True
                        if rng.random() < 0.7:
                            # while the upload waits for its old task: somebody else asks for a file / a slot opens (the
                            # cycle has to rank the passed-over upload against the others)
                            d4 = rng.choice([0, 0.05, 0.1, 0.3])
                            m.tick(d4)
                            r4 = rng.random()
                            going = [j for j in by_state('UPLOADING') if j != k]
                            if r4 < 0.3:
                                others = [v for v in range(nusers) if v != m.xs[k][0]] or [m.xs[k][0]]
                                ops.append(['addUpload', rng.choice(others), d4])
                                m.xs.append([ops[-1][1], 'U', 'QUEUED'])
                            elif r4 < 0.65 and going:
                                ops.append(['finish', rng.choice(going), d4])
                                m.xs[ops[-1][1]][2] = 'COMPLETE'
                            else:
                                m.slots = min(4, m.slots + 1)
                                ops.append(['setSlots', m.slots, d4])
                                if rng.random() < 0.5:       # (a raised limit does not request a cycle by itself)
                                    ops.append(['peerEvent', 'closed', 0] if rng.random() < 0.3 else
                                               ['addUpload', rng.randrange(nusers), 0])
                                    if ops[-1][0] == 'addUpload':
                                        m.xs.append([ops[-1][1], 'U', 'QUEUED'])
                            m.pending = True
                        if rng.random() < 0.6:
                            d3 = rng.choice([0.05, 0.1, 0.3, 0.3])
                            m.tick(d3)
                            ops.append(['notice', k, rng.choice(['ok', 'fail']), d3])
                            linger.discard(k)
        if m.pending and m.t >= m.wake:
            m.cycle()
    case = {'slots': 0 if warm else slots, 'ops': ops,
            'kind': ('contended-' + ('warm-' if warm else 'cold-') if contended else 'free-') + kind_profile}
    # some cases on a slow server connection: the answer to the tracking request takes a while (or is lost); judged by
    # the monitor only
    if notice:
        case['notice'] = True
        case['kind'] += '/slow-notice'
        return case
    if rng.random() < 0.2:
        # the application installs new settings objects instead of assigning to the attributes of the old ones
        case['settings'] = rng.choice(['section', 'dict', 'transfers', 'copy', 'mixed', 'mixed'])
        case['kind'] += '/settings-replaced'
    r = rng.random()
    if r < 0.12:
        case['net'] = {'reply_delay': rng.choice([0.01, 0.03, 0.06, 0.06, 0.2, 0.2, None])}
        case['kind'] += '/slow-server'
    elif r < 0.27:
        # a slow file system / busy executor: whatever a task asks the disk takes this long (a multiple of the
        # management interval, or just one loop iteration), the same for every call or alternating
        case['disk'] = {'delays': rng.choice([[0], [0.06], [0.12], [0.12], [0.3], [0.3], [0.3, 0], [0, 0.2], [0.06, 0.3, 0],
                                              [0.5]]),
                        'lookup': rng.choice([[0], [0], [0], [0.06], [0.3], [0, 0.3], [0.12, 0], None])}
        case['kind'] += '/slow-disk'
    return case


# directed schedules, always run
DIRECTED = [
    # two users, one slot: the privileged user (privileged list) queued last goes first; completion hands the slot on
    {'kind': 'directed-priority', 'slots': 1, 'ops': [
        ['privList', [1], 0], ['setUser', 1, 'ONLINE', False, True, 0], ['setSlots', 0, 0], ['addUpload', 0, 0],
        ['addUpload', 1, 0], ['setSlots', 1, 0.02], ['wait', 0.1], ['started', 1, 0], ['finish', 1, 0.1], ['wait', 0.3]]},
    # an op exactly on the management timer: lands between the scheduling decision and `initialize()`
    {'kind': 'directed-coincide', 'slots': 2, 'ops': [
        ['addUpload', 0, 0], ['addUpload', 1, 0.05], ['abort', 1, 0.05], ['addUpload', 2, 0], ['setSlots', 1, 0.05],
        ['wait', 0.3]]},
    # the limit is lowered below the number of running uploads; nothing new starts until it fits again
    {'kind': 'directed-lower-limit', 'slots': 3, 'ops': [
        ['addUpload', 0, 0], ['addUpload', 1, 0], ['addUpload', 2, 0], ['addUpload', 3, 0.1], ['setSlots', 1, 0.1],
        ['started', 0, 0], ['finish', 0, 0.1], ['wait', 0.3], ['failX', 1, 0], ['backToQueue', 2, 'conn', 0.1],
        ['wait', 0.3]]},
    # a cycle runs while abort of user0's UPLOADING upload waits for its task: user0 is still busy, his second upload
    # must wait for the cycle after the abort
    {'kind': 'directed-cycle-during-abort', 'slots': 2, 'ops': [
        ['addUpload', 0, 0], ['addUpload', 0, 0], ['wait', 0.1], ['started', 0, 0], ['wait', 0.3], ['abortRace', 0, 0],
        ['wait', 0.3]]},
    # same user twice, a user the server reports offline (friend and privileged), who then comes back
    {'kind': 'directed-one-per-user', 'slots': 0, 'ops': [
        ['setUser', 2, 'OFFLINE', True, True, 0], ['addUpload', 0, 0], ['addUpload', 0, 0], ['addUpload', 2, 0],
        ['wait', 0.1], ['setSlots', 4, 0], ['addUpload', 1, 0], ['wait', 0.3], ['started', 0, 0], ['finish', 0, 0.3],
        ['setUser', 2, 'AWAY', True, True, 0.3], ['wait', 0.3]]},
    # interleaved arrivals user0, user1, user0; the server reports user0 offline; the later upload of user0 is aborted:
    # user0 stays tracked (one upload is left), stays offline for every later cycle, and is not served when slots open;
    # when the last one is finalized too the user is let go, and comes back (status unknown until answered) with a new one
    {'kind': 'directed-interleaved-finalized', 'slots': 0, 'ops': [
        ['addUpload', 0, 0], ['addUpload', 1, 0], ['addUpload', 0, 0], ['wait', 0.3], ['setUser', 0, 'OFFLINE', False, False, 0],
        ['wait', 0.3], ['abort', 2, 0], ['wait', 0.3], ['setSlots', 4, 0], ['addUpload', 3, 0], ['wait', 0.5],
        ['abort', 0, 0], ['wait', 0.3], ['setUser', 0, 'ONLINE', False, False, 0], ['addUpload', 0, 0.3], ['wait', 0.3]]},
    # the same on a slow server connection (answers take 60 ms, longer than the management interval)
    {'kind': 'directed-interleaved-finalized/slow-server', 'slots': 0, 'net': {'reply_delay': 0.06}, 'ops': [
        ['setUser', 0, 'OFFLINE', False, False, 0], ['addUpload', 0, 0], ['addUpload', 1, 0], ['addUpload', 0, 0],
        ['wait', 0.3], ['abort', 2, 0], ['wait', 0.3], ['setSlots', 4, 0], ['addUpload', 3, 0], ['wait', 0.5]]},
    # an upload breaks in mid-transfer; while its task still tries to tell the peer, the peer queues the file again and a
    # cycle passes it over (its task is running); then the attempt ends (delivered / failed): the upload must be started
    {'kind': 'directed-requeued-while-failure-is-reported/slow-notice', 'slots': 1, 'notice': True, 'ops': [
        ['addUpload', 0, 0], ['wait', 0.3], ['started', 0, 0], ['wait', 0.3], ['failX', 0, 0], ['wait', 0.3],
        ['requeue', 0, 0], ['wait', 0.3], ['notice', 0, 'ok', 0], ['wait', 0.5]]},
    {'kind': 'directed-requeued-while-failure-is-reported-2/slow-notice', 'slots': 1, 'notice': True, 'ops': [
        ['addUpload', 0, 0], ['addUpload', 1, 0.3], ['started', 0, 0], ['wait', 0.3], ['failX', 0, 0], ['wait', 0.1],
        ['started', 1, 0], ['finish', 1, 0.1], ['requeue', 0, 0.1], ['wait', 0.3], ['notice', 0, 'fail', 0], ['wait', 0.5]]},
    # one slot; the upload of privileged user0 breaks, the report hangs, user0 queues the file again and is passed over;
    # then user1 asks for a file: the free slot is user0's (kept until the old task ends), user1 waits
    {'kind': 'directed-passed-over-keeps-its-slot/slow-notice', 'slots': 1, 'notice': True, 'ops': [
        ['privList', [0], 0], ['setUser', 0, 'ONLINE', False, True, 0], ['setUser', 1, 'ONLINE', False, False, 0],
        ['addUpload', 0, 0], ['wait', 0.3], ['started', 0, 0], ['wait', 0.3], ['failX', 0, 0], ['wait', 0.3],
        ['requeue', 0, 0], ['wait', 0.3], ['addUpload', 1, 0], ['wait', 0.3], ['notice', 0, 'ok', 0], ['wait', 0.5],
        ['started', 0, 0], ['finish', 0, 0.1], ['wait', 0.3]]},
    # the same with user1 queued first and everything inside one sleep of the management job: user1's request is served
    # by a cycle (no slot), then user0's upload breaks and is queued again before the next cycle runs
    {'kind': 'directed-passed-over-keeps-its-slot-2/slow-notice', 'slots': 1, 'notice': True, 'ops': [
        ['privList', [0], 0], ['setUser', 0, 'ONLINE', False, True, 0], ['setUser', 1, 'ONLINE', True, False, 0],
        ['addUpload', 0, 0], ['wait', 0.3], ['started', 0, 0], ['wait', 0.3], ['addUpload', 1, 0], ['failX', 0, 0],
        ['requeue', 0, 0], ['wait', 0.3], ['notice', 0, 'fail', 0], ['wait', 0.5]]},
    # the limit is changed by installing a new `limits` section / a dict / a new `transfers` section: lowered below the
    # number of running uploads (nothing starts until it fits), raised again (the waiting uploads start)
    {'kind': 'directed-limit-replaced', 'slots': 2, 'settings': 'mixed', 'ops': [
        ['addUpload', 0, 0], ['addUpload', 1, 0], ['addUpload', 2, 0], ['addUpload', 3, 0], ['wait', 0.3],
        ['started', 0, 0], ['started', 3, 0], ['setSlots', 1, 0.1], ['finish', 0, 0.1], ['wait', 0.3], ['finish', 3, 0],
        ['wait', 0.3], ['setSlots', 3, 0], ['addUpload', 4, 0], ['wait', 0.3], ['setSlots', 0, 0], ['started', 2, 0],
        ['finish', 2, 0.1], ['wait', 0.3], ['setSlots', 4, 0], ['addUpload', 0, 0], ['wait', 0.3]]},
    {'kind': 'directed-limit-raised-from-zero/settings-replaced', 'slots': 0, 'settings': 'section', 'ops': [
        ['addUpload', 0, 0], ['addUpload', 1, 0], ['wait', 0.3], ['setSlots', 1, 0], ['addUpload', 2, 0], ['wait', 0.3],
        ['started', 2, 0], ['finish', 2, 0.1], ['wait', 0.3]]},
    {'kind': 'directed-friend-list-replaced', 'slots': 0, 'settings': 'transfers', 'ops': [
        ['setUser', 0, 'ONLINE', False, False, 0], ['setUser', 1, 'ONLINE', False, False, 0], ['addUpload', 0, 0],
        ['addUpload', 1, 0], ['wait', 0.3], ['setUser', 1, 'ONLINE', True, False, 0], ['setSlots', 1, 0.1],
        ['addUpload', 2, 0], ['wait', 0.3], ['started', 1, 0], ['setUser', 1, 'ONLINE', False, False, 0],
        ['setUser', 2, 'ONLINE', True, False, 0], ['finish', 1, 0.1], ['wait', 0.3]]},
    # slow disk, the candidates are re-ordered after a decision: one slot, user0's upload is chosen; then a privileged
    # user / a later user of equal rank queues a file and further cycles run while the disk is busy
    {'kind': 'directed-reorder-after-decision/slow-disk', 'slots': 1, 'disk': {'delays': [0.3], 'lookup': [0]}, 'ops': [
        ['privList', [1], 0], ['setUser', 1, 'ONLINE', False, True, 0], ['addUpload', 0, 0], ['wait', 0.1],
        ['addUpload', 1, 0], ['wait', 0.1], ['addUpload', 2, 0], ['wait', 0.6], ['started', 0, 0], ['finish', 0, 0.1],
        ['wait', 0.3]]},
    {'kind': 'directed-later-arrival-after-decision/slow-disk', 'slots': 1, 'disk': {'delays': [0.12, 0], 'lookup': [0]}, 'ops': [
        ['addUpload', 0, 0], ['wait', 0.06], ['addUpload', 1, 0], ['wait', 0.06], ['addUpload', 2, 0], ['wait', 0.6]]},
    # slow disk, an earlier upload of the same user comes back to the queue after the decision for a later one
    {'kind': 'directed-earlier-upload-requeued-after-decision/slow-disk', 'slots': 2, 'disk': {'delays': [0.3], 'lookup': [0]}, 'ops': [
        ['addUpload', 0, 0], ['wait', 0.7], ['failX', 0, 0], ['wait', 0.5], ['addUpload', 0, 0], ['wait', 0.1],
        ['requeue', 0, 0], ['wait', 0.1], ['addUpload', 1, 0], ['wait', 1.0]]},
]


def _features(case: dict, impl: dict) -> set:
    feats = set()
    n_sel = 0
    states_seen = set()
    reported = dict(_reference(impl['log']))
    prev_unf: set = set()
    ever_unf: set = set()
    heard: set = set()            # users the server said something about while they were tracked
    for idx, e in enumerate(impl['log']):
        if e[0] == 'told' and e[3] is not None:
            heard.add(e[2])
        if e[0] == 'cycle':
            _, started, info = e
            users = reported[idx]
            sel = [k for kind, k in started if kind == 'T']
            if sel:
                n_sel += 1
            xs = {k: (u, d, st) for k, u, d, st in info['xs']}
            active = [k for k, (u, d, st) in xs.items() if d == 'U' and st in ('INITIALIZING', 'UPLOADING')]
            busy = {xs[k][0] for k in active}
            elig = {u for k, (u, d, st) in xs.items() if d == 'U' and st == 'QUEUED'
                    and users[u][0] != 'OFFLINE' and u not in busy}
            free = max(0, info['slots'] - len(active))
            if len(elig) > free and elig:
                feats.add('contention')
                if free > 0:
                    feats.add('ranking-decided')
                    if len({_klass(users[u]) for u in elig}) > 1:
                        feats.add('ranking-decided-between-classes')
                    if len({users[u][0] in ('ONLINE', 'AWAY') for u in elig}) > 1:
                        feats.add('ranking-decided-by-reported-status')
            if len(active) > info['slots']:
                feats.add('over-limit-after-lowering')
            if any(st == 'QUEUED' and users[u][0] == 'OFFLINE' for k, (u, d, st) in xs.items() if d == 'U'):
                feats.add('offline-user-queued')
                if free > len(sel):
                    feats.add('offline-user-queued-while-slot-free')
            if any(st == 'QUEUED' and u in busy for k, (u, d, st) in xs.items() if d == 'U'):
                feats.add('second-upload-of-busy-user')
            # tracking situations
            unf = {u for _k, (u, _d, st) in xs.items() if st not in FINAL}
            if (prev_unf - unf):
                feats.add('user-let-go')
            if (unf - prev_unf) & ever_unf:
                feats.add('user-comes-back')
            prev_unf = unf
            ever_unf |= unf
            order = [xs[k][0] for k in sorted(xs)]
            for u in unf:
                pos = [i for i, v in enumerate(order) if v == u]
                if len(pos) > 1 and any(order[i] != u for i in range(pos[0], pos[-1])):
                    sts = [xs[k][2] for k in sorted(xs) if xs[k][0] == u]
                    if any(st in FINAL for st in sts):
                        feats.add('interleaved-user-with-finalized-transfer')
                        if u in heard and users[u][0] == 'OFFLINE':
                            feats.add('interleaved-offline-user-with-finalized-transfer')
            if info.get('inflight'):
                feats.add('cycle-sees-upload-in-flight')
                po = [k for k in info['inflight'] if k in xs and k not in sel and xs[k][0] in elig]
                if po and len(elig) > free > 0:
                    feats.add('cycle-passes-over-upload-under-contention')
                    if any(_klass(users[xs[k][0]]) > _klass(users[u]) for k in po for u in elig):
                        feats.add('cycle-passes-over-upload-of-higher-class-under-contention')
            if info.get('reported_slots', info['slots']) != info['slots']:
                feats.add('manager-reports-other-limit-than-configured')
        elif e[0] == 'state':
            states_seen.add(e[3])
        elif e[0] == 'op' and e[2] == 'refused':
            feats.add('refused-op')
    if n_sel >= 2:
        feats.add('two-cycles-started-uploads')
    if any(op[-1] == SAME_STEP for op in case['ops']):
        feats.add('two-events-in-one-loop-step')
    if case.get('settings'):
        feats.add('settings-replaced')
        if any(a[0] == 'slots' for a in impl['log']) and n_sel:
            feats.add('limit-replaced')
    if case.get('disk'):
        feats.add('slow-disk')
        # an upload that became active while other users' uploads were queued behind it and the disk was slow
        if any(e[0] == 'state' and e[3] == 'UPLOADING' for e in impl['log']):
            feats.add('slow-disk-upload-started')
    racing = False
    for e in impl['log']:
        if e[0] == 'opline':
            racing = False
        elif e[0] == 'told':
            racing = True
        elif e[0] == 'cycle' and racing:
            racing = False
            busy_active = [x for x in e[2]['xs'] if x[2] == 'U' and x[3] in ('INITIALIZING', 'UPLOADING')]
            if busy_active and any(op[0] == 'abortRace' for op in case['ops']):
                feats.add('cycle-while-abort-waits')
    for s in ('UPLOADING', 'COMPLETE', 'FAILED', 'ABORTED'):
        if s in states_seen:
            feats.add('reached-' + s)
    # an op that ran after a cycle in the same loop iteration (before the init tasks' first step)
    log = impl['log']
    for i, e in enumerate(log):
        if e[0] == 'cycle' and e[1] and i + 1 < len(log) and log[i + 1][0] in ('op', 'slots', 'friend', 'add') :
            feats.add('op-between-decision-and-initialize')
        if e[0] == 'cycle' and e[1] and i + 2 < len(log) and log[i + 1][0] == 'state' and log[i + 1][3] == 'ABORTED':
            feats.add('op-between-decision-and-initialize')
    return feats


class C05(Property):
    id = 'C05'
    props_module = 'AioslskVerif.Props.C05'
    driver_module = 'AioslskVerif.Driver.C05'
    rule = ('85 % of the cases start from a contended population: slot limit 1..4, slots+1..slots+2 (<= 5) users with mixed '
            'status/friend/privilege on the server (at most so many offline that eligible users still outnumber the slots), '
            'one to three queued uploads per user in interleaved arrival order, optionally a privileged list; `cold` set-ups '
            'queue everything inside one sleep of the management job (the ranking cycle has not heard from the server yet), '
            '`warm` set-ups queue with no slot, let the client start tracking and the server answer, abort some of the '
            'queued uploads of users with several, change statuses, then open the slots; 15 % start empty (slot limit 0..4, '
            '1..5 users). Then 4..12 ops (thorough: ..24) out of: peer queues an upload, download added, initialisation '
            'succeeds / is refused / falls back to the queue at one of 5 stages, upload completes / fails, peer re-queue, '
            'API queue, abort (profile `tracking`: preferably one of several uploads of a user that are apart in the list), '
            'abort racing a cycle, limit change (mostly by one step while uploads are active), change of a user on the '
            'server (reported iff the client watches the user) + friend list, privileged list, a peer connection opening / '
            'closing, two events within one loop step (30 % after an API-level op), each preceded by a virtual '
            'delay from {0, 0.02, 0.05 (= the management timer), 0.1, 0.3} s; 12 % of the cases run on a slow server '
            'connection (answer to the tracking request after 0.01..0.2 s or never; monitor only), 15 % on a slow file '
            'system / busy executor (every call the library hands to the executor, and independently every shares look-up, '
            'takes one loop iteration .. 0.5 s of virtual time, constant or alternating; monitor only), 12 % with a peer that '
            'is hard to reach (the PeerUploadFailed report of a broken upload hangs until a `notice` op ends the attempt, '
            'delivered or not; transfers break more often, the peer queues the broken file again while the report hangs; '
            'in contended set-ups the uploads the set-up started are under way when the ops begin, and while a broken upload '
            'waits queued behind its own lingering task another user asks for a file / another upload completes / the '
            'limit is raised, so that a cycle has to rank the passed-over upload against the others; '
            'exact correspondence: model ops breakX / noticeEnd); in 20 % of the cases the application changes its '
            'configuration (slot limit, friend list) by installing NEW settings objects — a new `limits` section as '
            'object / dict / copy, a new `transfers` section, a new friend set, a new `users` section, or a different '
            'way per op — instead of assigning to attributes of the old ones (same model ops; every decision is judged '
            'against the limit / friend list in the settings at that instant); management cycles are run '
            'by the real job and logged where they happen, the first step of every initialize-upload task (QUEUED -> '
            'INITIALIZING) is fed to the model as `record` where it happens; derived from VERIF_SEED. A case is non-trivial when at least one '
            'cycle had more eligible users than free slots with a free slot to give (a ranking decision) and at least two '
            'cycles started uploads; distinct = distinct canonical case')
    assumptions = [
        'Timely (hypothesis of the schedule theorems C05_one_per_user / C05_slot_invariant / C05_work_conserving, '
        'necessary: C05_untimely_cycle_breaks_*): no management cycle is served between the decision of a cycle (task '
        'created) and its record (first step of the task: QUEUED -> INITIALIZING). In the client this is a fact of the '
        'schedule — the job sleeps >= MIN_TRANSFER_MGMT_INTERVAL between two cycles and the first statement of '
        '_initialize_upload is `state.initialize()` on an uncontended lock — and it is checked on every real cycle, with '
        'fast and slow file system / shares look-ups / server: a running task on a QUEUED upload at a cycle is reported '
        '(granularity break; the driver answers `untimely`)',
        'shares manager and peer network are scripted stubs; the peer side of an upload is the schedule; the user manager '
        'is the real one, the server it talks to is simulated: it answers every AddUser with the truth, reports a change '
        'of a user iff the client has the user on its watch list (AddUser sent, RemoveUser not), in order',
        'what the client must know about a user is judged from the first management cycle that sees an unfinished transfer '
        'of the user (that cycle asks the server) until the first cycle that sees none: within that span every decision '
        'is judged against what the server last reported; at its first cycle, against what the scheduler itself read',
        'exact correspondence of the tracking bookkeeping assumes the answer to AddUser arrives within the loop step of '
        'the request (tracking settles between two management cycles); slower answers are exercised monitor-only',
        'raising upload_slots or changing the friend list does not by itself request a cycle (settings are plain '
        'attributes; in the full client the user manager\'s 1 s job announces friend-list changes); the reading only '
        'demands work conservation after a cycle',
        'TransferManager.queue is only called from the states its docstring lists',
        'the configured slot limit / friend list is what the Settings object the client was built with holds at the '
        'instant of a decision (settings.transfers.limits.upload_slots, settings.users.friends, read through the '
        'settings object every time), however the application put it there: attribute assignment or a replaced section',
        'a passed-over upload (see below) uses up the slot it would have got: a cycle that starts an upload needs a free '
        'slot for it and one for every eligible user of a strictly higher class, started or passed over (monitor: '
        'C05-priority-inverted; model: C05_passed_over_uses_its_slot, C05_higher_class_keeps_its_slot); the obligation '
        'to look at a passed-over upload again concerns the candidate of its user (first queued upload) and the slots '
        'that were free under the limit of the cycle that passed it over',
        'an upload a cycle passes over because an earlier task of it is still running (it reports a failure to the '
        'downloader) counts as being served until that task ends; then a cycle has to follow within 0.3 s (monitor: '
        'C05-skipped-upload-forgotten; model: watched / C05_passed_over_is_looked_at_again); an upload in the middle of '
        'a state change (state lock held: an abort waiting for the task it cancelled) is not waiting for a slot; a case '
        'in which an abort hits an upload with a lingering task is judged by the monitor only (the model has no lock)',
    ]
    modelled = ('manage_transfers (upload part: the decision = tasks created for uploads[:free] without a running task, '
                'op `cycle`) and the first step of _initialize_upload (the record, op `record`) as two steps with any '
                'event in between, _get_queued_transfers (upload list), _prioritize_uploads, '
                'get_free_upload_slots, request_management_cycle/_management_job coalescing (cyclePending), the upload '
                'state changes QUEUED/INITIALIZING/UPLOADING/COMPLETE/FAILED/ABORTED incl. abort, peer re-queue, API '
                'queue; the lingering task of a broken upload (_upload_file reporting PeerUploadFailed: ops breakX / '
                'noticeEnd incl. the re-offer FAILED -> QUEUED when the report fails) and the second look at an upload a '
                'cycle passed over because of it (done callback: watched); '
                'manage_user_tracking + UserManager.get_user_object/track_user/untrack_user + the weak `_users` '
                'dictionary at cycle granularity (who is held, what status / privilege the held object carries after '
                'AddUser.Response / GetUserStatus.Response / PrivilegedUsers.Response). Exercised, not modelled: the stages '
                'inside _initialize_upload/_upload_file (collapsed to their state change), the tracking tasks / retry '
                'timers / AddUser-RemoveUser traffic (C15), slow answers of the server, slow file system / executor, '
                'downloads beyond "a queued download takes no upload slot"')

    def regenerate(self):
        from translate import sched_constants
        return [sched_constants.generate(common.REPO, common.LEAN)]

    def _cases(self, seed, tier, widen):
        rng = random.Random(f'C05-{seed}')
        n = (1800 if tier == 'quick' else 40000) * widen
        mx = 12 if tier == 'quick' else 24
        return list(DIRECTED) + [_gen_case(rng, rng.choice([12, mx]), notice=rng.random() < 0.12) for _ in range(n)]

    def correspondence(self, seed, tier, model_ok, widen=1):
        res = KResult()
        cases = self._cases(seed, tier, widen)
        impl = common.parallel_map(_eval_case, cases)
        for c, io in zip(cases, impl):
            if io.get('harness_error'):
                raise RuntimeError(f'C05 harness error: {io["harness_error"]}\n{io.get("tb")}\ncase={c}')
        model = None
        scripts = []
        if model_ok:
            lines, spans = [], []
            for c, io in zip(cases, impl):
                if c.get('net') or c.get('disk') or io.get('inexact'):    # slow server connection / slow disk: monitor only
                    scripts.append(None)
                    spans.append((len(lines), 0))
                    continue
                ls, obs = _script(c, io)
                scripts.append((ls, obs))
                lines.append(f"reset {c['slots']}")
                spans.append((len(lines), len(ls)))
                lines += ls
            out = _run_driver_chunks(self.driver_file, lines, [a - 1 for a, k in spans if k])
            model = [out[a:a + k] for a, k in spans]
        else:
            res.model_available = False
        for i, c in enumerate(cases):
            res.evaluations += 1
            io = impl[i]
            res.count('profile:' + c.get('kind', '?'))
            res.count('slots:%d' % c['slots'])
            for op in c['ops']:
                res.count('op:' + op[0])
            ncyc = sum(1 for e in io['log'] if e[0] == 'cycle')
            res.count('cycles', ncyc)
            res.count('server-reports-delivered', sum(1 for e in io['log'] if e[0] == 'told'))
            feats = _features(c, io)
            for f in feats:
                res.count('feature:' + f)
            if 'ranking-decided' in feats and 'two-cycles-started-uploads' in feats:
                res.nontrivial_keys.add(common.sha([c['slots'], c['ops'], c.get('net'), c.get('disk'), c.get('notice'), c.get('settings')]))
            for g in _untimely(io):
                res.disagreements.append(Disagreement(c, g, None, 'Timely broken: ' + g[0]))
            if not c.get('notice'):              # (the rig's own check does not tell a chosen upload from a lingering task)
                for g in io['granularity']:
                    res.disagreements.append(Disagreement(c, g, None, 'granularity: ' + g[0]))
            if c.get('net'):
                res.count('monitor-only (slow server connection)')
            if c.get('disk'):
                res.count('monitor-only (slow disk)')
            if c.get('notice'):
                res.count('slow failure notice')
            if io.get('inexact'):
                res.count('monitor-only (abort of an upload with a lingering task)')
            res.count('records (QUEUED -> INITIALIZING of an upload)',
                      sum(1 for e in io['log'] if e[0] == 'state' and e[2] == 'QUEUED' and e[3] == 'INITIALIZING'))
            if model is not None and scripts[i] is not None:
                res.traces_validated += 1
                ls, obs = scripts[i]
                mo = _model_obs(ls, model[i], obs)
                if mo != obs:
                    k = next((j for j, (a, b) in enumerate(zip(mo, obs)) if a != b), min(len(mo), len(obs)))
                    res.disagreements.append(Disagreement(
                        c, obs[k] if k < len(obs) else None, mo[k] if k < len(mo) else None,
                        f'line #{k}: {ls[k] if k < len(ls) else ""}'))
            res.violations += _monitor(c, io)
            if len(res.samples) < 3 and c.get('kind', '').startswith('directed'):
                res.samples.append({'case': c, 'impl_final': io['marks'][-1][2],
                                    'cycles': [[e[1], e[2]['slots']] for e in io['log'] if e[0] == 'cycle']})
        return res

    def replay(self, case):
        io = _eval_case(case)
        if io.get('harness_error'):
            raise RuntimeError(io['harness_error'] + '\n' + io.get('tb', ''))
        return _monitor(case, io)

    def known_witnesses(self):
        return []


PROPERTY = C05()
